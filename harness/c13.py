"""C13 — operations never mutate their inputs nor depend on call history.

Tie T : tools/c13_effects.py regenerates Gen/Effects.lean (mutating sites + module state) from the
        current source on every run.
Tie C : (a) the DYNAMIC NET: random sequences of the public read-only / constructive API over a shared
            pool of regions (all classes, pixel and sky, three formats); a deep structural
            fingerprint of every argument before / after each call; every call repeated; a fixed
            list of operations compared with fresh interpreters under other PYTHONHASHSEEDs;
        (b) the heap semantics of Impl/Effects.lean against traced real operations (copy,
            shallow copies, contract mutators, serialisers): which input-reachable objects changed
            and to what; iterator streams against itertools; the compiled tables against the
            extractor;
        (c) the `unknown` sites of the table watched with sys.monitoring during (a).
"""
import importlib.util
import itertools
import json
import os
import random
import shutil
import subprocess
import sys
import tempfile
import warnings

from .common import VERIF
from .runner import PropertyCheck

REPO = os.environ.get('REGIONS_SRC', '/repo')

# =====================================================================================
# 1. deep structural fingerprints
# =====================================================================================


def _np():
    import numpy as np
    return np


def scalar_text(v):
    """bit-exact text of an immutable scalar."""
    np = _np()
    if v is None or isinstance(v, (bool, int, str, bytes)):
        return f'{type(v).__name__}:{v!r}'
    if isinstance(v, float):
        return 'float:' + v.hex()
    if isinstance(v, complex):
        return f'complex:{v.real.hex()},{v.imag.hex()}'
    if isinstance(v, np.generic):
        return f'np.{v.dtype.str}:{v.tobytes().hex()}'
    return None


def is_immutable(v, depth=0):
    np = _np()
    if v is None or isinstance(v, (bool, int, float, complex, str, bytes, np.generic, type, range)):
        return True
    if isinstance(v, (tuple, frozenset)) and depth < 4:
        return all(is_immutable(x, depth + 1) for x in v)
    if callable(v) and not hasattr(v, '__dict__'):
        return True
    import types
    if isinstance(v, (types.FunctionType, types.BuiltinFunctionType, types.MethodType, types.ModuleType)):
        return True
    try:
        import astropy.units as u
        if isinstance(v, u.UnitBase):
            return True
    except Exception:
        pass
    return False


def _arr_text(a):
    np = _np()
    a = np.asarray(a)
    return f'{a.dtype.str}{list(a.shape)}:{a.tobytes().hex()}'


def fp(obj, ids=True, depth=0, seen=None):
    """Deep structural fingerprint: nested tuples of parameter values bit for bit (float.hex / array
    bytes + dtype), units, dict items IN ORDER, and (ids=True) the identity of every container."""
    np = _np()
    import astropy.units as u
    from astropy.coordinates import SkyCoord
    if seen is None:
        seen = {}
    t = scalar_text(obj)
    if t is not None:
        return t
    if depth > 12:
        return ('deep', type(obj).__name__)
    oid = id(obj)
    tag = (oid,) if ids else ()
    if oid in seen:
        return ('cycle', seen[oid])
    seen[oid] = len(seen)
    try:
        return _fp_inner(obj, ids, depth, seen, tag, np, u, SkyCoord)
    finally:
        # shared sub-objects are dumped every time they are met (a tree, not a graph): sharing
        # itself is visible through the ids
        del seen[oid]


def _fp_inner(obj, ids, depth, seen, tag, np, u, SkyCoord):
    import regions as R
    d = depth + 1
    if isinstance(obj, u.Quantity):
        return ('q', type(obj).__name__, str(obj.unit), _arr_text(obj.value)) + tag
    if isinstance(obj, np.ndarray):
        return ('nd', _arr_text(obj)) + tag
    if isinstance(obj, SkyCoord):
        data = obj.data
        comps = tuple((c, str(getattr(data, c).unit), _arr_text(getattr(data, c).value)) for c in data.components)
        fattrs = tuple((a, repr(getattr(obj.frame, a, None))) for a in sorted(obj.frame.frame_attributes))
        return ('sky', obj.frame.name, type(data).__name__, comps, fattrs) + tag
    if isinstance(obj, R.PixCoord):
        return ('pix', fp(obj.x, ids, d, seen), fp(obj.y, ids, d, seen)) + tag
    if isinstance(obj, dict):
        return ('dict', type(obj).__name__, tuple((fp(k, ids, d, seen), fp(v, ids, d, seen)) for k, v in obj.items())) + tag
    if isinstance(obj, (list, tuple)):
        return (type(obj).__name__, tuple(fp(x, ids, d, seen) for x in obj)) + (tag if isinstance(obj, list) else ())
    if isinstance(obj, (set, frozenset)):
        return ('set', tuple(sorted(repr(fp(x, False, d, seen)) for x in obj))) + tag
    if isinstance(obj, R.Region):
        params = tuple((p, fp(getattr(obj, p), ids, d, seen)) for p in obj._params)
        extra = tuple(k for k in obj.__dict__ if k not in obj._params and k not in ('meta', 'visual'))
        return ('region', type(obj).__name__, params, ('meta', fp(obj.meta, ids, d, seen)),
                ('visual', fp(obj.visual, ids, d, seen)), ('attrs', tuple(obj.__dict__)),
                tuple((k, fp(obj.__dict__[k], ids, d, seen)) for k in extra if k != '_mpl_selector')) + tag
    if isinstance(obj, R.Regions):
        return ('regions', fp(obj.regions, ids, d, seen)) + tag
    if isinstance(obj, R.RegionMask):
        return ('mask', fp(obj.data, ids, d, seen), fp(obj.bbox, ids, d, seen)) + tag
    if isinstance(obj, R.RegionBoundingBox):
        return ('bbox', tuple(scalar_text(v) for v in (obj.ixmin, obj.ixmax, obj.iymin, obj.iymax))) + tag
    mod = type(obj).__module__ or ''
    if mod.startswith('astropy.wcs'):
        w = obj.wcs
        parts = [('naxis', int(obj.naxis)), ('pixel_shape', repr(obj.pixel_shape))]
        for a in ('crval', 'crpix', 'cdelt'):
            parts.append((a, _arr_text(getattr(w, a))))
        parts.append(('pc', _arr_text(w.get_pc())))
        parts.append(('ctype', tuple(w.ctype)))
        parts.append(('cunit', tuple(str(x) for x in w.cunit)))
        parts.append(('extra', (repr(w.lonpole), repr(w.latpole), repr(w.equinox), w.radesys, obj.sip is None)))
        return ('wcs', tuple(parts)) + tag
    if mod.startswith('astropy.table'):
        cols = []
        for name in obj.colnames:
            col = obj[name]
            unit = str(getattr(col, 'unit', None) or '')
            vals = np.asarray(getattr(col, 'value', col))
            if vals.dtype.kind == 'O':
                body = repr([fp(x, False, d, seen) for x in vals.tolist()])
            else:
                body = _arr_text(vals)
            cols.append((name, unit, body))
        return ('table', tuple(cols), tuple(sorted((str(k), repr(v)) for k, v in obj.meta.items()))) + tag
    if mod.startswith('matplotlib'):
        return ('mpl', artist_dump(obj)) + tag
    if isinstance(obj, slice):
        return ('slice', repr(obj))
    if is_immutable(obj):
        return ('const', getattr(obj, '__qualname__', None) or repr(obj))
    if hasattr(obj, '__dict__'):
        return ('obj', type(obj).__name__, tuple((k, fp(v, ids, d, seen)) for k, v in vars(obj).items())) + tag
    return ('other', type(obj).__name__, repr(obj)) + tag


def artist_dump(a):
    """canonical content of a matplotlib artist (no ids, no transforms to figure space)."""
    np = _np()
    out = [type(a).__name__]

    def col(c):
        try:
            import matplotlib.colors as mc
            return tuple(float(x).hex() for x in mc.to_rgba(c))
        except Exception:
            return repr(c)
    if hasattr(a, 'get_path') and hasattr(a, 'get_patch_transform'):
        p = a.get_path()
        out.append(('verts', _arr_text(p.vertices), None if p.codes is None else _arr_text(p.codes)))
        out.append(('ptrans', _arr_text(a.get_patch_transform().get_matrix())))
        for g in ('get_edgecolor', 'get_facecolor'):
            out.append((g, col(getattr(a, g)())))
        for g in ('get_linewidth', 'get_linestyle', 'get_fill', 'get_alpha', 'get_label', 'get_zorder', 'get_hatch'):
            out.append((g, repr(getattr(a, g)())))
    elif hasattr(a, 'get_xdata'):
        out.append(('x', _arr_text(np.asarray(a.get_xdata(), dtype=float)), 'y', _arr_text(np.asarray(a.get_ydata(), dtype=float))))
        for g in ('get_marker', 'get_markersize', 'get_markeredgewidth', 'get_linestyle', 'get_linewidth',
                  'get_fillstyle', 'get_alpha', 'get_label', 'get_zorder'):
            v = getattr(a, g)()
            out.append((g, type(v).__name__ if type(v).__module__.startswith('matplotlib') else repr(v)))
        for g in ('get_color', 'get_markeredgecolor', 'get_markerfacecolor'):
            out.append((g, col(getattr(a, g)())))
    elif hasattr(a, 'get_text'):
        out.append(('pos', tuple(float(x).hex() for x in a.get_position()), a.get_text()))
        for g in ('get_rotation', 'get_fontsize', 'get_fontweight', 'get_fontstyle', 'get_fontname', 'get_ha', 'get_va',
                  'get_alpha', 'get_label', 'get_zorder'):
            out.append((g, repr(getattr(a, g)())))
        out.append(('color', col(a.get_color())))
    else:
        out.append(repr(a))
    return tuple(out)


def canon(obj):
    """canonical dump of a RESULT: the fingerprint without identities."""
    return fp(obj, ids=False)


def all_diffs(a, b, path='$', out=None, limit=8):
    """every leaf-level difference between two fingerprints (bounded)."""
    if out is None:
        out = []
    if a == b or len(out) >= limit:
        return out
    if isinstance(a, tuple) and isinstance(b, tuple) and a and b and a[0] == b[0] == 'dict' and len(a) > 2:
        ka = [k for k, _ in a[2]]
        kb = [k for k, _ in b[2]]
        if ka != kb:
            removed = [k for k in ka if k not in kb]
            added = [k for k in kb if k not in ka]
            out.append((path, 'dict_keys' if (removed or added) else 'dict_order',
                        {'removed': removed, 'added': added}))
        db = dict(b[2])
        for k, va in a[2]:
            if k in db:
                all_diffs(va, db[k], f'{path}[{k}]', out, limit)
        if a[3:] != b[3:]:
            out.append((path, 'container_replaced', {}))
        return out
    if isinstance(a, tuple) and isinstance(b, tuple) and len(a) == len(b):
        for i, (x, y) in enumerate(zip(a, b)):
            if x == y:
                continue
            if isinstance(x, tuple) and isinstance(y, tuple):
                label = x[0] if (x and isinstance(x[0], str) and len(x[0]) < 24) else str(i)
                all_diffs(x, y, f'{path}/{label}', out, limit)
            elif isinstance(x, int) and isinstance(y, int) and not isinstance(x, bool) and i == len(a) - 1 and i > 0:
                out.append((path, 'container_replaced', {}))
            else:
                out.append((f'{path}/{i}', 'value', {'before': str(x)[:60], 'after': str(y)[:60]}))
        return out
    out.append((path, 'changed', {'before': str(a)[:60], 'after': str(b)[:60]}))
    return out


def reachable_ids(roots):
    """ids of every MUTABLE object reachable from the roots (containers, arrays, regions, coordinates)."""
    np = _np()
    import astropy.units as u
    from astropy.coordinates import SkyCoord
    out = {}
    stack = list(roots)
    n = 0
    while stack and n < 20000:
        o = stack.pop()
        n += 1
        if is_immutable(o) and not isinstance(o, tuple):
            continue
        if id(o) in out:
            continue
        if not isinstance(o, tuple):
            out[id(o)] = o
        if isinstance(o, dict):
            stack.extend(o.values())
        elif isinstance(o, (list, tuple, set)):
            stack.extend(o)
        elif isinstance(o, (np.ndarray, u.Quantity, SkyCoord)):
            base = getattr(o, 'base', None)
            if base is not None:
                stack.append(base)
        elif hasattr(o, '__dict__') and not (type(o).__module__ or '').startswith(('astropy.wcs', 'matplotlib')):
            out[id(o.__dict__)] = o.__dict__
            stack.extend(vars(o).values())
    return out


# =====================================================================================
# 2. the shared pool
# =====================================================================================

META_CHOICES = {
    'include': [True, False, 1, 0],
    'label': ['src A', 'b', ''],
    'text': ['hello', 'x y'],
    'tag': [['g1'], ['g1', 'g2']],
    'comment': ['made by c13'],
    'name': ['n1'],
    'source': [1, 0],
    'select': [1], 'highlite': [1], 'fixed': [0], 'edit': [1], 'move': [1], 'delete': [1], 'rotate': [1],
    'component': [1, 2, 7],
    'type': ['reg', 'ann'],
    'range': [[1, 2]],
    'corr': [['I', 'Q']],
    'frame': ['J2000'],
    'restfreq': ['1.42GHz'],
}
VISUAL_CHOICES = {
    'color': ['red', 'green', '#00ff00'],
    'facecolor': ['blue'], 'edgecolor': ['blue', 'white'],
    'linewidth': [1, 2.5],
    'fill': [True, False, 1, 0],
    'linestyle': ['dashed', (0, (3, 1))],
    'fontname': ['helvetica'], 'fontsize': [12], 'fontweight': ['bold'], 'fontstyle': ['normal'],
    'marker': ['o', '+', 'D'], 'markersize': [7], 'markeredgewidth': [2],
    'symbol': ['+'], 'symsize': [3], 'symthick': [2],
    'rotation': [30.0, 0.0],
    'default_style': ['ds9', 'mpl'],
    'dashes': [[4, 2]],
    'labelpos': ['top'], 'usetex': [False],
}
WCS_SPECS = [
    {'crval': [10.0, -20.0], 'crpix': [20.0, 25.0], 'cdelt': [-0.01, 0.01], 'ctype': ['RA---TAN', 'DEC--TAN'], 'rot': 0.0},
    {'crval': [150.0, 2.2], 'crpix': [10.5, 8.5], 'cdelt': [-0.002, 0.002], 'ctype': ['RA---TAN', 'DEC--TAN'], 'rot': 30.0},
    {'crval': [266.4, -28.9], 'crpix': [30.0, 30.0], 'cdelt': [-0.05, 0.05], 'ctype': ['GLON-CAR', 'GLAT-CAR'], 'rot': 0.0},
]
SKY_FRAMES = ['icrs', 'fk5', 'galactic', 'fk4']
DS9_TEXTS = [
    '# Region file format: DS9 astropy/regions\nglobal color=green width=2\nimage\ncircle(10.5,20.25,3) # text={a b} tag={g1} tag={g2}\n'
    'ellipse(5,6,2,1,3,2,30)\nbox(10,10,4,2,6,3,8,4,0)\n-polygon(1,1,5,1,3,4) # fill=1\nannulus(7,7,1,2,3)\n',
    '# Region file format: DS9\nfk5\ncircle(10.0,20.0,0.5") # color=red dash=1 dashlist=8 3\npolygon(1,1,2,1,2,2)\n'
    'ellipse(10,20,1\',2\',3\',4\',10)\npoint(1,2) # point=diamond 11\ntext(3,4) # text={hi} font="times 12 bold roman" textangle=30\n'
    'line(1,2,3,4)\ngalactic; circle(20,30,1)\n',
    'image; circle(1,2,3) # include=0\nimage; composite(1,2,0) || composite=1 color=red\nimage; circle(1,2,3) ||\nimage; box(1,2,3,4,5)\n',
]
CRTF_TEXTS = [
    '#CRTFv0\nglobal coord=J2000, color=blue\ncircle[[10deg, 20deg], 0.5deg], label=\'a\'\n'
    'poly[[1deg, 1deg], [2deg, 1deg], [2deg, 2deg]]\n-ellipse[[5deg, 5deg], [2deg, 1deg], 30deg], linewidth=2\n'
    'rotbox[[5deg, 5deg], [2deg, 1deg], 30deg]\nannulus[[5deg, 5deg], [1deg, 2deg]]\nsymbol[[1deg, 2deg], +]\n'
    'text[[1deg, 2deg], \'my text\']\nline[[1deg, 2deg], [3deg, 4deg]]\n',
    '#CRTFv0\ncircle[[10pix, 20pix], 5pix], coord=image\npoly[[1pix, 1pix], [5pix, 1pix], [3pix, 4pix]], coord=image\n'
    'ann circle[[10deg, 20deg], 0.5deg], coord=GALACTIC, range=[1GHz, 2GHz], corr=[I, Q]\n',
]


PATCH_SAFE = ('color', 'facecolor', 'edgecolor', 'linewidth', 'fill', 'linestyle', 'default_style', 'fontname', 'fontsize')


def gen_meta(rng, kind='meta'):
    import regions as R
    table = META_CHOICES if kind == 'meta' else VISUAL_CHOICES
    if kind == 'visual' and rng.random() < 0.6:
        table = {k: VISUAL_CHOICES[k] for k in PATCH_SAFE}
    n = rng.choice([0, 0, 1, 2, 3, 5])
    keys = rng.sample(sorted(table), min(n, len(table)))
    cls = R.RegionMeta if kind == 'meta' else R.RegionVisual
    m = cls()
    for k in keys:
        v = rng.choice(table[k])
        m[k] = list(v) if isinstance(v, list) else v
    return m


class Pool:
    """objects shared by the operations of one sequence (on purpose: results go back in)."""

    CAP = 14

    def __init__(self, rng):
        import astropy.units as u
        import numpy as np
        from astropy.coordinates import SkyCoord
        from astropy.wcs import WCS
        import regions as R
        from . import regiongen as G
        self.rng = rng
        self.pix = []
        self.sky = []
        self.wcs = []
        for spec in WCS_SPECS:
            w = WCS(naxis=2)
            w.wcs.crval = spec['crval']
            w.wcs.crpix = spec['crpix']
            w.wcs.cdelt = spec['cdelt']
            w.wcs.ctype = spec['ctype']
            if spec['rot']:
                a = np.deg2rad(spec['rot'])
                w.wcs.pc = [[np.cos(a), -np.sin(a)], [np.sin(a), np.cos(a)]]
            self.wcs.append(w)
        kinds = list(G.SIMPLE_KINDS) + list(G.EMPTY_KINDS)
        rng.shuffle(kinds)
        for k in kinds:
            d = G.gen_simple(rng, k, scale=rng.choice([1.0, 2.0, 4.0]), center_scale=rng.choice([0, 1, 10]))
            r = G.build(d)
            r.meta = self._merge(r.meta, gen_meta(rng, 'meta'))
            r.visual = gen_meta(rng, 'visual')
            if k == 'text' and rng.random() < 0.8:
                r.visual['rotation'] = rng.choice([0.0, 30.0, 45.5])
            self.pix.append(r)
        for _ in range(2):
            d = G.gen_compound(rng, rng.randint(1, 2), lambda: G.gen_simple(rng, rng.choice(G.SIMPLE_KINDS), scale=2.0, center_scale=5))
            self.pix.append(G.build(d))
        # numeric carrier types other than float64 / Python float (an operation that "normalises" them writes to its input)
        self.pix.append(R.PolygonPixelRegion(R.PixCoord(np.array([1, 7, 4], dtype=np.int64), np.array([1, 2, 8], dtype=np.int64))))
        self.pix.append(R.PolygonPixelRegion(R.PixCoord(np.array([2.5, 9.25, 5.0, 1.5], dtype=np.float32),
                                                        np.array([3.0, 4.5, 11.0, 7.25], dtype=np.float32))))
        self.pix.append(R.CirclePixelRegion(R.PixCoord(np.float32(6.5), np.float32(4.25)), np.float32(3.5)))
        self.pix.append(R.RectanglePixelRegion(R.PixCoord(7, 9), np.uint8(6), np.int16(4), angle=30 * u.deg))
        # sky regions of every class
        def sc(n=None):
            # positions near the reference point of one of the first two WCSs, in a random frame
            fr = rng.choice(SKY_FRAMES)
            c = rng.choice([WCS_SPECS[0], WCS_SPECS[0], WCS_SPECS[1]])['crval']
            lon = c[0] + rng.uniform(-0.2, 0.2) if n is None else [c[0] + rng.uniform(-0.2, 0.2) for _ in range(n)]
            lat = c[1] + rng.uniform(-0.2, 0.2) if n is None else [c[1] + rng.uniform(-0.2, 0.2) for _ in range(n)]
            return SkyCoord(lon, lat, unit='deg', frame='icrs').transform_to(fr)

        def q():
            v = rng.choice([0.5, 1.25, rng.uniform(0.01, 3.0)])
            return v * rng.choice([u.deg, u.arcmin, u.arcsec])

        def ang():
            return rng.choice([0.0, 30.0, rng.uniform(-180, 180)]) * u.deg
        mk = [
            lambda: R.CircleSkyRegion(sc(), q()),
            lambda: R.EllipseSkyRegion(sc(), q(), q(), angle=ang()),
            lambda: R.RectangleSkyRegion(sc(), q(), q(), angle=ang()),
            lambda: R.PolygonSkyRegion(sc(rng.randint(3, 6))),
            lambda: R.CircleAnnulusSkyRegion(sc(), 1 * u.arcmin, 3 * u.arcmin),
            lambda: R.EllipseAnnulusSkyRegion(sc(), 1 * u.arcmin, 3 * u.arcmin, 2 * u.arcmin, 4 * u.arcmin, angle=ang()),
            lambda: R.RectangleAnnulusSkyRegion(sc(), 1 * u.arcmin, 3 * u.arcmin, 2 * u.arcmin, 4 * u.arcmin, angle=ang()),
            lambda: R.PointSkyRegion(sc()),
            lambda: R.LineSkyRegion(sc(), sc()),
            lambda: R.TextSkyRegion(sc(), 'sky text'),
        ]
        rng.shuffle(mk)
        for f in mk:
            r = f()
            r.meta = gen_meta(rng, 'meta')
            r.visual = gen_meta(rng, 'visual')
            if isinstance(r, R.TextSkyRegion) and rng.random() < 0.8:
                r.visual['rotation'] = rng.choice([0.0, 30.0, 45.5])
            self.sky.append(r)
        self.sky.append(self.sky[0] | self.sky[1])
        self.pixcoords = [R.PixCoord(rng.uniform(-5, 30), rng.uniform(-5, 30)),
                          R.PixCoord(np.array([rng.uniform(-5, 30) for _ in range(5)]), np.array([rng.uniform(-5, 30) for _ in range(5)])),
                          R.PixCoord(np.arange(6.0).reshape(2, 3), np.arange(6.0).reshape(2, 3) * 2)]
        self.skycoords = [sc(), sc(4)]
        nprng = np.random.default_rng(rng.randrange(1 << 32))
        self.images = [nprng.normal(size=(40, 50)), nprng.integers(0, 9, size=(30, 30)), nprng.normal(size=(12, 9)) * u.Jy]
        self.masks = []
        self.bboxes = [R.RegionBoundingBox(1, 10, 2, 7), R.RegionBoundingBox(-3, 4, 0, 5)]
        self.texts = {'ds9': list(DS9_TEXTS), 'crtf': list(CRTF_TEXTS)}
        self.tables = []
        self.lists = []
        self.tmp = None

    @staticmethod
    def _merge(a, b):
        for k, v in b.items():
            if k not in a:
                a[k] = v
        return a

    def add(self, lst, x):
        if len(lst) >= self.CAP:
            lst[self.rng.randrange(len(lst))] = x
        else:
            lst.append(x)

    def simple_pix(self):
        import regions as R
        c = [r for r in self.pix if not isinstance(r, R.CompoundPixelRegion)]
        return self.rng.choice(c)


# =====================================================================================
# 3. operations: name -> (choose arguments, call)
# =====================================================================================

def build_ops():
    """each entry: name -> function(pool, rng) -> (args list [inputs to fingerprint], thunk(args) -> result,
    after(pool, result) or None)"""
    import operator

    import astropy.units as u
    import numpy as np
    import regions as R
    ops = {}

    def op(name):
        def deco(f):
            ops[name] = f
            return f
        return deco

    def small_pix(r):
        # conversions between WCSs of different pixel scales make regions grow: keep masks affordable
        try:
            b = r.bounding_box
            return (b.ixmax - b.ixmin) * (b.iymax - b.iymin) < 60000 and abs(b.ixmin) < 10000 and abs(b.iymin) < 10000
        except Exception:
            return False

    def small_sky(r):
        for name in ('radius', 'width', 'height', 'outer_radius', 'outer_width', 'outer_height'):
            v = getattr(r, name, None)
            if v is not None and not (v.to_value(u.deg) < 5):
                return False
        if isinstance(r, R.CompoundSkyRegion):
            return small_sky(r.region1) and small_sky(r.region2)
        return True

    def keep_pix(pool, r):
        if isinstance(r, R.PixelRegion) and small_pix(r):
            pool.add(pool.pix, r)

    def keep_sky(pool, r):
        if isinstance(r, R.SkyRegion) and small_sky(r):
            pool.add(pool.sky, r)

    @op('contains')
    def _(pool, rng):
        return [rng.choice(pool.pix), rng.choice(pool.pixcoords)], lambda a: a[0].contains(a[1]), None

    @op('in')
    def _(pool, rng):
        return [rng.choice(pool.pix), pool.pixcoords[0]], lambda a: a[1] in a[0], None

    @op('sky_contains')
    def _(pool, rng):
        return [rng.choice(pool.sky), rng.choice(pool.skycoords), rng.choice(pool.wcs)], lambda a: a[0].contains(a[1], a[2]), None

    @op('to_mask')
    def _(pool, rng):
        mode = rng.choice(['center', 'center', 'exact', 'subpixels'])
        sub = rng.choice([1, 2, 3])
        return [rng.choice(pool.pix)], lambda a: a[0].to_mask(mode=mode, subpixels=sub), \
            lambda pool, r: pool.add(pool.masks, r) if isinstance(r, R.RegionMask) and r.data.size < 40000 else None

    @op('area')
    def _(pool, rng):
        return [rng.choice(pool.pix)], lambda a: a[0].area, None

    @op('bounding_box')
    def _(pool, rng):
        return [rng.choice(pool.pix)], lambda a: a[0].bounding_box, \
            lambda pool, r: pool.add(pool.bboxes, r) if isinstance(r, R.RegionBoundingBox) else None

    @op('to_sky')
    def _(pool, rng):
        return [rng.choice(pool.pix), rng.choice(pool.wcs)], lambda a: a[0].to_sky(a[1]), keep_sky

    @op('to_pixel')
    def _(pool, rng):
        return [rng.choice(pool.sky), rng.choice(pool.wcs)], lambda a: a[0].to_pixel(a[1]), keep_pix

    @op('text_convert')
    def _(pool, rng):
        texts = [r for r in pool.pix + pool.sky if isinstance(r, (R.TextPixelRegion, R.TextSkyRegion))]
        if not texts:
            texts = [pool.pix[0]]
        r = rng.choice(texts)
        w = rng.choice(pool.wcs[:2])
        if isinstance(r, R.SkyRegion):
            return [r, w], lambda a: a[0].to_pixel(a[1]), keep_pix
        return [r, w], lambda a: a[0].to_sky(a[1]), keep_sky

    @op('rotate')
    def _(pool, rng):
        ang = rng.choice([30 * u.deg, 1.0 * u.rad, -45 * u.deg])
        return [rng.choice(pool.pix), pool.pixcoords[0], ang], lambda a: a[0].rotate(a[1], a[2]), keep_pix

    @op('copy')
    def _(pool, rng):
        lst = rng.choice([pool.pix, pool.sky])
        return [rng.choice(lst)], lambda a: a[0].copy(), lambda pool, r: (keep_pix(pool, r), keep_sky(pool, r))

    @op('copy_changes')
    def _(pool, rng):
        m = gen_meta(rng, 'meta')
        return [rng.choice(pool.pix), m], lambda a: a[0].copy(meta=a[1]), keep_pix

    @op('combine')
    def _(pool, rng):
        lst = rng.choice([pool.pix, pool.pix, pool.sky])
        f = rng.choice([operator.and_, operator.or_, operator.xor])
        return [rng.choice(lst), rng.choice(lst)], lambda a: f(a[0], a[1]), \
            lambda pool, r: (keep_pix(pool, r), keep_sky(pool, r))

    @op('eq')
    def _(pool, rng):
        lst = rng.choice([pool.pix, pool.sky])
        return [rng.choice(lst), rng.choice(lst)], lambda a: (a[0] == a[1], a[0] != a[1]), None

    @op('repr')
    def _(pool, rng):
        lst = rng.choice([pool.pix, pool.sky])
        return [rng.choice(lst)], lambda a: (repr(a[0]), str(a[0])), None

    @op('as_artist')
    def _(pool, rng):
        kw = rng.choice([{}, {}, {'color': 'red'}, {'lw': 2}])
        origin = rng.choice([(0, 0), (1, 1), (2.5, -1)])
        return [rng.choice(pool.pix), kw], lambda a: a[0].as_artist(origin=origin, **a[1]), None

    @op('bbox_artist')
    def _(pool, rng):
        return [rng.choice(pool.bboxes)], lambda a: a[0].as_artist(), None

    @op('bbox_ops')
    def _(pool, rng):
        shape = rng.choice([(10, 12), (40, 50), (3, 3)])
        return [rng.choice(pool.bboxes), rng.choice(pool.bboxes)], \
            lambda a: (a[0] | a[1], a[0] & a[1], a[0].get_overlap_slices(shape), a[0].to_region(), a[0].extent,
                       a[0].center, a[0].shape, a[0] == a[1]), None

    @op('pixcoord_ops')
    def _(pool, rng):
        w = rng.choice(pool.wcs)
        return [pool.pixcoords[1], pool.pixcoords[0], w], \
            lambda a: (a[0] + a[1], a[0] - a[1], a[0].separation(a[1]), a[0].rotate(a[1], 30 * u.deg), a[0].to_sky(a[2]),
                       a[0] == a[1], a[0].xy, a[0][1], len(a[0])), None

    @op('pixcoord_from_sky')
    def _(pool, rng):
        return [rng.choice(pool.skycoords), rng.choice(pool.wcs)], lambda a: R.PixCoord.from_sky(a[0], a[1]), None

    def some_list(pool, rng, fmt):
        if fmt == 'fits':
            src = pool.pix
        elif fmt == 'crtf':
            src = pool.sky if rng.random() < 0.8 else pool.pix
        else:
            src = rng.choice([pool.pix, pool.sky])
        n = rng.choice([1, 1, 2, 3, 5])
        return [rng.choice(src) for _ in range(n)]

    def ser_opts(rng, fmt):
        if fmt == 'ds9':
            return rng.choice([{}, {}, {'precision': 3}, {'precision': 12}])
        if fmt == 'crtf':
            return rng.choice([{}, {}, {'coordsys': 'galactic'}, {'fmt': '.3f'}, {'radunit': 'arcsec'}, {'coordsys': 'image'}])
        return {}

    @op('serialize_region')
    def _(pool, rng):
        fmt = rng.choice(['ds9', 'crtf', 'fits'])
        opts = ser_opts(rng, fmt)
        r = some_list(pool, rng, fmt)[0]

        def after(pool, res):
            if isinstance(res, str):
                pool.add(pool.texts[fmt], res)
            elif res is not None and not isinstance(res, Exception) and hasattr(res, 'colnames') and len(res.colnames):
                pool.add(pool.tables, res)
        return [r], lambda a: a[0].serialize(format=fmt, **opts), after, {'fmt': fmt}

    @op('serialize_regions')
    def _(pool, rng):
        fmt = rng.choice(['ds9', 'crtf', 'fits'])
        opts = ser_opts(rng, fmt)
        regs = R.Regions(some_list(pool, rng, fmt))
        pool.add(pool.lists, regs)

        def after(pool, res):
            if isinstance(res, str):
                pool.add(pool.texts[fmt], res)
            elif hasattr(res, 'colnames') and len(res.colnames):
                pool.add(pool.tables, res)
        return [regs], lambda a: a[0].serialize(format=fmt, **opts), after, {'fmt': fmt}

    @op('parse')
    def _(pool, rng):
        fmt = rng.choice(['ds9', 'crtf', 'fits'])
        if fmt == 'fits':
            if not pool.tables:
                fmt = 'ds9'
            else:
                return [rng.choice(pool.tables)], lambda a: R.Regions.parse(a[0], format='fits'), \
                    lambda pool, res: [keep_pix(pool, x) for x in list(res)[:2]] if isinstance(res, R.Regions) else None
        t = rng.choice(pool.texts[fmt])

        def after(pool, res):
            if isinstance(res, R.Regions):
                for x in list(res)[:2]:
                    keep_pix(pool, x)
                    keep_sky(pool, x)
                if len(res):
                    pool.add(pool.lists, res)
        return [t], lambda a: R.Regions.parse(a[0], format=fmt), after

    @op('write_read')
    def _(pool, rng):
        fmt = rng.choice(['ds9', 'crtf', 'fits'])
        ext = {'ds9': rng.choice(['.reg', '.ds9']), 'crtf': '.crtf', 'fits': rng.choice(['.fits', '.fit'])}[fmt]
        regs = R.Regions(some_list(pool, rng, fmt))
        given = rng.random() < 0.5
        single = len(regs) == 1 and rng.random() < 0.5
        target = regs[0] if single else regs
        ow = rng.random() < 0.5
        rfmt = fmt if rng.random() < 0.5 else None
        stem = f'w{rng.randrange(1 << 30)}'
        counter = [0]

        def call(a):
            counter[0] += 1
            path = os.path.join(pool.tmp, f'{stem}_{counter[0]}{ext}')
            a[0].write(path, format=fmt if given else None, overwrite=ow)
            with open(path, 'rb') as fh:
                data = fh.read()
            back = R.Regions.read(path, format=rfmt)
            if fmt == 'fits':
                # FITS bytes are astropy's business: compare the table that reads back
                from astropy.table import QTable
                data = QTable.read(path) if len(back) else 'empty'
            return (data, back)

        def after(pool, res):
            # a table as astropy READS it from a FITS file (bytes-valued SHAPE column) is an input class of its own for
            # Regions.parse(table, format='fits')
            if fmt == 'fits' and isinstance(res, tuple) and hasattr(res[0], 'colnames') and len(res[0].colnames):
                pool.add(pool.tables, res[0])
        return [target], call, after, {'fmt': fmt}

    @op('mask_ops')
    def _(pool, rng):
        if not pool.masks:
            r = pool.simple_pix()
            return [r], lambda a: a[0].to_mask(), lambda pool, m: pool.add(pool.masks, m) if isinstance(m, R.RegionMask) else None
        m = rng.choice(pool.masks)
        img = rng.choice(pool.images)
        fill = rng.choice([0.0, 0.0, -1.0, np.nan])
        cp = rng.random() < 0.5
        # a caller-owned bad-pixel mask (an input like the image: fingerprinted before and after)
        badmask = np.array([rng.random() < 0.4 for _ in range(int(np.asarray(img).size))], dtype=bool).reshape(np.shape(img))
        return [m, img, badmask], lambda a: (a[0].to_image(a[1].shape), a[0].cutout(a[1], fill_value=fill, copy=cp),
                                             a[0].multiply(a[1], fill_value=fill), a[0].get_values(a[1]),
                                             a[0].get_values(a[1], mask=a[2]), a[0].get_values(a[1]),
                                             a[0].get_overlap_slices(a[1].shape), a[0].shape, np.asarray(a[0])), None

    @op('regions_list_ops')
    def _(pool, rng):
        if not pool.lists:
            regs = R.Regions([rng.choice(pool.pix) for _ in range(3)])
            pool.add(pool.lists, regs)
        regs = rng.choice(pool.lists)
        return [regs], lambda a: (len(a[0]), a[0][0:2], a[0][0] if len(a[0]) else None, a[0].copy(), repr(a[0])[:50],
                                   R.Regions(list(a[0]))), None

    @op('get_formats')
    def _(pool, rng):
        return [], lambda a: (str(R.Regions.get_formats()), str(R.Region.get_formats())), None

    @op('visual_kwargs')
    def _(pool, rng):
        r = rng.choice(pool.pix)
        art = rng.choice(['Patch', 'Line2D', 'Text'])
        return [r.visual], lambda a: a[0].define_mpl_kwargs(art), None

    @op('meta_copy')
    def _(pool, rng):
        r = rng.choice(rng.choice([pool.pix, pool.sky]))
        return [r.meta, r.visual], lambda a: (a[0].copy(), a[1].copy(), dict(a[0]), a[0].get('include', True),
                                               a[1].get('width')), None
    return ops


OP_WEIGHTS = {
    'contains': 5, 'in': 1, 'sky_contains': 3, 'to_mask': 4, 'area': 2, 'bounding_box': 2, 'to_sky': 5, 'to_pixel': 5,
    'rotate': 3, 'text_convert': 3, 'copy': 4, 'copy_changes': 1, 'combine': 4, 'eq': 2, 'repr': 1, 'as_artist': 4, 'bbox_artist': 1,
    'bbox_ops': 1, 'pixcoord_ops': 2, 'pixcoord_from_sky': 1, 'serialize_region': 8, 'serialize_regions': 10,
    'parse': 10, 'write_read': 5, 'mask_ops': 4, 'regions_list_ops': 2, 'get_formats': 1, 'visual_kwargs': 2, 'meta_copy': 1,
}


# =====================================================================================
# 4. the `unknown` sites, watched with sys.monitoring (no change to /repo)
# =====================================================================================

class SiteWatch:
    """LINE events on exactly the (file, line) pairs of the `unknown` sites: the receiver expression is
    evaluated in the live frame; a hit ALIASES an input when the receiver is a mutable object whose id
    is reachable from the inputs of the operation that is running."""

    TOOL = 4

    def __init__(self, sites, root=REPO):
        self.sites = sites
        self.root = root
        self.stats = {}
        self.by_code = {}
        self.inputs = {}
        self.current_op = None
        self.unwatchable = []
        self.active = False
        for s in sites:
            self.stats[self.key(s)] = {'hits': 0, 'mutable': 0, 'aliased': 0, 'types': {}, 'ops': {}, 'note': s.get('note', '')}

    @staticmethod
    def key(s):
        return f"{s['file']}:{s['line']}:{s['recv']}"

    def _code_of(self, s):
        import importlib
        modname = s['file'][:-3].replace('/', '.')
        try:
            mod = importlib.import_module(modname)
        except Exception:
            return None
        obj = mod
        parts = s['func'].split('.')
        for i, part in enumerate(parts):
            if part == '<locals>':
                return None
            d = obj.__dict__ if hasattr(obj, '__dict__') else {}
            nxt = d.get(part) if part in d else getattr(obj, part, None)
            if nxt is None:
                return None
            obj = nxt
        for attr in ('__func__', 'fget', 'func'):
            if hasattr(obj, attr) and not hasattr(obj, '__code__'):
                obj = getattr(obj, attr)
        return getattr(obj, '__code__', None)

    def start(self):
        mon = sys.monitoring
        try:
            mon.use_tool_id(self.TOOL, 'c13')
        except ValueError:
            mon.free_tool_id(self.TOOL)
            mon.use_tool_id(self.TOOL, 'c13')
        for s in self.sites:
            code = self._code_of(s)
            if code is None:
                self.unwatchable.append(self.key(s))
                continue
            lines = self.by_code.setdefault(code, {})
            lines.setdefault(s['line'], []).append((s, compile(s['recv'], '<recv>', 'eval')))
        mon.register_callback(self.TOOL, mon.events.LINE, self._on_line)
        for code in self.by_code:
            mon.set_local_events(self.TOOL, code, mon.events.LINE)
        self.active = True

    def stop(self):
        if not self.active:
            return
        mon = sys.monitoring
        for code in self.by_code:
            mon.set_local_events(self.TOOL, code, 0)
        mon.register_callback(self.TOOL, mon.events.LINE, None)
        mon.free_tool_id(self.TOOL)
        self.active = False

    def _on_line(self, code, line):
        entries = self.by_code.get(code, {}).get(line)
        if not entries:
            return None
        frame = sys._getframe(1)
        for s, expr in entries:
            st = self.stats[self.key(s)]
            try:
                obj = eval(expr, frame.f_globals, frame.f_locals)
            except Exception as e:
                st['types'][f'!{type(e).__name__}'] = st['types'].get(f'!{type(e).__name__}', 0) + 1
                continue
            st['hits'] += 1
            tn = type(obj).__name__
            st['types'][tn] = st['types'].get(tn, 0) + 1
            st['ops'][self.current_op] = st['ops'].get(self.current_op, 0) + 1
            if not is_immutable(obj):
                st['mutable'] += 1
                if id(obj) in self.inputs:
                    st['aliased'] += 1
        return None


# =====================================================================================
# 5. one sequence of operations
# =====================================================================================

def attempt(call, args):
    try:
        return ('ok', call(args))
    except Exception as e:     # the exception class is a result like any other
        return ('exc', type(e).__name__, str(e)[:80])


def canon_result(r):
    if r[0] == 'exc':
        return ('exc', r[1])
    return ('ok', canon(r[1]))


def probes(pool):
    """operations on FIXED inputs, run at the start and at the end of a sequence."""
    import regions as R
    out = []
    for fmt, texts in (('ds9', DS9_TEXTS), ('crtf', CRTF_TEXTS)):
        for t in texts:
            out.append((f'parse {fmt}', canon_result(attempt(lambda a: R.Regions.parse(t, format=fmt), None))))
    return out


def pick_ops(rng, n):
    names = sorted(OP_WEIGHTS)
    return rng.choices(names, weights=[OP_WEIGHTS[k] for k in names], k=n)


def run_sequence(seed, n_ops, watch=None):
    rng = random.Random(seed)
    ops = build_ops()
    V = []
    counts = {}
    excs = {}
    n_calls = 0
    with warnings.catch_warnings():
        warnings.simplefilter('ignore')
        pool = Pool(rng)
        pool.tmp = tempfile.mkdtemp(prefix='c13_')
        try:
            start_probes = probes(pool)
            # serialisations of fresh copies of three pool regions: compared at the end if the regions are unchanged
            held = [(r, fp(r, ids=False)) for r in (pool.pix[0], pool.pix[1], pool.sky[0])]
            held_ser = [[canon_result(attempt(lambda a: r.copy().serialize(format=f), None)) for f in ('ds9', 'crtf', 'fits')]
                        for r, _ in held]
            for step, name in enumerate(pick_ops(rng, n_ops)):
                spec = ops[name](pool, rng)
                args, call, after = spec[0], spec[1], spec[2]
                tag = spec[3] if len(spec) > 3 else {}
                counts[name] = counts.get(name, 0) + 1
                before = [fp(a) for a in args]
                if watch is not None:
                    watch.inputs = reachable_ids(args)
                    watch.current_op = name
                r1 = attempt(call, args)
                n_calls += 1
                if r1[0] == 'exc':
                    k = f'{name}:{r1[1]}'
                    excs[k] = excs.get(k, 0) + 1
                mid = [fp(a) for a in args]
                where = {'op': name, 'fmt': tag.get('fmt'), 'seed': seed, 'step': step,
                         'arg_types': [type(a).__name__ for a in args], 'result': r1[0] if r1[0] == 'ok' else r1[1]}
                if mid != before:
                    diffs = []
                    for i, (b, m) in enumerate(zip(before, mid)):
                        diffs += [(f'arg{i}{p[1:]}', k, d) for (p, k, d) in all_diffs(b, m)]
                    V.append(dict(where, kind='input_mutated', diffs=diffs,
                                  detail=f'{name}({tag.get("fmt") or ""}) changed its input: {diffs[:3]}'))
                else:
                    r2 = attempt(call, args)
                    n_calls += 1
                    c1, c2 = canon_result(r1), canon_result(r2)
                    after_fp = [fp(a) for a in args]
                    if after_fp != before:
                        diffs = []
                        for i, (b, m) in enumerate(zip(before, after_fp)):
                            diffs += [(f'arg{i}{p[1:]}', k, d) for (p, k, d) in all_diffs(b, m)]
                        V.append(dict(where, kind='input_mutated', diffs=diffs,
                                      detail=f'{name}({tag.get("fmt") or ""}) changed its input on the second call: {diffs[:3]}'))
                    elif c1 != c2:
                        d = all_diffs(c1, c2)
                        V.append(dict(where, kind='repeat_differs',
                                      detail=f'{name}({tag.get("fmt") or ""}) called twice on unchanged inputs gives different results: {d[:2]}'))
                if after is not None and r1[0] == 'ok':
                    after(pool, r1[1])
            if watch is not None:
                watch.inputs = {}
                watch.current_op = 'probe'
            end_probes = probes(pool)
            for (n1, a), (n2, b) in zip(start_probes, end_probes):
                n_calls += 1
                if a != b:
                    V.append({'kind': 'history_differs', 'op': n1, 'fmt': n1.split()[-1], 'seed': seed, 'step': n_ops,
                              'detail': f'{n1} of a fixed text differs after {n_ops} operations: {all_diffs(a, b)[:2]}'})
            for (r, f0), ser0 in zip(held, held_ser):
                if fp(r, ids=False) == f0:
                    ser1 = [canon_result(attempt(lambda a: r.copy().serialize(format=f), None)) for f in ('ds9', 'crtf', 'fits')]
                    n_calls += 3
                    for f, a, b in zip(('ds9', 'crtf', 'fits'), ser0, ser1):
                        if a != b:
                            V.append({'kind': 'history_differs', 'op': f'serialize {f}', 'fmt': f, 'seed': seed, 'step': n_ops,
                                      'detail': f'serialising an unchanged region ({type(r).__name__}) to {f} differs after '
                                                f'{n_ops} operations: {all_diffs(a, b)[:2]}'})
        finally:
            shutil.rmtree(pool.tmp, ignore_errors=True)
    return {'n_ops': n_ops, 'calls': n_calls, 'op_counts': counts, 'exceptions': excs, 'violations': V}


# =====================================================================================
# 6. heap snapshots and the trace -> effect-program translation (correspondence of Impl/Effects)
# =====================================================================================

import hashlib


def _opaque_text(o):
    return type(o).__name__ + ':' + hashlib.sha1(repr(fp(o, ids=False)).encode()).hexdigest()[:16]


def _kind(o):
    """how an object is modelled: 'imm' | 'dict' | 'list' | 'attrs' | 'cell'"""
    np = _np()
    import astropy.units as u
    from astropy.coordinates import SkyCoord
    if is_immutable(o):
        return 'imm'
    if isinstance(o, (np.ndarray, u.Quantity, SkyCoord)):
        return 'cell'
    if isinstance(o, dict):
        return 'dict'
    if isinstance(o, (list, tuple)):
        return 'list'
    mod = type(o).__module__ or ''
    if mod.startswith('regions') and hasattr(o, '__dict__'):
        return 'attrs'
    return 'cell'


def imm_text(o):
    return scalar_text(o) or ('const:' + repr(fp(o, ids=False))[:120])


class HeapSnap:
    """the objects reachable from the roots, numbered 0..n-1 in discovery order (roots first)."""

    def __init__(self, roots):
        self.objs = []
        self.idx = {}
        self.alias = {}
        self.roots = []
        for r in roots:
            if _kind(r) != 'imm':
                self.roots.append(self._walk(r))
        self.n = len(self.objs)
        self.new = {}           # id -> k
        self.new_objs = []
        self.alias_new = {}
        self.heap0 = [self.content(o) for o in self.objs]

    def _children(self, o):
        k = _kind(o)
        if k == 'dict':
            return list(o.values())
        if k == 'list':
            return list(o)
        if k == 'attrs':
            return list(vars(o).values())
        return []

    def _walk(self, root):
        stack = [root]
        first = None
        while stack:
            o = stack.pop()
            if _kind(o) == 'imm' or id(o) in self.idx:
                continue
            self.idx[id(o)] = len(self.objs)
            if first is None:
                first = self.idx[id(o)]
            self.objs.append(o)
            if _kind(o) == 'attrs':
                self.alias[id(o.__dict__)] = self.idx[id(o)]
            stack.extend(reversed(self._children(o)))
        return self.idx[id(root)]

    # -- references
    def lookup(self, o):
        i = self.idx.get(id(o))
        if i is None:
            i = self.alias.get(id(o))
        if i is not None:
            return {'old': i}
        k = self.new.get(id(o))
        if k is None:
            k = self.alias_new.get(id(o))
        if k is not None:
            return {'new': k}
        return None

    def ensure(self, o, out):
        """reference to o; objects not seen before are allocated (alloc effects appended to out)."""
        r = self.lookup(o)
        if r is not None:
            return r
        order = []
        stack = [(o, 0)]
        while stack:
            x, d = stack.pop()
            if _kind(x) == 'imm' or self.lookup(x) is not None:
                continue
            self.new[id(x)] = len(self.new_objs)
            if _kind(x) == 'attrs':
                self.alias_new[id(x.__dict__)] = len(self.new_objs)
            self.new_objs.append(x)
            order.append(x)
            if d < 6:
                stack.extend((c, d + 1) for c in reversed(self._children(x)))
        for x in order:
            out.append({'e': 'alloc', 'o': self.content(x, prog=True)})
        return self.lookup(o)

    def lookup_any(self, o):
        return self.lookup(o)

    # -- contents
    def val(self, v, prog=False):
        if _kind(v) == 'imm':
            return {'i': imm_text(v)}
        r = self.lookup(v)
        if r is None:
            return {'i': '<untracked ' + type(v).__name__ + '>'}
        if prog:
            return r
        return {'r': r['old'] if 'old' in r else self.n + r['new']}

    def content(self, o, prog=False):
        k = _kind(o)
        if k == 'dict':
            return {'d': [[key if isinstance(key, str) else repr(key), self.val(v, prog)] for key, v in o.items()]}
        if k == 'list':
            return {'l': [self.val(v, prog) for v in o]}
        if k == 'attrs':
            return {'d': [[key, self.val(v, prog)] for key, v in vars(o).items()]}
        return {'c': _opaque_text(o)}

    def tree(self, o, depth):
        """the unfolding the model computes (`Impl.Effects.unfold`), from the real objects."""
        if depth == 0:
            return ['cut']
        k = _kind(o)
        if k == 'imm':
            return ['leaf', imm_text(o)]
        if k == 'cell':
            return ['leaf', _opaque_text(o)]
        if k == 'dict':
            items = [(key if isinstance(key, str) else repr(key), v) for key, v in o.items()]
            return ['node', 'dict', [[key, self._tv(v, depth)] for key, v in items]]
        if k == 'list':
            return ['node', 'list', [['', self._tv(v, depth)] for v in o]]
        return ['node', 'dict', [[key, self._tv(v, depth)] for key, v in vars(o).items()]]

    def _tv(self, v, depth):
        if _kind(v) == 'imm':
            return ['leaf', imm_text(v)]
        return self.tree(v, depth - 1)


class EffectTracer:
    """sys.settrace on the package's files: at every line that carries a site of the generated table the
    receiver is evaluated and snapshotted; when the line has run, the difference is emitted as effects
    (`pop` / `setItem` / `update` / `append` / `write`) with the class the table gives the site."""

    def __init__(self, site_table, snap, root=REPO):
        self.snap = snap
        self.prog = []
        self.by_line = {}
        self.files = set()
        for s in site_table:
            f = os.path.join(root, s['file'])
            self.files.add(f)
            self.by_line.setdefault((f, s['line']), []).append(s)
        self.pending = {}       # id(frame) -> list of (site, obj, pre)
        self.hits = 0
        self.eval_failures = 0

    def __enter__(self):
        self._old = sys.gettrace()
        sys.settrace(self._global)
        return self

    def __exit__(self, *a):
        sys.settrace(self._old)
        for fid in list(self.pending):
            self._flush(fid)

    def _global(self, frame, event, arg):
        if frame.f_code.co_filename in self.files:
            return self._local
        return None

    def _local(self, frame, event, arg):
        fid = id(frame)
        if fid in self.pending:
            self._flush(fid)
        if event == 'line':
            sites = self.by_line.get((frame.f_code.co_filename, frame.f_lineno))
            if sites:
                pend = []
                for s in sites:
                    recv = s['recv']
                    try:
                        if recv.startswith('super()'):
                            obj = frame.f_locals[frame.f_code.co_varnames[0]]
                        else:
                            obj = eval(recv, frame.f_globals, frame.f_locals)
                    except Exception:
                        self.eval_failures += 1
                        continue
                    if _kind(obj) == 'imm':
                        continue        # rebinding of a number / str: not a heap write
                    self.hits += 1
                    self.snap.ensure(obj, self.prog)
                    pend.append((s, obj, self.snap.content(obj, prog=True)))
                if pend:
                    self.pending[fid] = pend
        return self._local

    def _flush(self, fid):
        for s, obj, pre in self.pending.pop(fid, []):
            snap = self.snap
            # values stored by the line may be objects never seen before
            for c in snap._children(obj):
                if _kind(c) != 'imm':
                    snap.ensure(c, self.prog)
            post = snap.content(obj, prog=True)
            tgt = snap.lookup_any(obj)
            cls = s['cls']
            if post == pre:
                self.prog.append({'e': 'read', 'src': tgt})
                continue
            if 'd' in post and 'd' in pre:
                pre_d = dict((k, json.dumps(v, sort_keys=True)) for k, v in pre['d'])
                post_keys = [k for k, _ in post['d']]
                removed = [k for k, _ in pre['d'] if k not in set(post_keys)]
                changed = [[k, v] for k, v in post['d'] if pre_d.get(k) != json.dumps(v, sort_keys=True)]
                predicted = [k for k, _ in pre['d'] if k not in set(removed)] + [k for k, _ in changed if k not in pre_d]
                if predicted != post_keys:
                    self.prog.append({'e': 'write', 'cls': cls, 'tgt': tgt, 'o': post})
                    continue
                for k in removed:
                    self.prog.append({'e': 'pop', 'cls': cls, 'tgt': tgt, 'key': k})
                if changed and s['op'] == 'update':
                    self.prog.append({'e': 'update', 'cls': cls, 'tgt': tgt, 'items': changed})
                else:
                    for k, v in changed:
                        self.prog.append({'e': 'setItem', 'cls': cls, 'tgt': tgt, 'key': k, 'v': v})
            elif 'l' in post and 'l' in pre and len(post['l']) == len(pre['l']) + 1 and post['l'][:-1] == pre['l']:
                self.prog.append({'e': 'append', 'cls': cls, 'tgt': tgt, 'v': post['l'][-1]})
            else:
                self.prog.append({'e': 'write', 'cls': cls, 'tgt': tgt, 'o': post})


TRACE_OPS = ['crtf_serialize', 'ds9_serialize', 'fits_serialize', 'meta_update', 'visual_setitem', 'meta_setdefault',
             'regions_append', 'regions_pop', 'regions_reverse', 'regions_extend', 'compound_meta_write',
             'attr_assign', 'to_sky', 'to_pixel', 'rotate', 'copy_traced', 'union', 'parse_ds9', 'contains']


def trace_case_objects(case):
    """(roots, thunk) of a trace / copy case - rebuilt deterministically from its seed."""
    import astropy.units as u
    import regions as R
    rng = random.Random(case['seed'])
    pool = Pool(rng)
    op = case['op']
    pick_p = pool.simple_pix
    if op == 'crtf_serialize':
        r = rng.choice(pool.sky[:-1])
        if rng.random() < 0.7:
            r.meta['include'] = rng.choice([True, False])
        regs = R.Regions([r, rng.choice(pool.sky[:-1])])
        return [regs], lambda: regs.serialize(format='crtf')
    if op == 'ds9_serialize':
        regs = R.Regions([pick_p(), rng.choice(pool.pix[:-2])])
        return [regs], lambda: regs.serialize(format='ds9')
    if op == 'fits_serialize':
        regs = R.Regions([pick_p(), pick_p()])
        return [regs], lambda: regs.serialize(format='fits')
    if op == 'meta_update':
        r = rng.choice(pool.pix)
        upd = {'label': 'z', 'include': rng.choice([True, False]), 'tag': ['t']}
        return [r], lambda: r.meta.update(upd)
    if op == 'visual_setitem':
        r = rng.choice(pool.sky)
        k, v = rng.choice([('color', 'red'), ('width', 3), ('point', 'x'), ('fill', True)])
        return [r], lambda: r.visual.__setitem__(k, v)
    if op == 'meta_setdefault':
        r = rng.choice(pool.pix)
        k = rng.choice(['include', 'label', 'comment'])
        return [r], lambda: r.meta.setdefault(k, 'dflt')
    if op.startswith('regions_'):
        regs = R.Regions([pick_p(), pick_p(), pick_p()])
        x = pick_p()
        f = {'regions_append': lambda: regs.append(x), 'regions_pop': lambda: regs.pop(rng.choice([0, -1])),
             'regions_reverse': lambda: regs.reverse(), 'regions_extend': lambda: regs.extend([x, pick_p()])}[op]
        return [regs, x], f
    if op == 'compound_meta_write':
        a, b = pick_p(), pick_p()

        def f():
            c = a | b
            c.meta['label'] = 'shared'
            c.visual['color'] = 'blue'
        return [a, b], f
    if op == 'attr_assign':
        r = rng.choice([x for x in pool.pix if hasattr(x, 'center') and not isinstance(x, R.CompoundPixelRegion)])

        def f():
            r.center = R.PixCoord(3.0, 4.0)
            r.meta = {'label': 'new'}
        return [r], f
    if op == 'to_sky':
        r, w = rng.choice(pool.pix), rng.choice(pool.wcs)
        return [r], lambda: r.to_sky(w)
    if op == 'to_pixel':
        r, w = rng.choice(pool.sky), pool.wcs[0]
        return [r], lambda: r.to_pixel(w)
    if op == 'rotate':
        r = rng.choice(pool.pix)
        return [r, pool.pixcoords[0]], lambda: r.rotate(pool.pixcoords[0], 30 * u.deg)
    if op == 'copy_traced':
        r = rng.choice(pool.pix + pool.sky)
        return [r], lambda: r.copy()
    if op == 'union':
        a, b = rng.choice(pool.pix), rng.choice(pool.pix)
        return [a, b], lambda: a | b
    if op == 'parse_ds9':
        t = rng.choice(DS9_TEXTS)
        lst = [t]
        return [lst], lambda: R.Regions.parse(lst[0], format='ds9')
    if op == 'contains':
        r, p = rng.choice(pool.pix), rng.choice(pool.pixcoords)
        return [r, p], lambda: r.contains(p)
    if op in ('copy_deep', 'copy_shallow'):
        r = rng.choice(pool.pix + pool.sky)
        return [r], None
    raise ValueError(op)


def run_trace_case(case, site_table):
    """run one real operation under the effect tracer. -> dict(real=..., request=...)"""
    with warnings.catch_warnings():
        warnings.simplefilter('ignore')
        roots, thunk = trace_case_objects(case)
        snap = HeapSnap(roots)
        before = [fp(r) for r in roots]
        if case['op'] in ('copy_deep', 'copy_shallow'):
            r = roots[0]
            if case['op'] == 'copy_deep':
                import copy as _copy
                src = r
                new = _copy.deepcopy(r)
            else:
                src = r.meta
                new = dict(src)
            prog = [{'e': 'copyDeep' if case['op'] == 'copy_deep' else 'copyShallow', 'src': snap.lookup(src)}]
            res = ('ok', None)
            tree = snap.tree(new, 8)
            # what the new object holds, with references into the OLD heap where it shares
            shared = None
            if case['op'] == 'copy_shallow':
                shared = snap.content(new)
            exc = None
        else:
            tracer = EffectTracer(site_table, snap)
            with tracer:
                res = attempt(lambda a: thunk(), None)
            prog = tracer.prog
            tree = None
            shared = None
            exc = res[1] if res[0] == 'exc' else None
        after = [fp(r) for r in roots]
        now = [snap.content(o) for o in snap.objs]
        changed = [i for i in range(snap.n) if now[i] != snap.heap0[i]]
        diffs = []
        for i, (b, m) in enumerate(zip(before, after)):
            diffs += [(f'arg{i}{p[1:]}', k, d) for (p, k, d) in all_diffs(b, m)]
    return {'exc': exc, 'changed': changed, 'cells': [[i, now[i]] for i in changed], 'n_effects': len(prog),
            'tree': tree, 'shared': shared, 'fp_changed': before != after, 'diffs': diffs,
            '_request': {'op': 'c13.run', 'heap': snap.heap0, 'roots': snap.roots, 'prog': prog,
                         'unfold': {'new': 0} if tree is not None else None, 'depth': 8}}


# =====================================================================================
# 7. a fixed list of operations (fresh interpreter vs this process)
# =====================================================================================

def fixed_ops_results():
    """canonical results of a FIXED list of operations on freshly built regions: the same in every
    interpreter, whatever ran before and whatever PYTHONHASHSEED is."""
    import astropy.units as u
    from astropy.coordinates import SkyCoord
    import regions as R
    out = {}
    with warnings.catch_warnings():
        warnings.simplefilter('ignore')
        common = {'select': 1, 'highlite': 1, 'fixed': 0, 'edit': 1, 'move': 1, 'source': 1}

        def pix_list():
            vis = {'color': 'red', 'linewidth': 2}
            return [R.CirclePixelRegion(R.PixCoord(1.5, 2.25), 3.5, meta=R.RegionMeta(dict(common, text='a')), visual=R.RegionVisual(vis)),
                    R.EllipsePixelRegion(R.PixCoord(10.0, 4.5), 6.0, 2.5, angle=30 * u.deg, meta=R.RegionMeta(dict(common, text='b')), visual=R.RegionVisual(vis)),
                    R.PolygonPixelRegion(R.PixCoord([1.0, 2.0, 3.5], [1.0, 4.0, 2.5]), meta=R.RegionMeta(dict(common, tag=['t1'])), visual=R.RegionVisual(vis)),
                    R.RectanglePixelRegion(R.PixCoord(3.0, 4.0), 5.0, 2.0, angle=10 * u.deg, meta=R.RegionMeta(dict(common, include=0)), visual=R.RegionVisual(vis))]

        def sky_list():
            vis = {'color': 'blue', 'linewidth': 3}
            c = SkyCoord(10.5, -20.25, unit='deg', frame='fk5')
            return [R.CircleSkyRegion(c, 0.5 * u.deg, meta=R.RegionMeta(dict(common, label='x', include=False)), visual=R.RegionVisual(vis)),
                    R.EllipseSkyRegion(c, 2 * u.arcmin, 1 * u.arcmin, angle=15 * u.deg, meta=R.RegionMeta(dict(common, label='y')), visual=R.RegionVisual(vis)),
                    R.PolygonSkyRegion(SkyCoord([10.0, 11.0, 10.5], [1.0, 1.0, 2.0], unit='deg', frame='galactic'), meta=R.RegionMeta(common), visual=R.RegionVisual(vis))]

        def put(name, thunk, text=False):
            r = attempt(lambda a: thunk(), None)
            if r[0] == 'ok' and text and isinstance(r[1], str):
                out[name] = 'text:' + r[1]
            else:
                out[name] = json.dumps(canon_result(r))
        for nm, mk in (('pix', pix_list), ('sky', sky_list)):
            put(f'ds9:{nm}', lambda: R.Regions(mk()).serialize(format='ds9'), text=True)
            put(f'ds9:{nm}:p3', lambda: R.Regions(mk()).serialize(format='ds9', precision=3), text=True)
            put(f'crtf:{nm}', lambda: R.Regions(mk()).serialize(format='crtf'), text=True)
            put(f'fits:{nm}', lambda: R.Regions(mk()).serialize(format='fits'))
            put(f'ds9:{nm}:single', lambda: mk()[0].serialize(format='ds9'), text=True)
            put(f'roundtrip:ds9:{nm}', lambda: R.Regions.parse(R.Regions(mk()).serialize(format='ds9'), format='ds9'))
        for i, t in enumerate(DS9_TEXTS):
            put(f'parse:ds9:{i}', lambda: R.Regions.parse(t, format='ds9'))
            put(f'reserialize:ds9:{i}', lambda: R.Regions.parse(t, format='ds9').serialize(format='ds9'), text=True)
        for i, t in enumerate(CRTF_TEXTS):
            put(f'parse:crtf:{i}', lambda: R.Regions.parse(t, format='crtf'))
            put(f'reserialize:crtf:{i}', lambda: R.Regions.parse(t, format='crtf').serialize(format='crtf'), text=True)
        put('fits:roundtrip', lambda: R.Regions.parse(R.Regions(pix_list()).serialize(format='fits'), format='fits'))
        p = pix_list()
        put('contains', lambda: [r.contains(R.PixCoord(2.0, 3.0)) for r in p])
        put('area', lambda: [r.area for r in p])
        put('bbox', lambda: [r.bounding_box for r in p])
        put('mask', lambda: [r.to_mask(mode='exact') for r in p[:2]])
        put('compound', lambda: (p[0] | p[1]).contains(R.PixCoord(2.0, 3.0)))
        put('formats', lambda: str(R.Regions.get_formats()))
        from regions.core.registry import RegionsRegistry
        put('registry_order', lambda: [(k[0].__name__, k[1], k[2]) for k in RegionsRegistry.registry])
        put('crtf:pix:image', lambda: R.Regions(pix_list()).serialize(format='crtf', coordsys='image'), text=True)
        # one path NAME without a recognised extension, rewritten in each format and read with auto-detection.  In the
        # long-running process the same name has been read before while it held DS9 text (`same_path_history`): whatever
        # the library remembers about a file name must not survive the rewrite.
        same = os.environ.get('C13_SAME_PATH')
        if same:
            def rewrite_read(fmt):
                R.Regions(pix_list()).write(same, format=fmt, overwrite=True)
                return R.Regions.read(same)
            for fmt in ('crtf', 'fits', 'ds9'):
                put(f'autoread:same_name:{fmt}', lambda: rewrite_read(fmt))

            def fits_header():
                from astropy.io import fits
                R.Regions(pix_list()).write(same + '.hdr.fits', format='fits', overwrite=True)
                with fits.open(same + '.hdr.fits') as hl:
                    cards = sorted((k, repr(v)) for k, v in hl[1].header.items() if k not in ('DATE', 'CHECKSUM', 'DATASUM'))
                os.remove(same + '.hdr.fits')
                return cards
            put('fits:default_header', fits_header)
    return out


def same_path_history():
    """history for the `autoread:same_name:*` fixed operations: the name is written as DS9 and read with auto-detection
    (only in the long-running process; fresh interpreters start without it)."""
    import regions as R
    same = os.environ.get('C13_SAME_PATH')
    if not same:
        return
    with warnings.catch_warnings():
        warnings.simplefilter('ignore')
        try:
            R.Regions([R.CirclePixelRegion(R.PixCoord(1.0, 2.0), 3.0)]).write(same, format='ds9', overwrite=True)
            R.Regions.read(same)
            R.Regions.read(same, format='ds9')
            # ... and an earlier FITS write had a header of its own (nothing of it may appear in later default writes)
            R.Regions([R.CirclePixelRegion(R.PixCoord(1.0, 2.0), 3.0)]).write(
                same + '.hist.fits', format='fits', overwrite=True, header={'EXTNAME': 'REGION', 'OBSERVER': 'history', 'HISTKEY': 7})
            os.remove(same + '.hist.fits')
        except Exception:
            pass


def only_global_order(a, b):
    """two DS9 texts differ only in the ORDER of the key=value items of their `global` line(s)."""
    import re
    if not (a.startswith('text:') and b.startswith('text:')):
        return False
    la, lb = a.split('\n'), b.split('\n')
    if len(la) != len(lb):
        return False
    differs = False
    for x, y in zip(la, lb):
        if x == y:
            continue
        if not (x.startswith('global ') and y.startswith('global ')):
            return False

        def items(line):
            pos = [m.start() for m in re.finditer(r'(?:^| )[A-Za-z]+=', line[7:])]
            body = line[7:]
            return sorted(body[i:j].strip() for i, j in zip(pos, pos[1:] + [len(body)]))
        if items(x) != items(y):
            return False
        differs = True
    return differs


def only_dict_order(a, b):
    """two canonical dumps (JSON) are equal once the items of every dict are sorted."""
    def norm(x):
        if isinstance(x, list):
            if len(x) >= 3 and x[0] == 'dict' and isinstance(x[2], list):
                return ['dict', x[1], sorted((norm(i) for i in x[2]), key=json.dumps)] + [norm(y) for y in x[3:]]
            return [norm(y) for y in x]
        return x
    try:
        ja, jb = json.loads(a), json.loads(b)
    except Exception:
        return False
    return ja != jb and norm(ja) == norm(jb)


if __name__ == '__main__' and '--child' in sys.argv:
    if os.environ.get('REGIONS_SRC'):
        sys.path.insert(0, os.environ['REGIONS_SRC'])
    import matplotlib
    matplotlib.use('Agg')
    print(json.dumps(fixed_ops_results()))
    sys.exit(0)


# =====================================================================================
# 8. the check
# =====================================================================================

F6_KEY = "str:'include'"


def is_f6_diffs(diffs):
    """every difference is: the key 'include' disappeared from a region's meta dict."""
    return bool(diffs) and all(
        k == 'dict_keys' and p.endswith('/meta/dict') and d.get('removed') == [F6_KEY] and not d.get('added')
        for (p, k, d) in diffs)


SYNTH_ITERS = [
    {'k': 'cycle', 'items': ['c']}, {'k': 'cycle', 'items': ['a', 'b']}, {'k': 'cycle', 'items': ['x', 'x', 'x']},
    {'k': 'tuple', 'items': ['p', 'q', 'r']}, {'k': 'tuple', 'items': []}, {'k': 'repeat', 'x': 'z'}, {'k': 'count'},
    {'k': 'chain', 'parts': [{'k': 'tuple', 'items': ['coord', 'coord']}, {'k': 'cycle', 'items': ['length']}]},
    {'k': 'chain', 'parts': [{'k': 'tuple', 'items': ['a']}, {'k': 'tuple', 'items': ['b', 'c']}]},
    {'k': 'chain', 'parts': [{'k': 'cycle', 'items': []}, {'k': 'tuple', 'items': ['t']}]},
]


def real_iter(expr):
    k = expr['k']
    if k == 'cycle':
        return itertools.cycle(tuple(expr['items']))
    if k == 'tuple':
        return iter(tuple(expr['items']))
    if k == 'repeat':
        return itertools.repeat(expr['x'])
    if k == 'count':
        return (str(i) for i in itertools.count())
    if k == 'chain':
        return itertools.chain(*[real_iter(p) for p in expr['parts']])
    raise ValueError(k)


def iter_json(ix):
    """extractor's iterator structure -> driver JSON"""
    k = ix[0]
    if k in ('cycle', 'tuple'):
        return {'k': k, 'items': list(ix[1])}
    if k == 'chain':
        return {'k': 'chain', 'parts': [iter_json(p) for p in ix[1]]}
    if k == 'repeat':
        return {'k': 'repeat', 'x': ix[1]}
    if k == 'count':
        return {'k': 'count'}
    return {'k': 'other', 'src': ix[1]}


def run_witness(case):
    """stored witnesses of past findings (corpus/C13): they must stay repaired."""
    import astropy.units as u
    from astropy.coordinates import SkyCoord
    import regions as R
    V = []
    with warnings.catch_warnings():
        warnings.simplefilter('ignore')
        if case['name'] == 'crtf_excluded_twice':
            # F6: an excluded region serialised twice to CRTF
            def mk(inc):
                return R.CircleSkyRegion(SkyCoord(1, 2, unit='deg'), 1 * u.deg,
                                         meta=R.RegionMeta({'include': inc, 'label': 'x'}))
            for inc in (False, True, 0, 1):
                for target in (mk(inc), R.Regions([mk(inc), mk(True)])):
                    before = fp(target)
                    t1 = attempt(lambda a: target.serialize(format='crtf'), None)
                    mid = fp(target)
                    t2 = attempt(lambda a: target.serialize(format='crtf'), None)
                    where = {'op': 'serialize', 'fmt': 'crtf', 'seed': 0, 'step': 0}
                    if mid != before:
                        diffs = [(f'arg0{p[1:]}', k, d) for (p, k, d) in all_diffs(before, mid)]
                        V.append(dict(where, kind='input_mutated', diffs=diffs,
                                      detail=f'serialize(crtf) of a region with include={inc!r} changed its input: {diffs[:2]}'))
                    elif canon_result(t1) != canon_result(t2):
                        V.append(dict(where, kind='repeat_differs',
                                      detail=f'serialize(crtf) twice, include={inc!r}: {t1[1]!r} then {t2[1]!r}'))
                    elif t1[0] == 'ok' and not inc and isinstance(target, R.Region) and '-circle' not in t1[1]:
                        V.append(dict(where, kind='repeat_differs', detail=f'excluded region written without "-": {t1[1]!r}'))
        else:
            raise ValueError(case['name'])
    return {'violations': V, 'n_ops': 16, 'calls': 16}


class Check(PropertyCheck):
    id = 'C13'
    lean_targets = ['RegionsVerif.Props.C13']
    namespaces = ['RegionsVerif.Props.C13']
    parallel = False            # the sequences share state on purpose; the site watcher lives in this process
    rule = ('random sequences (30 operations quick, up to 200 thorough) of the public read-only / constructive API over a shared pool: '
            'pixel regions of all 11 classes + compounds (harness/regiongen.py), sky regions of all 10 classes + compound, '
            'random meta / visual dictionaries (incl. list-valued tag/range/corr), three real WCSs, scalar / 1-D / 2-D PixCoord, '
            'SkyCoord, float / int / Quantity images; operations: contains, `in`, sky contains, to_mask (center/exact/subpixels), '
            'area, bounding_box, to_sky, to_pixel, rotate, copy, copy(**changes), & | ^, ==, repr/str, as_artist (Agg), '
            'bounding-box algebra and artist, PixCoord algebra, serialize (Region and Regions; ds9/crtf/fits with options), '
            'parse (stock texts incl. multi-annulus / composite / global lines, and every text / table produced earlier), '
            'write+read in a temp dir (format given or inferred), mask.to_image/cutout/multiply/get_values, Regions indexing / '
            'slicing / copy, get_formats, visual.define_mpl_kwargs, meta copies.  Results go back into the pool.  '
            'Before each call a deep structural fingerprint of every argument (float.hex, array bytes + dtype, units, dict items '
            'in order, container ids) is taken and compared after the call and after a second call; both results are compared '
            '(canonical dumps); fixed probes are compared between the start and the end of each sequence.  '
            'A fixed list of about 30 operations is run in fresh interpreters under 5 PYTHONHASHSEEDs and compared with this '
            'process after all sequences.  Corpus: the stored witnesses of F6 (excluded region serialised twice to CRTF).  Model cases: traced real operations (19 kinds) translated into effect programs, '
            'deep / shallow copies, iterator streams, the compiled tables.  Non-trivial = a sequence, or a model case with at '
            'least one effect.')
    assumptions = [
        'the receiver class of each mutating site is a STATIC APPROXIMATION computed by tools/c13_effects.py (trusted '
        'translator): abstract interpretation of the source text, inter-procedural, context-insensitive; frame_by_class '
        'assumes Effect.classSound for the programs the real operations perform',
        'mutations performed by C extensions / numpy / astropy / matplotlib internals are invisible to the site table; they are '
        'covered by the fingerprint net only',
        'regions/_utils/examples.py (documentation data sets) is outside the claim (Props.C13.inScope)',
        'contract mutators (Meta.update/setdefault/__setitem__, Regions.append/extend/insert/reverse/pop, as_mpl_selector and its '
        'callback, descriptor __set__, property setters) are classified selfInit: they are not read-only operations',
        'fingerprints cover regions (params, meta, visual, instance attributes), PixCoord, SkyCoord (representation data + frame '
        'attributes), Quantity, ndarray, dict/list/tuple/set, WCS (wcsprm parameters), tables, masks, boxes; astropy internal '
        'caches are not fingerprinted',
    ]
    validated_only = [
        'that every site classified fresh / selfInit really writes only to objects allocated during the operation: validated by the '
        'traced model cases (which input-reachable objects changed, and to what, model vs reality) and by the fingerprint net',
        'the `unknown` sites (Props.C13.unknown_sites_listed): watched with sys.monitoring during the sequences; a site is accepted '
        'only when reached >= 20 times and its receiver was never a mutable object reachable from the inputs; the others are '
        'listed in info.unknown_sites',
        'bit-for-bit immutability of inputs and equality of repeated results on the explored sequences (the dynamic net itself)',
        'independence of PYTHONHASHSEED / interpreter history for the fixed list of operations',
        'that itertools.cycle / chain / repeat behave as IterExpr.stream (compared on every run for the generated and synthetic iterators)',
    ]

    def __init__(self):
        self._info = None
        self._watch = None
        self._site_table = None
        self._seq_stats = {'sequences': 0, 'ops': 0, 'calls': 0, 'op_counts': {}, 'exceptions': {}}

    # ---------------------------------------------------------------- tie T
    def _extractor(self):
        path = os.path.join(VERIF, 'tools', 'c13_effects.py')
        spec = importlib.util.spec_from_file_location('c13_effects', path)
        mod = importlib.util.module_from_spec(spec)
        spec.loader.exec_module(mod)
        return mod

    def translate(self):
        info, problems = self._extractor().run()
        self._info = info
        self._site_table = info['site_table']
        return problems

    def site_table(self):
        if self._site_table is None:
            self.translate()
        return self._site_table

    def unknown_sites(self):
        return [s for s in self.site_table() if s['cls'] == 'unknown' and s['file'] != 'regions/_utils/examples.py']

    # ---------------------------------------------------------------- generation
    def generate(self, rng, tier):
        import matplotlib
        matplotlib.use('Agg')
        cases = [{'kind': 'table'}]
        # iterator streams: the module-level iterators of the generated table + synthetic ones
        iters = list(SYNTH_ITERS)
        if self._info is not None:
            for e in self._info['module_state']:
                if e['iter'] is not None:
                    iters.append(iter_json(e['iter']))
        for ex in iters:
            if ex['k'] == 'other' or any(p['k'] == 'other' for p in ex.get('parts', [])):
                continue
            for _ in range(3 if tier == 'quick' else 12):
                cases.append({'kind': 'iter', 'expr': ex, 'pos': rng.choice([0, 0, 1, 2, 3, 7]), 'm': rng.randint(0, 6)})
        n_trace = 6 if tier == 'quick' else 40
        for op in TRACE_OPS + ['copy_deep', 'copy_shallow']:
            for _ in range(n_trace * (2 if op.startswith('copy_') else 1)):
                cases.append({'kind': 'trace', 'op': op, 'seed': rng.randrange(1 << 62)})
        n_seq = 200 if tier == 'quick' else 1000
        for _ in range(n_seq):
            n_ops = 30 if tier == 'quick' else rng.choice([30, 60, 200])
            cases.append({'kind': 'seq', 'seed': rng.randrange(1 << 62), 'n_ops': n_ops})
        return cases

    # ---------------------------------------------------------------- real
    def real(self, case):
        import matplotlib
        matplotlib.use('Agg')
        k = case['kind']
        if k == 'seq':
            if self._watch is None:
                self._watch = SiteWatch(self.unknown_sites())
                self._watch.start()
            r = run_sequence(case['seed'], case['n_ops'], self._watch)
            st = self._seq_stats
            st['sequences'] += 1
            st['ops'] += r['n_ops']
            st['calls'] += r['calls']
            for kk, v in r['op_counts'].items():
                st['op_counts'][kk] = st['op_counts'].get(kk, 0) + v
            for kk, v in r['exceptions'].items():
                st['exceptions'][kk] = st['exceptions'].get(kk, 0) + v
            return {'n_ops': r['n_ops'], 'calls': r['calls'], 'violations': r['violations']}
        if k == 'trace':
            r = run_trace_case(case, self.site_table())
            self._req = getattr(self, '_req', {})
            self._req[case['seed']] = r.pop('_request')
            return r
        if k == 'witness':
            return run_witness(case)
        if k == 'iter':
            it = real_iter(case['expr'])
            for _ in range(case['pos']):
                next(it, None)
            return {'take': [next(it, None) for _ in range(case['m'])]}
        if k == 'table':
            t = self.site_table()
            return {'n': len(t), 'sites': [[s['file'], s['line'], s['func'], s['recv'], s['cls']] for s in t],
                    'module': [[e['name'], e['file'], len(e['readers']), [[w[0], w[1], bool(w[3])] for w in e['writers']]]
                               for e in (self._info or {}).get('module_state', [])]}
        raise ValueError(k)

    # ---------------------------------------------------------------- model
    def requests(self, case):
        k = case['kind']
        if k == 'trace':
            return [self._req[case['seed']]]
        if k == 'iter':
            return [{'op': 'c13.iter', 'expr': case['expr'], 'pos': case['pos'], 'm': case['m']}]
        if k == 'table':
            return [{'op': 'c13.table'}]
        return []

    def model(self, case, replies):
        k = case['kind']
        if k in ('seq', 'witness'):
            return None
        r = replies[0]
        if 'fail' in r:
            return {'fail': r['fail']}
        if k == 'trace':
            return {'changed': r['changed'], 'cells': r['cells'], 'tree': r['tree'], 'rootCell': r['rootCell'],
                    'local': r['local'], 'classOK': r['classOK'], 'allocated': r['allocated']}
        if k == 'iter':
            return {'take': r['take']}
        return {'n': r['n'], 'sites': r['sites'],
                'module': [[m['name'], m['file'], m['readers'], m['writers']] for m in r['module']]}

    def equal(self, case, real, model):
        k = case['kind']
        if k in ('seq', 'witness'):
            return True
        if model is None or 'fail' in model:
            return False
        if k == 'iter':
            return real['take'] == model['take']
        if k == 'table':
            return real['n'] == model['n'] and real['sites'] == model['sites'] and real['module'] == model['module']
        # trace: the input-reachable objects that changed, and what they hold now
        if sorted(real['changed']) != sorted(model['changed']):
            return False
        if sorted(real['cells'], key=lambda c: c[0]) != sorted(model['cells'], key=lambda c: c[0]):
            return False
        if case['op'] == 'copy_deep':
            return real['tree'] == model['tree'] and model['local'] is True
        if case['op'] == 'copy_shallow':
            return real['tree'] == model['tree'] and real['shared'] == model['rootCell']
        # a program that the model says is local must not have changed anything
        if model['local'] and real['fp_changed']:
            return False
        return True

    # ---------------------------------------------------------------- the property itself on the real results
    READ_ONLY_TRACE = {'crtf_serialize', 'ds9_serialize', 'fits_serialize', 'to_sky', 'to_pixel', 'rotate', 'copy_traced',
                       'union', 'parse_ds9', 'contains', 'copy_deep', 'copy_shallow'}

    def oracle(self, case, real):
        k = case['kind']
        if k in ('seq', 'witness'):
            return real['violations']
        if k == 'trace' and case['op'] in self.READ_ONLY_TRACE and real['fp_changed']:
            fmt = case['op'].split('_')[0] if case['op'].endswith('_serialize') else None
            return [{'kind': 'input_mutated', 'op': case['op'], 'fmt': fmt, 'seed': case['seed'], 'diffs': real['diffs'],
                     'detail': f'{case["op"]} changed its input: {real["diffs"][:3]}'}]
        return []

    def finding_match(self, finding, v):
        if finding.get('kind') != v.get('kind'):
            return False
        if finding['id'] == 'F6':
            # CRTF serialisation pops `include` from the caller's region.meta - and nothing else
            return v.get('fmt') == 'crtf' and is_f6_diffs([tuple(d) for d in v.get('diffs', [])])
        if finding['id'] == 'F5':
            # DS9 `global` line: only the ORDER of its key=value items depends on the hash seed
            return v.get('fmt') == 'ds9' and v.get('only_global_order') is True
        return False

    def nontrivial(self, case, real):
        if case['kind'] == 'witness':
            return True
        if case['kind'] == 'seq':
            return real['n_ops'] > 0
        if case['kind'] == 'trace':
            return real['n_effects'] > 0
        return True

    def bucket(self, case, real):
        if case['kind'] == 'trace':
            return f"trace/{case['op']}/{'changed' if real['changed'] else 'unchanged'}"
        if case['kind'] == 'witness':
            return f"witness/{case['name']}"
        if case['kind'] == 'seq':
            return f"seq/{case['n_ops']}"
        return case['kind']

    # ---------------------------------------------------------------- whole-run checks
    def extra_checks(self, rng, tier):
        V, info, n = [], {}, 0
        # (a) the unknown sites
        if self._watch is not None:
            self._watch.stop()
            acc, ali, unr = [], [], []
            for key, st in sorted(self._watch.stats.items()):
                row = {'site': key, 'hits': st['hits'], 'mutable_receiver': st['mutable'], 'aliased_input': st['aliased'],
                       'types': st['types'], 'note': st['note']}
                if st['aliased']:
                    ali.append(row)
                elif st['hits'] >= 20:
                    acc.append(row)
                else:
                    unr.append(row)
            info['unknown_sites'] = {
                'accepted (>= 20 hits, receiver never a mutable input-reachable object)': acc,
                'receiver aliased an input (not accepted; covered by the fingerprint net only)': ali,
                'unvalidated (reached < 20 times)': unr,
                'unwatchable': self._watch.unwatchable}
            n += sum(st['hits'] for st in self._watch.stats.values())
        info['sequences'] = dict(self._seq_stats)
        if self._info is not None:
            info['site_table'] = {k: self._info[k] for k in ('files', 'functions', 'rounds', 'sites', 'by_class',
                                                             'input_sites', 'unknown_sites', 'module_state_sites')}
        # (b) fixed operations: this process (after everything above) vs fresh interpreters, other hash seeds
        import tempfile
        same_dir = tempfile.mkdtemp(prefix='c13_same_')
        os.environ['C13_SAME_PATH'] = os.path.join(same_dir, 'regions_same_name.dat')
        same_path_history()
        here = fixed_ops_results()
        seeds = sorted({str(rng.randrange(1, 4000000000)) for _ in range(4)} | {'0'})
        procs = []
        for hs in seeds:
            env = dict(os.environ, PYTHONHASHSEED=hs, C13_SAME_PATH=os.path.join(same_dir, f'child_{hs}', 'regions_same_name.dat'))
            os.makedirs(os.path.join(same_dir, f'child_{hs}'), exist_ok=True)
            procs.append((hs, subprocess.Popen([sys.executable, '-m', 'harness.c13', '--child'], cwd=VERIF, env=env,
                                               stdout=subprocess.PIPE, stderr=subprocess.PIPE, text=True)))
        outs = {'this process': here}
        for hs, p in procs:
            so, se = p.communicate(timeout=600)
            if p.returncode != 0:
                V.append({'kind': 'harness_exception', 'detail': f'fresh interpreter (PYTHONHASHSEED={hs}) failed: {se[-400:]}'})
                continue
            outs[f'PYTHONHASHSEED={hs}'] = json.loads(so)
        names = sorted(here)
        ndiff = 0
        ref_name = next(iter(outs))
        for nm in names:
            vals = {k: o.get(nm) for k, o in outs.items()}
            n += len(vals)
            distinct = {}
            for k, v in vals.items():
                distinct.setdefault(v, k)
            if len(distinct) > 1:
                ndiff += 1
                (a, ka), (b, kb) = list(distinct.items())[:2]
                fmt = 'ds9' if ':ds9' in nm or nm.startswith('ds9') else ('crtf' if 'crtf' in nm else ('fits' if 'fits' in nm else None))
                ogo = all(only_global_order(a, x) or only_dict_order(a, x) for x in distinct if x != a)
                V.append({'kind': 'history_or_hashseed_dependent', 'op': nm, 'fmt': fmt, 'only_global_order': ogo,
                          'detail': f'{nm}: {ka} and {kb} give different results: {str(a)[:200]!r} vs {str(b)[:200]!r}'})
        info['fresh_interpreters'] = {'operations': len(names), 'interpreters': len(outs) - 1, 'hash_seeds': seeds,
                                      'operations_with_differing_results': ndiff}
        import shutil
        shutil.rmtree(same_dir, ignore_errors=True)
        os.environ.pop('C13_SAME_PATH', None)
        return n, V, info
