"""C12 — FITS region tables round-trip every supported pixel region."""
import ast
import atexit
import hashlib
import json
import os
import random
import shutil
import tempfile
import warnings
from fractions import Fraction

import numpy as np

from . import common
from .common import frac, LEAN_DIR
from .runner import PropertyCheck

REPRESENTABLE = ('point', 'circle', 'ellipse', 'circleAnnulus', 'ellipseAnnulus', 'rectangle',
                 'polygon', 'regularPolygon')
UNREPRESENTABLE = ('line', 'text', 'rectangleAnnulus', 'compound')
HAS_ANGLE = ('ellipse', 'ellipseAnnulus', 'rectangle')
# classes whose FITS name is rewritten by the writer (name map) or whose sizes are halved
F8_CLASSES = ('ellipse', 'circleAnnulus', 'ellipseAnnulus', 'rectangle')
CLASS_OF = {'PointPixelRegion': 'point', 'CirclePixelRegion': 'circle', 'EllipsePixelRegion': 'ellipse',
            'CircleAnnulusPixelRegion': 'circleAnnulus', 'EllipseAnnulusPixelRegion': 'ellipseAnnulus',
            'RectanglePixelRegion': 'rectangle', 'PolygonPixelRegion': 'polygon',
            'RegularPolygonPixelRegion': 'regularPolygon', 'RectangleAnnulusPixelRegion': 'rectangleAnnulus',
            'LinePixelRegion': 'line', 'TextPixelRegion': 'text', 'CompoundPixelRegion': 'compound'}
NUMCOLS = ('X', 'Y', 'R', 'ROTANG')
ANGLE_UNITS = ('deg', 'rad', 'arcmin', 'arcsec', 'hourangle')
ANGLE_TOL = Fraction(1, 10 ** 12)        # relative; only where astropy converted between units
_UNIT_CACHE = {}


def unit_info(name):
    """what astropy says about an angular unit: degrees per unit (the exact rational of its float scale)
    and whether io.fits can store a column in that unit (tried for real, once per process)."""
    if name not in _UNIT_CACHE:
        import io
        import astropy.units as u
        from astropy.io import fits
        from astropy.table import QTable
        un = u.Unit(name)
        try:
            with warnings.catch_warnings():
                warnings.simplefilter('ignore')
                fits.BinTableHDU(data=QTable({'A': [1.0] * un})).writeto(io.BytesIO())
            ok = True
        except Exception:
            ok = False
        _UNIT_CACHE[name] = {'name': name, 'deg': frac(Fraction(float(un.to(u.deg)))), 'fits': ok}
    return _UNIT_CACHE[name]


def degrees(value, unit):
    """exact product of the stored value and astropy's scale of the unit."""
    return F(value) * F(unit_info(unit or 'deg')['deg'])


def close(a, b, tol=ANGLE_TOL):
    if a == b:
        return True
    if a is None or b is None or 'nan' in (a, b):
        return False
    a, b = F(a), F(b)
    return abs(a - b) <= tol * max(abs(a), abs(b))
GEN_PATH = os.path.join(LEAN_DIR, 'RegionsVerif', 'Gen', 'FitsTables.lean')


def F(s):
    return Fraction(s)


def fl(s):
    return float(Fraction(s))


def num(v):
    v = float(v)
    if v != v:
        return 'nan'
    return frac(Fraction(v))


# ------------------------------------------------------------------ building real objects

def incl_value(tag):
    return {'true': True, 'false': False, '0': 0, '1': 1}[tag]


NTYPES = ('int', 'int64', 'int32', 'int16', 'uint8')     # integer carriers of region parameters (besides float)


def carrier(ntype):
    """exact-rational string -> the Python/numpy number the region is built from."""
    if not ntype or ntype == 'float':
        return fl
    conv = int if ntype == 'int' else getattr(np, ntype)

    def f(s):
        q = Fraction(s)
        assert q.denominator == 1, (s, ntype)
        return conv(int(q))
    return f


def build_region(spec):
    import astropy.units as u
    from astropy.coordinates import SkyCoord
    import regions as R
    nt = spec.get('ntype') or 'float'
    cv = carrier(nt)
    meta = {}
    if spec['incl'] != 'absent':
        meta['include'] = incl_value(spec['incl'])
    if spec['comp'] is not None:
        meta['component'] = int(spec['comp'])
    meta = R.RegionMeta(meta)
    cls = spec['cls']
    if spec['sky']:
        c = SkyCoord(fl(spec['xs'][0]), fl(spec['ys'][0]), unit='deg')
        if cls == 'circle':
            return R.CircleSkyRegion(c, fl(spec['params'][0]) * u.arcsec, meta=meta)
        if cls == 'point':
            return R.PointSkyRegion(c, meta=meta)
        return R.RectangleSkyRegion(c, fl(spec['params'][0]) * u.arcsec, fl(spec['params'][1]) * u.arcsec,
                                    angle=fl(spec['angle']) * u.deg, meta=meta)
    if cls in ('polygon',):
        xs, ys = [cv(v) for v in spec['xs']], [cv(v) for v in spec['ys']]
        if nt not in ('float', 'int'):          # a numpy integer array, not a list of numpy scalars
            xs, ys = np.array(xs, dtype=getattr(np, nt)), np.array(ys, dtype=getattr(np, nt))
        return R.PolygonPixelRegion(R.PixCoord(xs, ys), meta=meta)
    c = R.PixCoord(cv(spec['xs'][0]), cv(spec['ys'][0]))
    p = [cv(v) for v in spec['params']]
    ang = None if spec.get('angle') is None else fl(spec['angle']) * u.Unit(spec.get('aunit') or 'deg')
    if cls == 'point':
        return R.PointPixelRegion(c, meta=meta)
    if cls == 'circle':
        return R.CirclePixelRegion(c, p[0], meta=meta)
    if cls == 'ellipse':
        return R.EllipsePixelRegion(c, p[0], p[1], angle=ang, meta=meta)
    if cls == 'circleAnnulus':
        return R.CircleAnnulusPixelRegion(c, p[0], p[1], meta=meta)
    if cls == 'ellipseAnnulus':
        return R.EllipseAnnulusPixelRegion(c, p[0], p[1], p[2], p[3], angle=ang, meta=meta)
    if cls == 'rectangle':
        return R.RectanglePixelRegion(c, p[0], p[1], angle=ang, meta=meta)
    if cls == 'regularPolygon':
        return R.RegularPolygonPixelRegion(c, int(spec['nvertices']), p[0], angle=ang, meta=meta)
    if cls == 'rectangleAnnulus':
        return R.RectangleAnnulusPixelRegion(c, p[0], p[1], p[2], p[3], angle=ang, meta=meta)
    if cls == 'line':
        return R.LinePixelRegion(c, R.PixCoord(fl(spec['xs'][0]) + 1.0, fl(spec['ys'][0]) + 2.0), meta=meta)
    if cls == 'text':
        return R.TextPixelRegion(c, 'label', meta=meta)
    if cls == 'compound':
        comp = R.CirclePixelRegion(c, p[0]) | R.CirclePixelRegion(c, float(p[0]) + 1.0)
        comp.meta = meta
        return comp
    raise ValueError(cls)


def canon_incl(meta):
    if 'include' not in meta:
        return 'absent'
    v = meta['include']
    if isinstance(v, (bool, np.bool_)):
        return bool(v)
    return int(v)


def canon_region(r):
    """real region object -> exact canonical record (what the FITS code reads through `_params`)."""
    import astropy.units as u
    kind = CLASS_OF.get(type(r).__name__, type(r).__name__)
    out = {'kind': kind, 'xs': [], 'ys': [], 'params': [], 'angle': None, 'aunit': None}
    if kind not in REPRESENTABLE:
        pass                      # skipped by the writer: geometry is never read
    elif kind in ('polygon', 'regularPolygon'):
        out['xs'] = [num(v) for v in np.atleast_1d(r.vertices.x).tolist()]
        out['ys'] = [num(v) for v in np.atleast_1d(r.vertices.y).tolist()]
    else:
        for p in r._params:
            v = getattr(r, p)
            if p == 'center':
                out['xs'] = [num(v.x)]
                out['ys'] = [num(v.y)]
            elif p == 'angle':
                out['angle'] = num(v.value)           # the value as stored, in its own unit
                out['aunit'] = str(v.unit)
            elif p in ('start', 'end', 'text'):
                pass
            else:
                out['params'].append(num(v))
    out['incl'] = canon_incl(r.meta)
    c = r.meta.get('component', None)
    out['comp'] = None if c is None else int(c)
    return out


def canon_table(t):
    cols = [str(c) for c in t.colnames]
    rows = []
    for i in range(len(t)):
        row = {}
        for c in cols:
            col = t[c]
            if c == 'SHAPE':
                row['shape'] = str(col[i])
            elif c == 'COMPONENT':
                row['component'] = int(col[i])
            elif c in NUMCOLS:
                v = col[i]
                val = np.asarray(getattr(v, 'value', v))
                if val.ndim == 0:
                    row[c.lower()] = {'s': num(val)}
                else:
                    row[c.lower()] = {'v': [num(x) for x in val.tolist()]}
            else:
                row[c] = repr(col[i])
        rows.append(row)
    units = {c: str(getattr(t[c], 'unit', None)) for c in cols if c in NUMCOLS}
    obj = 'COMPONENT' in cols and t['COMPONENT'].dtype == object
    ru = str(t['ROTANG'].unit) if ('ROTANG' in cols and len(t)) else None
    return {'cols': cols, 'rows': rows, 'comp_object': bool(obj), 'rotang_unit': ru}, units


def canon_warnings(ws):
    out = []
    for w in ws:
        msg = str(w.message)
        if 'Sky regions cannot be serialized' in msg:
            out.append('sky')
        elif 'cannot be serialized using the' in msg:
            out.append('unsupported:' + msg.split('(')[1].split(' ')[0])
        else:
            out.append('other:' + w.category.__name__ + ':' + msg[:60])
    return out


def _parse(t):
    from regions import Regions
    try:
        with warnings.catch_warnings():
            warnings.simplefilter('ignore')
            regs = Regions.parse(t, format='fits')
        return {'ok': [canon_region(r) for r in regs]}, regs
    except Exception as e:
        return {'err': type(e).__name__, 'msg': str(e)[:200]}, None


def _serialize(regs):
    from regions import Regions
    with warnings.catch_warnings(record=True) as ws:
        warnings.simplefilter('always')
        t = Regions(regs).serialize(format='fits')
    return t, canon_warnings(ws)


def _roundtrip_memory(regs):
    t, ws = _serialize(regs)
    res, objs = _parse(t)
    return t, ws, res, objs


# One FIXED scratch file name per worker process, reused by every case of the run (a reader or writer that
# keeps state per file NAME shows up only when a name is reused).  The base directory is private, created by
# the parent in `generate()` and removed when the parent exits; nothing under it is needed afterwards.
_SCRATCH_BASES = []
_LOCAL_SCRATCH = {}


def _cleanup_scratch():
    for d in _SCRATCH_BASES:
        shutil.rmtree(d, ignore_errors=True)
    del _SCRATCH_BASES[:]


def new_scratch_base():
    d = tempfile.mkdtemp(prefix='c12_')
    if not _SCRATCH_BASES:
        atexit.register(_cleanup_scratch)
    _SCRATCH_BASES.append(d)
    return d


def scratch_path(base, name):
    """<base>/w<pid>/<name>; without a base (a replay) a private directory of this process."""
    pid = os.getpid()
    if base is None or not os.path.isdir(base):
        if pid not in _LOCAL_SCRATCH:
            _LOCAL_SCRATCH[pid] = new_scratch_base()
        base = _LOCAL_SCRATCH[pid]
    d = os.path.join(base, f'w{pid}')
    os.makedirs(d, exist_ok=True)
    return os.path.join(d, name)


def second_list(case):
    """the list B that is written over the path after list A: the one drawn in generate(), or (corpus and old
    replay cases) one derived deterministically from A, so that every case replays on its own."""
    if case.get('regions_b') is not None:
        return case['regions_b']
    h = hashlib.sha1(json.dumps(case['regions'], sort_keys=True).encode()).hexdigest()
    return gen_list(random.Random(int(h[:12], 16)))['regions']


def _roundtrip_file(regs, fn):
    """write to the (possibly existing) path `fn` with overwrite=True and read it back.
    -> (result, stage, table read back from the file (canonical) or None)"""
    from astropy.io import fits
    from astropy.table import QTable
    from regions import Regions
    try:
        with warnings.catch_warnings():
            warnings.simplefilter('ignore')
            Regions(regs).write(fn, format='fits', overwrite=True)
    except Exception as e:
        return {'err': type(e).__name__, 'msg': str(e)[:200]}, 'write', None
    back = None
    try:
        with fits.open(fn) as hdul:
            for hdu in hdul:
                if hdu.name == 'REGION':
                    back = canon_table(QTable.read(hdu))
                    break
    except Exception as e:
        back = ({'err': type(e).__name__}, {})
    try:
        with warnings.catch_warnings():
            warnings.simplefilter('ignore')
            regs2 = Regions.read(fn, format='fits')
        return {'ok': [canon_region(r) for r in regs2]}, 'read', back
    except Exception as e:
        return {'err': type(e).__name__, 'msg': str(e)[:200]}, 'read', back


def build_table(spec):
    import astropy.units as u
    from astropy.table import QTable
    t = QTable()
    rows = spec['rows']
    for c in spec['cols']:
        if c == 'SHAPE':
            t[c] = [r['shape'] for r in rows]
        elif c == 'COMPONENT':
            t[c] = np.array([int(r['component']) for r in rows], dtype=np.int64)
        elif c in NUMCOLS:
            cells = [r[c.lower()] for r in rows]
            if all('s' in cell for cell in cells):
                arr = np.array([fl(cell['s']) for cell in cells], dtype=float)
            else:
                arr = np.array([[fl(v) for v in cell['v']] for cell in cells], dtype=float)
            unit = spec['units'].get(c)
            t[c] = arr * u.Unit(unit) if unit else arr
        else:
            t[c] = [0] * len(rows)
    return t


# ------------------------------------------------------------------ generation

def rcoord(rng):
    k = rng.randrange(6)
    if k == 0:
        return Fraction(rng.randint(-64, 640), 8)
    if k == 1:
        return Fraction(rng.uniform(-2000.0, 2000.0))
    if k == 2:
        return Fraction(rng.randint(-5, 5))
    if k == 3:
        return Fraction(rng.uniform(-1.0, 1.0) * 10.0 ** rng.randint(-6, 7))
    if k == 4:
        return Fraction(0)
    return Fraction(rng.randint(1, 10 ** 6), 2 ** rng.randint(0, 20))


def rsize(rng):
    k = rng.randrange(5)
    if k == 0:
        return Fraction(rng.randint(1, 400), 8)
    if k == 1:
        return Fraction(rng.uniform(1e-3, 500.0))
    if k == 2:
        return Fraction(rng.randint(1, 30))
    if k == 3:
        return Fraction(rng.uniform(0.1, 1.0) * 10.0 ** rng.randint(-8, 8))
    return Fraction(rng.random() + 2.0 ** -40)


def rangle(rng):
    k = rng.randrange(4)
    if k == 0:
        return Fraction(rng.choice([0, 30, 45, 90, -90, 180, 270, 360, 400]))
    if k == 1:
        return Fraction(rng.uniform(-360.0, 720.0))
    if k == 2:
        return Fraction(rng.randint(-720, 720), 4)
    return Fraction(rng.uniform(-1.0, 1.0) * 10.0 ** rng.randint(-9, 3))


def two_sorted(rng):
    a, b = rsize(rng), rsize(rng)
    while float(a) == float(b):
        b = rsize(rng)
    return (a, b) if a < b else (b, a)


def gen_region(rng, cls, sky=False):
    s = {'cls': cls, 'sky': sky, 'xs': [frac(rcoord(rng))], 'ys': [frac(rcoord(rng))], 'params': [],
         'angle': None, 'incl': 'absent', 'comp': None}
    if sky:
        s['xs'] = [frac(Fraction(rng.randint(0, 359)))]
        s['ys'] = [frac(Fraction(rng.randint(-80, 80)))]
        s['params'] = [frac(Fraction(rng.randint(1, 50))), frac(Fraction(rng.randint(1, 50)))]
        s['angle'] = frac(Fraction(rng.randint(0, 90)))
        return s
    if cls in ('circle', 'compound'):
        s['params'] = [frac(rsize(rng))]
    elif cls in ('ellipse', 'rectangle'):
        s['params'] = [frac(rsize(rng)), frac(rsize(rng))]
        s['angle'] = frac(rangle(rng))
    elif cls == 'circleAnnulus':
        s['params'] = [frac(v) for v in two_sorted(rng)]
    elif cls in ('ellipseAnnulus', 'rectangleAnnulus'):
        iw, ow = two_sorted(rng)
        ih, oh = two_sorted(rng)
        s['params'] = [frac(iw), frac(ow), frac(ih), frac(oh)]
        s['angle'] = frac(rangle(rng))
    elif cls == 'polygon':
        n = rng.choice([3, 3, 4, 4, 5, 6, 7, 9])
        s['xs'] = [frac(rcoord(rng)) for _ in range(n)]
        s['ys'] = [frac(rcoord(rng)) for _ in range(n)]
        if rng.random() < 0.15:      # a polygon that genuinely ends at the origin
            s['xs'][-1] = '0'
            s['ys'][-1] = '0'
    elif cls == 'regularPolygon':
        s['nvertices'] = rng.choice([3, 4, 5, 6, 8])
        s['params'] = [frac(rsize(rng))]
        s['angle'] = frac(rangle(rng))
    return s


def intify(rng, s, ntype):
    """give the region integer-typed parameters: exact small integers that every carrier can hold."""
    if s['sky'] or s['cls'] not in REPRESENTABLE:
        return s
    s['ntype'] = ntype
    lo = 0 if ntype == 'uint8' else -100
    s['xs'] = [str(rng.randint(lo, 120)) for _ in s['xs']]
    s['ys'] = [str(rng.randint(lo, 120)) for _ in s['ys']]
    k = len(s['params'])
    if s['cls'] == 'circleAnnulus':
        a = rng.randint(1, 60)
        s['params'] = [str(a), str(a + rng.randint(1, 60))]
    elif s['cls'] == 'ellipseAnnulus':
        a, b = rng.randint(1, 60), rng.randint(1, 60)
        s['params'] = [str(a), str(a + rng.randint(1, 60)), str(b), str(b + rng.randint(1, 60))]
    else:
        s['params'] = [str(rng.randint(1, 120)) for _ in range(k)]
    return s


def fractional(rng, s):
    """make sure centre and sizes of a float-typed region are NOT integers (k + odd/8)."""
    def nz(v):
        q = Fraction(v)
        return frac(q if q.denominator != 1 else q + Fraction(rng.choice([1, 3, 5, 7]), 8))
    s['xs'] = [nz(v) for v in s['xs']]
    s['ys'] = [nz(v) for v in s['ys']]
    if s['cls'] in ('circle', 'ellipse', 'rectangle'):
        s['params'] = [nz(v) for v in s['params']]
    return s


def gen_carrier_list(rng):
    """numeric carrier types: ONE list mixing integer-typed rows (Python int, numpy int64/int32/int16/uint8)
    with fractional float rows; the widest X/Y cell (a polygon) and/or the widest R cell (an annulus, a
    box/ellipse) is integer-typed and comes first / last / in the middle."""
    narrow = [fractional(rng, gen_region(rng, rng.choice(['point', 'circle', 'ellipse', 'rectangle', 'circle', 'point'])))
              for _ in range(rng.randint(1, 4))]
    wide = []
    what = rng.choice(['poly', 'poly', 'annulus', 'both', 'both', 'sizes'])
    if what in ('poly', 'both'):
        wide.append(intify(rng, gen_region(rng, 'polygon'), rng.choice(NTYPES)))
    if what in ('annulus', 'both'):
        wide.append(intify(rng, gen_region(rng, rng.choice(['circleAnnulus', 'ellipseAnnulus'])), rng.choice(NTYPES)))
    if what == 'sizes':       # widest R cell = an int-typed ellipse / box, narrower R = a fractional circle
        wide.append(intify(rng, gen_region(rng, rng.choice(['ellipse', 'rectangle'])), rng.choice(NTYPES)))
        narrow = [fractional(rng, gen_region(rng, rng.choice(['circle', 'point', 'circle']))) for _ in range(rng.randint(1, 3))]
    if rng.random() < 0.3:    # a second, float-typed polygon of the same or smaller length (never the first-widest)
        pass
    order = rng.choice(['first', 'last', 'middle'])
    if order == 'first':
        specs = wide + narrow
    elif order == 'last':
        specs = narrow + wide
    else:
        k = rng.randint(0, len(narrow))
        specs = narrow[:k] + wide + narrow[k:]
    if rng.random() < 0.4:
        for s in specs:
            if rng.random() < 0.5:
                s['comp'] = rng.randint(1, 9)
    if rng.random() < 0.3:
        for s in specs:
            if s['cls'] in ('point', 'circle', 'polygon'):
                s['incl'] = rng.choice(['absent', 'false', '0'])
    return {'kind': 'list', 'regions': specs}


def gen_list(rng, n=None):
    n = n or rng.randint(1, 8)
    mode = rng.choice(['clean', 'clean', 'mixed', 'mixed', 'polyheavy', 'same'])
    specs = []
    same_cls = rng.choice(REPRESENTABLE)
    for _ in range(n):
        u = rng.random()
        if u < 0.10:
            if rng.random() < 0.4:
                specs.append(gen_region(rng, rng.choice(['circle', 'point', 'rectangle']), sky=True))
            else:
                specs.append(gen_region(rng, rng.choice(UNREPRESENTABLE)))
            continue
        if mode == 'same':
            cls = same_cls
        elif mode == 'polyheavy':
            cls = rng.choice(['polygon', 'polygon', 'regularPolygon', 'circle', 'point', 'ellipseAnnulus'])
        else:
            cls = rng.choice(REPRESENTABLE)
        specs.append(gen_region(rng, cls))
    # numeric carrier of the parameters: floats / some rows integer-typed / all rows integer-typed
    nmode = rng.choice(['float', 'float', 'float', 'float', 'mixed', 'mixed', 'allint'])
    if nmode != 'float':
        one_nt = rng.choice(NTYPES)
        for s in specs:
            if nmode == 'allint' or rng.random() < 0.4:
                intify(rng, s, one_nt if rng.random() < 0.5 else rng.choice(NTYPES))
    # angular units: all degrees / one other unit for the whole list / mixed within the list
    umode = rng.choice(['deg', 'deg', 'deg', 'one', 'mixed', 'mixed', 'mixed'])
    one = rng.choice(ANGLE_UNITS)
    for s in specs:
        if s.get('angle') is not None and not s['sky']:
            if umode == 'one':
                s['aunit'] = one
            elif umode == 'mixed':
                s['aunit'] = rng.choice(ANGLE_UNITS)
            else:
                s['aunit'] = 'deg'
    # include
    imode = rng.choice(['absent', 'truthy', 'mixed', 'mixed', 'simple_excl'])
    for s in specs:
        if imode == 'truthy':
            s['incl'] = rng.choice(['absent', 'true', '1'])
        elif imode == 'mixed':
            s['incl'] = rng.choice(['absent', 'absent', 'true', 'false', '0', '1'])
        elif imode == 'simple_excl':     # exclusion only on classes whose FITS name is the class name
            if s['cls'] in ('point', 'circle', 'polygon', 'regularPolygon'):
                s['incl'] = rng.choice(['absent', 'false', '0', 'true'])
    # component
    cmode = rng.choice(['absent', 'absent', 'ints', 'partial', 'partial'])
    for s in specs:
        if cmode == 'ints' or (cmode == 'partial' and rng.random() < 0.5):
            s['comp'] = rng.choice([rng.randint(1, 9), rng.randint(-3, 12), rng.randint(0, 10 ** 6)])
    return {'kind': 'list', 'regions': specs}


def cell(vals, scalar=False):
    if scalar:
        return {'s': frac(vals[0])}
    return {'v': [frac(v) for v in vals]}


def lattice(rng, lo=-400, hi=4000):
    return Fraction(rng.randint(lo, hi), 8)


TABLE_SHAPES = ['point', 'circle', 'ellipse', 'annulus', 'elliptannulus', 'box', 'rotbox', 'rectangle',
                'rotrectangle', 'polygon']


def gen_table(rng, malformed=False):
    n = rng.randint(1, 6)
    notation = rng.choice(['rect', 'rect', 'any', 'any', 'single'])
    shapes = []
    one = rng.choice(TABLE_SHAPES)
    for _ in range(n):
        if notation == 'rect':
            shapes.append(rng.choice(['box', 'rotbox', 'rectangle', 'rotrectangle']))
        elif notation == 'single':
            shapes.append(one)
        else:
            shapes.append(rng.choice(TABLE_SHAPES))
    wx = rng.choice([2, 2, 3, 4, 6])
    wr = rng.choice([4, 4, 5])
    if notation == 'single' and one in ('point', 'circle') and rng.random() < 0.5:
        wx = 1
        wr = 1
    rows = []
    for sh in shapes:
        x = [lattice(rng) for _ in range(wx)]
        y = [lattice(rng) for _ in range(wx)]
        r = [Fraction(rng.randint(1, 800), 8) for _ in range(wr)]
        if sh in ('rectangle', 'rotrectangle') and wx > 1:
            x[1] = x[0] + Fraction(rng.randint(1, 800), 8)
            y[1] = y[0] + Fraction(rng.randint(1, 800), 8)
        if sh == 'annulus' and wr > 1:
            r[0], r[1] = sorted([r[0], r[1] + (1 if r[0] == r[1] else 0)])
        if sh == 'elliptannulus' and wr > 3:
            r[0], r[1] = sorted([r[0], r[1] + (1 if r[0] == r[1] else 0)])
            r[2], r[3] = sorted([r[2], r[3] + (1 if r[2] == r[3] else 0)])
        if sh not in ('polygon',) and rng.random() < 0.5:   # padded like a written table
            k = {'rectangle': 2, 'rotrectangle': 2}.get(sh, 1)
            x[k:] = [Fraction(0)] * (wx - k)
            y[k:] = [Fraction(0)] * (wx - k)
        name = sh
        if rng.random() < 0.25:
            name = '!' + name
        if rng.random() < 0.2:
            name = name.upper()
        rows.append({'shape': name, 'x': cell(x, wx == 1), 'y': cell(y, wx == 1), 'r': cell(r, wr == 1),
                     'rotang': cell([rangle(rng)], True), 'component': rng.randint(1, 20)})
    cols = ['SHAPE', 'X', 'Y', 'R', 'ROTANG']
    if rng.random() < 0.4:
        cols.append('COMPONENT')
    if rng.random() < 0.3:
        rng.shuffle(cols)
    runit = rng.choice(['deg', 'deg', 'deg', 'rad', 'arcmin', 'arcsec'])
    units = {'X': 'pix', 'Y': 'pix', 'R': 'pix', 'ROTANG': runit}
    if rng.random() < 0.15:
        units = {'X': None, 'Y': None, 'R': None, 'ROTANG': runit}
    if malformed:
        what = rng.choice(['badshape', 'unsupported', 'dropcol', 'extracol', 'negsize', 'noshape', 'shortx', 'emptyname'])
        row = rng.choice(rows)
        if what == 'badshape':
            row['shape'] = rng.choice(['circleannulus', 'ellipseannulus', 'foo', '!!circle', ' circle', 'rot box'])
        elif what == 'unsupported':
            row['shape'] = rng.choice(['pie', 'SECTOR', '!diamond', 'rhombus', 'rotdiamond', 'rotrhombus'])
        elif what == 'dropcol':
            cols.remove(rng.choice(['X', 'Y', 'R', 'ROTANG']))
        elif what == 'extracol':
            cols.append(rng.choice(['Z', 'COMPONENTS', 'shape', 'x']))
        elif what == 'negsize':
            c = row['r']
            if 'v' in c:
                c['v'][rng.randrange(min(2, len(c['v'])))] = frac(Fraction(rng.choice([0, -1, -5]), 1))
            else:
                c['s'] = '0'
        elif what == 'noshape':
            cols.remove('SHAPE')
        elif what == 'shortx':
            for r_ in rows:
                r_['x'] = {'s': r_['x']['s']} if 's' in r_['x'] else {'s': r_['x']['v'][0]}
                r_['y'] = {'s': r_['y']['s']} if 's' in r_['y'] else {'s': r_['y']['v'][0]}
        elif what == 'emptyname':
            row['shape'] = rng.choice(['', '!'])
    return {'kind': 'table', 'malformed': bool(malformed), 'table': {'cols': cols, 'rows': rows, 'units': units}}


# ------------------------------------------------------------------ the check

class Check(PropertyCheck):
    id = 'C12'
    lean_targets = ['RegionsVerif.Props.C12']
    namespaces = ['RegionsVerif.Props.C12']
    parallel = True
    _scratch = None            # base directory of the per-worker scratch files (set by generate())
    rule = ('lists of 1..8 regions drawn from the 8 FITS-representable pixel classes (point, circle, ellipse, circle/'
            'ellipse annulus, rotated rectangle, polygon with 3..9 vertices, regular polygon) mixed so that X/Y/R need '
            'padding, plus ~10% unrepresentable ones (sky regions, line, text, rectangle annulus, compound); '
            'coordinates/sizes/angles: dyadic lattice, random doubles, integers, zeros, magnitudes 1e-8..1e8; '
            'numeric carriers of centres/vertices/radii/widths/heights: float, Python int, numpy int64/int32/int16/uint8 '
            '(exact small integers), all-float / all-int / mixed within ONE list, incl. lists whose widest X/Y cell '
            '(an integer-typed polygon) or widest R cell (an integer-typed annulus/box/ellipse) comes first, last or in '
            'the middle of rows with non-integral centres and sizes; '
            'rotation angles in deg/rad/arcmin/arcsec/hourangle: all degrees, one unit per list, or mixed within the list '
            '(first row with no angle / with another unit than the rest); '
            'include in {absent, True, False, 0, 1} (per-list modes), component in {absent, ints (duplicates allowed), '
            'partially present}; every list goes through the in-memory table AND a real file: one fixed scratch path per '
            'worker, reused by all cases; each case writes list A, reads it, overwrites the SAME path with a different '
            'list B (overwrite=True) and reads again - both reads must equal the in-memory parse(serialize()); '
            'reader side: tables in box/rotbox/rectangle/rotrectangle and all other notations, padded or not, '
            'upper case, with/without COMPONENT, shuffled columns, and a malformed stream (unknown/unsupported '
            'shape names, missing/extra columns, non-positive sizes, too-short vectors, empty names). '
            'Non-trivial = at least one region is written / at least one row is parsed.')
    assumptions = [
        'astropy file layer (BinTableHDU.writeto, fits.open, QTable.read) returns the table that was written '
        '(checked on every case: the table read back is compared cell by cell) and raises TypeError for an '
        'object-dtype column',
        'astropy converts an angle between units by ONE multiplication with the ratio of the unit scales '
        '(Quantity.to_value); the model uses the exact ratio of the scales astropy reports, and wherever such a '
        'conversion happened (an angle not given in degrees: the writer stores ROTANG in degrees) the value is '
        'compared to 1e-12 relative instead of exactly; same-unit values are compared exactly',
        'x/2 and 2x are exact in binary floating point (no under/overflow in the generated range)',
        'the regular polygon enters through its `vertices` attribute (computed by its constructor with float trig)',
        'reading: "fresh, distinct ones otherwise" is read as: when no region of the list carries a component, '
        'no COMPONENT column is written and none comes back',
    ]
    validated_only = [
        'the astropy file layer law itself (table in = table out; object columns are not writable) - a hypothesis '
        'of the file theorems, validated on every generated case',
        'AstropyUserWarning texts/categories of the skipped regions (compared with the model on every case)',
        'pixel units of X/Y/R and an angular unit on ROTANG (oracle on every case); astropy Quantity unit conversion '
        'itself (a parameter: value x ratio of scales; validated to 1e-12 relative wherever it happens)',
        'reading conventions for shapes other than the box family are tied to the model by the correspondence '
        'run and to the property by the round-trip/fixed-point theorems only',
    ]

    # ---------------------------------------------------------------- tie T: tables from the live source
    def translate(self):
        problems = []
        try:
            text = self._gen_tables()
        except Exception as e:      # pragma: no cover
            return [f'cannot extract the FITS tables from the source: {type(e).__name__}: {e}']
        old = open(GEN_PATH).read() if os.path.exists(GEN_PATH) else None
        if old != text:
            os.makedirs(os.path.dirname(GEN_PATH), exist_ok=True)
            tmp = GEN_PATH + f'.{os.getpid()}.tmp'
            with open(tmp, 'w') as f:
                f.write(text)
            os.replace(tmp, GEN_PATH)
        return problems

    @staticmethod
    def _literal(src_path, func, name):
        tree = ast.parse(open(src_path).read())
        for node in ast.walk(tree):
            if isinstance(node, ast.FunctionDef) and node.name == func:
                for sub in ast.walk(node):
                    if isinstance(sub, ast.Assign) and any(isinstance(t, ast.Name) and t.id == name for t in sub.targets):
                        return ast.literal_eval(sub.value)
        raise LookupError(f'{name} not found in {func} of {src_path}')

    def _gen_tables(self):
        import regions.io.fits.core as core
        import regions.io.fits.read as rd
        import regions.io.fits.write as wr

        def s(x):
            return '"' + str(x).replace('\\', '\\\\').replace('"', '\\"') + '"'

        def lst(xs):
            return '[' + ', '.join(xs) + ']'
        shape_map = [(k, v[0].__name__, list(v[1])) for k, v in core.shape_map.items()]
        region_map = self._literal(wr.__file__, '_serialize_region_fits', 'region_map')
        unsupported_regions = self._literal(wr.__file__, '_serialize_region_fits', 'unsupported_regions')
        unsupported_shapes = self._literal(rd.__file__, 'get_shape', 'unsupported_shapes')
        valid_columns = self._literal(rd.__file__, 'parse_table', 'valid_columns')
        out = ['/- GENERATED on every run by harness/c12.py from the live regions.io.fits sources. Do not edit. -/',
               'namespace RegionsVerif.Gen.FitsTables',
               'def shapeMap : List (String × String × List String) :=',
               '  ' + lst(['(' + s(k) + ', ' + s(c) + ', ' + lst([s(x) for x in cols]) + ')' for k, c, cols in shape_map]),
               'def regionMap : List (String × String) :=',
               '  ' + lst(['(' + s(k) + ', ' + s(v) + ')' for k, v in region_map.items()]),
               'def unsupportedRegions : List String := ' + lst([s(x) for x in unsupported_regions]),
               'def unsupportedShapes : List String := ' + lst([s(x) for x in unsupported_shapes]),
               'def validColumns : List String := ' + lst([s(x) for x in valid_columns]),
               'end RegionsVerif.Gen.FitsTables', '']
        return '\n'.join(out)

    # ---------------------------------------------------------------- generation
    def generate(self, rng, tier):
        cases = []
        n_lists = 1300 if tier == 'quick' else 40000
        n_tables = 350 if tier == 'quick' else 8000
        n_bad = 150 if tier == 'quick' else 3000
        # every class alone x every include value x component given/absent (single rows: no padding at all)
        for cls in REPRESENTABLE + UNREPRESENTABLE:
            for incl in ('absent', 'true', 'false', '0', '1'):
                s = gen_region(rng, cls)
                s['incl'] = incl
                if rng.random() < 0.5:
                    s['comp'] = rng.randint(1, 5)
                cases.append({'kind': 'list', 'regions': [s]})
        for _ in range(n_lists):
            cases.append(gen_list(rng))
        for _ in range(250 if tier == 'quick' else 6000):
            cases.append(gen_carrier_list(rng))
        for _ in range(n_tables):
            cases.append(gen_table(rng))
        for _ in range(n_bad):
            cases.append(gen_table(rng, malformed=True))
        # the file clause as a SEQUENCE on one path: list A is written and read, then a different list B (drawn from
        # the same generators: other length / classes / flags / components) is written over it and read
        for c in cases:
            if c['kind'] == 'list':
                b = gen_carrier_list(rng) if rng.random() < 0.15 else gen_list(rng)
                c['regions_b'] = b['regions']
        self._scratch = new_scratch_base()
        return cases

    # ---------------------------------------------------------------- real
    def real(self, case):
        if case['kind'] == 'table':
            return self._real_table(case)
        specs = case['regions']
        regs = [build_region(s) for s in specs]
        inputs = [canon_region(r) for r in regs]       # the input objects as the writer sees them
        t, ws, parsed, objs = _roundtrip_memory(regs)
        table, units = canon_table(t)
        out = {'inputs': inputs, 'table': table, 'units': units, 'warnings': ws, 'parsed': parsed}
        fn = scratch_path(self._scratch, 'regions.fits')
        fres, stage, back = _roundtrip_file(regs, fn)
        out['file'] = fres
        out['file_stage'] = stage
        out['file_table_same'] = None if back is None else (back[0] == dict(table, comp_object=False)
                                                             and (not table['rows'] or back[1] == units))
        # parse -> serialize -> parse
        if objs is not None:
            t2, _ = _serialize(list(objs))
            out['again'], _ = _parse(t2)
        else:
            out['again'] = None
            # isolate the regions that cannot make the trip on their own, then try the others together
            culprits = []
            for i, r in enumerate(regs):
                _, _, res1, _ = _roundtrip_memory([r])
                if 'err' in res1:
                    culprits.append(i)
            out['culprits'] = culprits
            rest = [r for i, r in enumerate(regs) if i not in culprits]
            _, _, out['parsed_rest'], _ = _roundtrip_memory(rest)
        # the SAME path rewritten with another list and read again
        regs_b = [build_region(s) for s in second_list(case)]
        _, _, out['parsed_b'], _ = _roundtrip_memory(regs_b)
        out['file_b'], out['file_b_stage'], _ = _roundtrip_file(regs_b, fn)
        # the inputs must not have been changed by all this (cheap guard; C13 owns the full claim)
        after = [canon_region(r) for r in regs]
        out['inputs_unchanged'] = after == inputs
        return out

    def _real_table(self, case):
        from astropy.io import fits
        from regions import Regions
        spec = case['table']
        t = build_table(spec)
        parsed, objs = _parse(t)
        out = {'parsed': parsed}
        if objs is not None:
            t2, _ = _serialize(list(objs))
            out['again'], _ = _parse(t2)
        else:
            out['again'] = None
        # the same table through a real file with other HDUs around it
        fn = scratch_path(self._scratch, 'table.fits')      # one name per worker, rewritten by every table case
        try:
            # first a sentinel table on the same path (written and READ), then the case's table over it
            import astropy.units as u
            from astropy.table import QTable
            sent = QTable({'SHAPE': ['point'], 'X': [-12345.5] * u.pix, 'Y': [54321.25] * u.pix})
            fits.HDUList([fits.PrimaryHDU(), fits.BinTableHDU(data=sent, header=fits.Header({'EXTNAME': 'REGION'}))]
                         ).writeto(fn, overwrite=True)
            with warnings.catch_warnings():
                warnings.simplefilter('ignore')
                r0 = Regions.read(fn, format='fits')
            out['sentinel'] = [canon_region(r) for r in r0]
            hdus = [fits.PrimaryHDU(), fits.ImageHDU(np.zeros((2, 2)), name='IMAGE'),
                    fits.BinTableHDU(data=t, header=fits.Header({'EXTNAME': 'REGION'}))]
            fits.HDUList(hdus).writeto(fn, overwrite=True)
            with warnings.catch_warnings():
                warnings.simplefilter('ignore')
                regs2 = Regions.read(fn, format='fits')
            out['file'] = {'ok': [canon_region(r) for r in regs2]}
        except Exception as e:
            out['file'] = {'err': type(e).__name__, 'msg': str(e)[:200]}
        return out

    # ---------------------------------------------------------------- model
    @staticmethod
    def _model_region(spec, inp):
        """the writer-visible record sent to the model (for a regular polygon: its `vertices`)."""
        geo = not spec['sky'] and spec['cls'] in REPRESENTABLE
        return {'kind': spec['cls'], 'sky': bool(spec['sky']),
                'xs': inp['xs'] if geo else [], 'ys': inp['ys'] if geo else [],
                'params': inp['params'] if geo and spec['cls'] != 'regularPolygon' else [],
                'angle': inp['angle'] if geo and spec['cls'] != 'regularPolygon' else None,
                'incl': {'absent': 'absent', 'true': True, 'false': False, '0': 0, '1': 1}[spec['incl']],
                'comp': spec['comp'],
                'aunit': unit_info(inp['aunit']) if geo and spec['cls'] != 'regularPolygon' and inp['aunit'] else None}

    def _variant(self):
        v = os.environ.get('C12_VARIANT')      # testing aid only: "1,1,1,1,1" = model of the fully patched code
        return None if not v else [x.strip() == '1' for x in v.split(',')]

    def requests(self, case):
        req = {}
        if case['kind'] == 'table':
            t = case['table']
            req = {'op': 'fits.parse', 'table': {'cols': t['cols'], 'rows': t['rows'],
                                                 'rotang_unit': unit_info(t['units'].get('ROTANG') or 'deg')}}
        else:
            regs = []
            for s in case['regions']:
                geo = not s['sky'] and s['cls'] in REPRESENTABLE
                inp = canon_region(build_region(s)) if geo else None
                regs.append(self._model_region(s, inp))
            req = {'op': 'fits.roundtrip', 'regions': regs}
        if self._variant():
            req['variant'] = self._variant()
        return [req]

    @staticmethod
    def _norm_regs(res):
        if res is None:
            return None
        if 'err' in res:
            return {'err': res['err']}
        out = []
        for r in res['ok']:
            incl = r['incl']
            if isinstance(incl, str) and incl != 'absent':
                incl = int(incl)
            out.append({'kind': r['kind'], 'xs': r['xs'], 'ys': r['ys'], 'params': r['params'], 'angle': r['angle'],
                        'aunit': r.get('aunit'), 'incl': incl, 'comp': None if r['comp'] is None else int(r['comp'])})
        return {'ok': out}

    def model(self, case, replies):
        r = replies[0]
        if 'fail' in r:
            return {'fail': r['fail']}
        if case['kind'] == 'table':
            return {'parsed': self._norm_regs(r['parsed']), 'again': self._norm_regs(r['again'])}
        t = r['table']
        for row in t['rows']:
            if 'component' in row:
                row['component'] = int(row['component'])
        return {'table': t, 'warnings': r['warnings'], 'parsed': self._norm_regs(r['parsed']),
                'file': self._norm_regs(r['file'])}

    @staticmethod
    def _regs_equal(a, b, tol_rows):
        """exact, except the angle VALUE of the rows in tol_rows (astropy converted it: one float rounding)."""
        if a is None or b is None or 'err' in a or 'err' in b:
            return a == b
        if len(a['ok']) != len(b['ok']):
            return False
        for i, (x, y) in enumerate(zip(a['ok'], b['ok'])):
            if tol_rows is True or i in tol_rows:
                if dict(x, angle=None) != dict(y, angle=None) or not close(x['angle'], y['angle']):
                    return False
            elif x != y:
                return False
        return True

    @staticmethod
    def _converted_rows(case):
        """indices (among the written regions) whose ROTANG value astropy converts, and the column unit.
        The writer stores every angle in degrees (F122 repaired), so these are the angles not given in degrees.
        (C12_VARIANT=..,0 as fifth flag = the code before that repair: the column takes the first row's unit.)"""
        w = [s for s in case['regions'] if not s['sky'] and s['cls'] in REPRESENTABLE]
        if not w:
            return set(), None
        has = lambda s: s['cls'] in HAS_ANGLE
        col = 'deg'
        v = os.environ.get('C12_VARIANT', '').split(',')
        if len(v) == 5 and v[4].strip() == '0':
            col = (w[0].get('aunit') or 'deg') if has(w[0]) else 'deg'
        return {i for i, s in enumerate(w) if has(s) and (s.get('aunit') or 'deg') != col}, col

    def equal(self, case, real, model):
        if 'fail' in model:
            return False
        strip = self._norm_regs
        if case['kind'] == 'table':
            return (strip(real['parsed']) == model['parsed']
                    and self._regs_equal(strip(real['again']), model['again'], True)
                    and strip(real['file']) == model['parsed'])
        conv, _ = self._converted_rows(case)
        rt, mt = real['table'], model['table']
        if (rt['cols'], rt['comp_object'], rt['rotang_unit'], len(rt['rows'])) != \
                (mt['cols'], mt['comp_object'], mt['rotang_unit'], len(mt['rows'])):
            return False
        for i, (a, b) in enumerate(zip(rt['rows'], mt['rows'])):
            if i in conv:
                if dict(a, rotang=None) != dict(b, rotang=None) or list(a['rotang']) != list(b['rotang']) or \
                        not close(a['rotang'].get('s'), b['rotang'].get('s')):
                    return False
            elif a != b:
                return False
        return (real['warnings'] == model['warnings']
                and self._regs_equal(strip(real['parsed']), model['parsed'], conv)
                and self._regs_equal(strip(real['file']), model['file'], conv))

    # ---------------------------------------------------------------- oracle (the property, first principles)
    @staticmethod
    def _excluded_in(spec):
        return spec['incl'] in ('false', '0')

    @staticmethod
    def _excluded_out(reg):
        v = reg['incl']
        return False if v == 'absent' else (not bool(v))

    def _check_trip(self, specs, inputs, res, where, V, note=''):
        """specs/inputs: the regions that must be written (already without the skipped ones)."""
        given = [s['comp'] for s in specs]
        any_comp = any(c is not None for c in given)
        partial = any_comp and any(c is None for c in given)
        npoly = [len(i['xs']) for s, i in zip(specs, inputs) if s['cls'] in ('polygon', 'regularPolygon')]
        wpoly = max(npoly) if npoly else 0

        def bad(kind, detail, i=None, **kw):
            v = {'kind': kind, 'where': where, 'detail': f'{note}{where}: {detail}', 'any_comp': any_comp,
                 'partial_comp': partial}
            if i is not None:
                v.update(index=i, cls=specs[i]['cls'], excluded=self._excluded_in(specs[i]), incl=specs[i]['incl'],
                         comp=specs[i]['comp'])
            v.update(kw)
            V.append(v)
        if 'err' in res:
            return False
        out = res['ok']
        if len(out) != len(specs):
            bad('count_changed', f'{len(specs)} regions written, {len(out)} read')
            return True
        for i, (s, inp, o) in enumerate(zip(specs, inputs, out)):
            want_kind = 'polygon' if s['cls'] == 'regularPolygon' else s['cls']
            if o['kind'] != want_kind:
                bad('class_changed', f'#{i} {s["cls"]} came back as {o["kind"]}', i)
                continue
            want_angle = inp['angle'] if s['cls'] in HAS_ANGLE else None
            # the angle is compared by VALUE in degrees (exact product with astropy's unit scale), 1e-12 relative
            angle_ok = (o['angle'] is None) == (want_angle is None) and (
                want_angle is None or close(frac(degrees(o['angle'], o['aunit'])), frac(degrees(want_angle, inp['aunit']))))
            if (o['xs'], o['ys'], o['params']) != (inp['xs'], inp['ys'], inp['params']) or not angle_ok:
                sig = 'other'
                if (o['xs'], o['ys'], o['params']) == (inp['xs'], inp['ys'], inp['params']):
                    sig = 'angle_changed'
                if o['xs'] == inp['xs'] and o['ys'] == inp['ys'] and angle_ok and \
                        o['params'] == [frac(2 * F(p)) for p in inp['params']]:
                    sig = 'sizes_doubled'
                n = len(inp['xs'])
                if want_kind == 'polygon' and len(o['xs']) == wpoly > n and o['xs'][:n] == inp['xs'] and \
                        o['ys'][:n] == inp['ys'] and set(o['xs'][n:]) | set(o['ys'][n:]) == {'0'}:
                    sig = 'zero_padded'
                bad('geometry_changed', f'#{i} {s["cls"]} incl={s["incl"]}: wrote {inp["xs"][:3]}.. {inp["params"]} '
                    f'{want_angle} {inp["aunit"]}, read {o["xs"][:9]} {o["ys"][:9]} {o["params"]} {o["angle"]} {o["aunit"]}', i, sig=sig)
            if self._excluded_out(o) != self._excluded_in(s):
                bad('exclude_lost' if self._excluded_in(s) else 'exclude_gained',
                    f'#{i} {s["cls"]} include={s["incl"]} came back with include={o["incl"]} (component={o["comp"]})', i)
            if s['comp'] is not None and o['comp'] != s['comp']:
                bad('component_changed', f'#{i} component {s["comp"]} came back as {o["comp"]}', i)
        if any_comp:
            outc = [o['comp'] for o in out]
            gset = {c for c in given if c is not None}
            for i, (g, c) in enumerate(zip(given, outc)):
                if g is None:
                    if c is None or c in gset or outc.count(c) != 1:
                        bad('component_not_fresh', f'#{i} had no component, got {c}; given={sorted(gset)} all={outc}', i)
        else:
            if any(o['comp'] is not None for o in out) and len({o['comp'] for o in out}) != len(out):
                bad('component_not_fresh', f'no component given, read {[o["comp"] for o in out]}')
        return True

    def oracle(self, case, real):
        V = []
        if case['kind'] == 'table':
            return self._oracle_table(case, real)
        specs = case['regions']
        keep = [i for i, s in enumerate(specs) if not s['sky'] and s['cls'] in REPRESENTABLE]
        wspecs = [specs[i] for i in keep]
        winputs = [real['inputs'][i] for i in keep]
        given = [s['comp'] for s in wspecs]
        any_comp = any(c is not None for c in given)
        partial = any_comp and any(c is None for c in given)
        if not real['inputs_unchanged']:
            V.append({'kind': 'inputs_mutated', 'detail': 'a region object changed during serialize/parse/write/read'})
        # skipped regions: one warning each, nothing else
        want_w = sum(1 for s in specs if s['sky'] or s['cls'] not in REPRESENTABLE)
        if len(real['warnings']) != want_w or any(w.startswith('other:') for w in real['warnings']):
            V.append({'kind': 'skip_warnings', 'detail': f'{want_w} regions must be skipped with a warning each, got {real["warnings"]}'})
        # table shape: one row per written region, pixel/degree units
        if len(real['table']['rows']) != len(wspecs):
            V.append({'kind': 'row_count', 'detail': f'{len(wspecs)} representable regions, {len(real["table"]["rows"])} rows'})
        if wspecs and ({k: real['units'].get(k) for k in 'XYR'} != {'X': 'pix', 'Y': 'pix', 'R': 'pix'}
                       or real['units'].get('ROTANG') not in ANGLE_UNITS):
            V.append({'kind': 'table_units', 'detail': str(real['units'])})
        # leading '!' <=> excluded
        for s, row in zip(wspecs, real['table']['rows']):
            if row.get('shape', '').startswith('!') != self._excluded_in(s):
                V.append({'kind': 'bang_flag', 'detail': f'{s["cls"]} include={s["incl"]} written as {row.get("shape")}'})
        # in memory
        if not self._check_trip(wspecs, winputs, real['parsed'], 'memory', V):
            cul = real.get('culprits', [])
            if not cul:
                V.append({'kind': 'roundtrip_raised', 'where': 'memory', 'cls': None, 'excluded': None,
                          'detail': f'parse of the serialized table raised {real["parsed"]} and no single region explains it'})
            for i in cul:
                s = specs[i]
                V.append({'kind': 'roundtrip_raised', 'where': 'memory', 'index': i, 'cls': s['cls'],
                          'excluded': self._excluded_in(s), 'incl': s['incl'], 'alone': True,
                          'detail': f'#{i} {s["cls"]} include={s["incl"]} cannot make the trip even alone; '
                                    f'whole list: {real["parsed"].get("err")}: {real["parsed"].get("msg")}'})
            keep2 = [i for i in keep if i not in cul]
            if cul and not self._check_trip([specs[i] for i in keep2], [real['inputs'][i] for i in keep2],
                                            real['parsed_rest'], 'memory', V, note='(without the unreadable ones) '):
                V.append({'kind': 'roundtrip_raised', 'where': 'memory', 'cls': None, 'excluded': None,
                          'detail': f'still raises without the regions that fail alone: {real["parsed_rest"]}'})
        # through the file
        if real['file_stage'] == 'write' and 'err' in real['file']:
            conv, col = self._converted_rows(case)
            V.append({'kind': 'file_write_failed', 'where': 'file', 'exc': real['file']['err'], 'any_comp': any_comp,
                      'partial_comp': partial, 'col_unit': col,
                      'col_unit_storable': None if col is None else unit_info(col)['fits'],
                      'detail': f'Regions.write raised {real["file"]["err"]}: {real["file"].get("msg")} '
                                f'(components given: {given})'})
        else:
            if real['file_table_same'] is False:
                V.append({'kind': 'file_layer', 'detail': 'the table read back from the file differs from the table written'})
            # what the file gives must be what memory gives
            strip = self._norm_regs
            if strip(real['file']) != strip(real['parsed']):
                V.append({'kind': 'file_differs_from_memory', 'where': 'file',
                          'detail': f'{strip(real["file"])} != {strip(real["parsed"])}'})
        # the same path rewritten (overwrite=True) with list B: the second read must give B, not A
        if 'file_b' in real:
            strip = self._norm_regs
            if real['file_b_stage'] == 'write' and 'err' in real['file_b']:
                V.append({'kind': 'file_write_failed', 'where': 'file (rewrite)', 'exc': real['file_b']['err'],
                          'detail': f'Regions.write(..., overwrite=True) of the second list raised '
                                    f'{real["file_b"]["err"]}: {real["file_b"].get("msg")}'})
            elif strip(real['file_b']) != strip(real['parsed_b']):
                stale = strip(real['file_b']) == strip(real['file'])
                V.append({'kind': 'file_differs_from_memory', 'where': 'file (rewritten path)', 'stale': stale,
                          'detail': ('the path was rewritten with another list and read again: the read gives '
                                     + ('the regions of the OLD file' if stale else 'something else')
                                     + f': {strip(real["file_b"])} != {strip(real["parsed_b"])}')[:1500]})
        # fixed point
        if real['again'] is not None and not self._same_by_value(real['again'], real['parsed']):
            V.append(self._fixed_point_violation(real['parsed'], real['again']))
        return V

    def _same_by_value(self, a, b):
        """two canonical results describe the same regions: everything exact, the angle by VALUE in degrees."""
        a, b = self._norm_regs(a), self._norm_regs(b)
        if a is None or b is None or 'err' in a or 'err' in b:
            return a == b
        if len(a['ok']) != len(b['ok']):
            return False
        return all(self._reg_same_by_value(x, y) for x, y in zip(a['ok'], b['ok']))

    @staticmethod
    def _reg_same_by_value(x, y):
        if dict(x, angle=None, aunit=None) != dict(y, angle=None, aunit=None):
            return False
        if (x['angle'] is None) != (y['angle'] is None):
            return False
        return x['angle'] is None or close(frac(degrees(x['angle'], x['aunit'])), frac(degrees(y['angle'], y['aunit'])))

    def _fixed_point_violation(self, parsed, again):
        p = parsed['ok']
        f8 = [r for r in p if self._excluded_out(r) and r['kind'] in F8_CLASSES]
        only_f8 = False
        if 'err' in again:
            only_f8 = any(r['kind'] in ('circleAnnulus', 'ellipseAnnulus', 'rectangle') for r in f8)
        elif len(again['ok']) == len(p):
            nr = self._norm_regs(parsed)['ok']
            na = self._norm_regs(again)['ok']
            diff = [i for i in range(len(p)) if not self._reg_same_by_value(nr[i], na[i])]
            only_f8 = bool(diff) and all(self._excluded_out(p[i]) and p[i]['kind'] in F8_CLASSES for i in diff)
        return {'kind': 'not_fixed_point', 'only_excluded_renamed_classes': only_f8,
                'detail': f'parse(serialize(parse(T))) != parse(T): {self._norm_regs(again)} vs {self._norm_regs(parsed)}'}

    def _oracle_table(self, case, real):
        V = []
        spec = case['table']
        strip = self._norm_regs
        if 'sentinel' in real and [(r['kind'], r['xs'], r['ys']) for r in real['sentinel']] != \
                [('point', ['-24691/2'], ['217285/4'])]:
            V.append({'kind': 'file_differs_from_memory', 'where': 'file (sentinel on the reused path)',
                      'detail': f'a one-point table written to the scratch path was read back as {real["sentinel"]}'})
        if strip(real['file']) != strip(real['parsed']):
            V.append({'kind': 'file_differs_from_memory', 'where': 'file',
                      'detail': f'{strip(real["file"])} != {strip(real["parsed"])}'})
        if 'err' in real['parsed']:
            return V
        if real['again'] is not None and not self._same_by_value(real['again'], real['parsed']):
            V.append(self._fixed_point_violation(real['parsed'], real['again']))
        out = real['parsed']['ok']
        cols = spec['cols']
        if case['malformed'] or len(out) != len(spec['rows']) or 'SHAPE' not in cols:
            return V
        has_comp = 'COMPONENT' in cols

        def col(row, name, i):
            c = row[name]
            vals = [c['s']] if 's' in c else c['v']
            return F(vals[i])
        for i, (row, o) in enumerate(zip(spec['rows'], out)):
            name = row['shape'].lower()
            excl = name.startswith('!')
            name = name.lstrip('!')
            if self._excluded_out(o) != excl:
                V.append({'kind': 'exclude_lost' if excl else 'exclude_gained', 'where': 'table', 'excluded': excl,
                          'any_comp': has_comp, 'cls': o['kind'],
                          'detail': f'row {i} {row["shape"]!r} read with include={o["incl"]} (COMPONENT column: {has_comp})'})
            if has_comp and o['comp'] != row['component']:
                V.append({'kind': 'component_changed', 'detail': f'row {i}: {row["component"]} read as {o["comp"]}'})
            if not has_comp and o['comp'] is not None:
                V.append({'kind': 'component_changed', 'detail': f'row {i}: no COMPONENT column, read {o["comp"]}'})
            want = None
            try:
                if name in ('box', 'rotbox'):
                    want = ([col(row, 'x', 0)], [col(row, 'y', 0)], [col(row, 'r', 0), col(row, 'r', 1)],
                            col(row, 'rotang', 0) if name == 'rotbox' else Fraction(0))
                elif name in ('rectangle', 'rotrectangle'):
                    x0, x1, y0, y1 = col(row, 'x', 0), col(row, 'x', 1), col(row, 'y', 0), col(row, 'y', 1)
                    want = ([(x0 + x1) / 2], [(y0 + y1) / 2], [x1 - x0, y1 - y0],
                            col(row, 'rotang', 0) if name == 'rotrectangle' else Fraction(0))
            except (IndexError, KeyError):
                want = None
            if want is not None:
                tunit = spec['units'].get('ROTANG') or 'deg'
                rotated = name in ('rotbox', 'rotrectangle')
                want = want[:3] + (degrees(frac(want[3]), tunit if rotated else 'deg'),)
                got = ([F(v) for v in o['xs']], [F(v) for v in o['ys']], [F(v) for v in o['params']],
                       None if o['angle'] is None else degrees(o['angle'], o['aunit']))
                if o['kind'] != 'rectangle' or got != want:
                    V.append({'kind': 'notation_misread', 'detail': f'row {i} {row}: expected rectangle {want}, got {o}'})
        return V

    # ---------------------------------------------------------------- findings
    def finding_match(self, f, v):
        fid = f['id']
        k = v.get('kind')
        if fid == 'F8':
            if k == 'roundtrip_raised':
                return bool(v.get('excluded')) and v.get('cls') in ('circleAnnulus', 'ellipseAnnulus', 'rectangle')
            if k == 'geometry_changed':
                return bool(v.get('excluded')) and ((v.get('cls') == 'ellipse' and v.get('sig') == 'sizes_doubled')
                                                    or v.get('cls') == 'rectangle')
            if k == 'not_fixed_point':
                return bool(v.get('only_excluded_renamed_classes'))
            return False
        if fid == 'F9':
            return k == 'exclude_lost' and bool(v.get('excluded')) and bool(v.get('any_comp'))
        if fid == 'F10':
            return k == 'geometry_changed' and v.get('cls') in ('polygon', 'regularPolygon') and v.get('sig') == 'zero_padded'
        if fid == 'F122':
            return k == 'file_write_failed' and v.get('exc') == 'UnitScaleError' and v.get('col_unit_storable') is False
        if fid == 'F121':
            return k == 'file_write_failed' and v.get('exc') == 'TypeError' and bool(v.get('partial_comp'))
        return False

    # ---------------------------------------------------------------- evidence helpers
    def nontrivial(self, case, real):
        if case['kind'] == 'table':
            return 'ok' in real['parsed'] and len(real['parsed']['ok']) > 0
        return len(real['table']['rows']) > 0

    def bucket(self, case, real):
        if case['kind'] == 'table':
            if case['malformed']:
                return 'table/malformed/' + ('raises' if 'err' in real['parsed'] else 'reads')
            names = {r['shape'].lower().lstrip('!') for r in case['table']['rows']}
            fam = 'boxfamily' if names <= {'box', 'rotbox', 'rectangle', 'rotrectangle'} else 'mixed'
            return 'table/' + fam + ('/component' if 'COMPONENT' in case['table']['cols'] else '')
        specs = [s for s in case['regions'] if not s['sky'] and s['cls'] in REPRESENTABLE]
        tags = []
        if any(self._excluded_in(s) and s['cls'] in F8_CLASSES for s in specs):
            tags.append('F8')
        comps = [s['comp'] for s in specs]
        if any(self._excluded_in(s) for s in specs) and any(c is not None for c in comps):
            tags.append('F9')
        n = [len(s['xs']) if s['cls'] == 'polygon' else s.get('nvertices') for s in specs if s['cls'] in ('polygon', 'regularPolygon')]
        if n and len(set(n)) > 1:
            tags.append('F10')
        if any(c is not None for c in comps) and any(c is None for c in comps):
            tags.append('F121')
        conv, col = self._converted_rows(case)
        w = [s for s in case['regions'] if not s['sky'] and s['cls'] in REPRESENTABLE]
        if w and w[0]['cls'] in HAS_ANGLE and not unit_info(w[0].get('aunit') or 'deg')['fits']:
            tags.append('hourangle-first')
        if conv:
            tags.append('unitmix')
        nts = {s.get('ntype') or 'float' for s in specs}
        if len(nts) > 1:
            tags.append('intmix')
        elif nts and nts != {'float'}:
            tags.append('allint')
        skipped = len(case['regions']) - len(specs)
        pad = 'padded' if len({s['cls'] for s in specs}) > 1 else 'uniform'
        return 'list/' + ('+'.join(tags) if tags else 'clean') + '/' + pad + ('/skips' if skipped else '')
