"""C05 — applying a mask to an image is exact placement at the bounding box."""
import math
from fractions import Fraction

import numpy as np

from .common import frac
from .runner import PropertyCheck

WEIGHTS = [0, 0, 1, 1, Fraction(1, 4), Fraction(1, 2), Fraction(3, 8), Fraction(15, 16), Fraction(-1, 2), -1, Fraction(1, 2 ** 40), Fraction(-1, 2 ** 40)]   # incl. negative weights (user-built kernels)
# (the last three are exact doubles that float16 / float32 cannot hold: a narrower result type rounds them)
FILLS = ['0', '0', '5/2', '-3', '7', '1/4', 'nan', 'inf', '-inf', '8193/4096', '-4097/2048', '33554433/16777216']


def val(s):
    if s == 'nan':
        return float('nan')
    if s == 'inf':
        return float('inf')
    if s == '-inf':
        return float('-inf')
    return float(Fraction(s))


def enc(v):
    v = float(v)
    if math.isnan(v):
        return 'nan'
    if math.isinf(v):
        return 'inf' if v > 0 else '-inf'
    return frac(Fraction(v))


def enc2(a):
    return [[enc(v) for v in row] for row in np.asarray(a).tolist()] if a.shape[1] else [[] for _ in range(a.shape[0])]


IDX_TYPES = ['int8', 'uint8', 'int16', 'uint16', 'int32', 'uint32', 'int64', 'uint64']


class Check(PropertyCheck):
    id = 'C05'
    lean_targets = ['RegionsVerif.Props.C05', 'RegionsVerif.Bridge.InlineGlueC05']
    namespaces = ['RegionsVerif.Props.C05', 'RegionsVerif.Bridge.InlineGlueC05']

    def _inline_glue(self):
        # tie T: normal forms of the glue methods (tools/inlineglue.py, group C05)
        import importlib.util, os
        from .common import VERIF
        spec = importlib.util.spec_from_file_location('inlineglue', os.path.join(VERIF, 'tools', 'inlineglue.py'))
        mod = importlib.util.module_from_spec(spec)
        spec.loader.exec_module(mod)
        return mod.main(['C05'])

    def translate(self):
        return self._inline_glue()
    rule = ('box positions relative to the image: exhaustive corners in a window around images up to N x N '
            '(inside, straddling every edge/corner, outside on each side, negative, larger than the image, 1-pixel, empty) '
            'x dyadic weight patterns incl. zeros x dtype int/float/Quantity x fill {0, finite, nan, +-inf} x copy flag '
            'x optional boolean mask. Non-trivial = box and image share at least one pixel.')
    assumptions = ['numpy basic slicing / slice assignment behaves as the sliceAssign/sliceRead primitives of Impl/Mask.lean',
                   'weights and data are dyadic so float products are exact (values compared exactly, never approximately)']

    def generate(self, rng, tier):
        cases = []
        shapes = [(0, 3), (3, 0), (1, 1), (2, 3), (3, 2), (4, 4), (5, 3)] if tier == 'quick' else \
                 [(ny, nx) for ny in range(0, 7) for nx in range(0, 7)]
        n_per = 250 if tier == 'quick' else 400

        def mk(box, shape, op):
            h, w = box[3] - box[2], box[1] - box[0]
            data = [[frac(rng.choice(WEIGHTS)) for _ in range(w)] for _ in range(h)]
            dt = rng.choice(['int', 'float', 'float', 'quantity'])
            ny, nx = shape
            idt = None
            if dt == 'int':
                # the integer-like image dtypes numpy has: signed, unsigned, bool
                idt = rng.choice(['int64', 'int64', 'int64', 'int16', 'int32', 'uint8', 'uint16', 'bool'])
                lo, hi = (0, 1) if idt == 'bool' else ((0, 9) if idt.startswith('u') else (-9, 9))
                img = [[str(rng.randint(lo, hi)) for _ in range(nx)] for _ in range(ny)]
            else:
                # some images are full of non-finite pixels (NaN / inf under non-zero weights are data, not "outside")
                p_special = 0.1 if rng.random() < 0.65 else 0.45
                img = [[rng.choice([str(rng.randint(-9, 9)), frac(Fraction(rng.randint(-40, 40), 8)), 'nan', 'nan', 'inf', '-inf'])
                        if rng.random() < p_special else frac(Fraction(rng.randint(-40, 40), 4))
                        for _ in range(nx)] for _ in range(ny)]
            c = {'kind': op, 'bbox': box, 'data': data, 'shape': [ny, nx], 'img': img, 'dtype': dt,
                 'fill': rng.choice(FILLS), 'copy': rng.random() < 0.5}
            if idt is not None:
                c['idt'] = idt
            if op == 'get_values' and rng.random() < 0.6:
                c['mask'] = [[rng.random() < 0.3 for _ in range(nx)] for _ in range(ny)]
            if op == 'to_image':
                c['out_dtype'] = rng.choice(['float', 'float', 'int'])
            # history: the SAME RegionMask object has been applied before, to another image of the same shape and
            # with another bad-pixel mask (nothing of that may survive in the object)
            if rng.random() < 0.35:
                c['warm'] = rng.randrange(1 << 30)
            # the box indices may be handed over as fixed-width numpy integers (when representable)
            if rng.random() < 0.3:
                ok = [t for t in IDX_TYPES if all(np.iinfo(t).min <= v <= np.iinfo(t).max for v in box)]
                if ok:
                    c['idx'] = rng.choice(ok)
            return c

        ops = ['to_image', 'cutout', 'multiply', 'get_values']
        for (ny, nx) in shapes:
            for _ in range(n_per):
                # corners in a window around the image
                x0 = rng.randint(-4, nx + 3); y0 = rng.randint(-4, ny + 3)
                w = rng.choice([0, 1, 1, 2, 3, nx, nx + 2, rng.randint(0, 6)])
                h = rng.choice([0, 1, 1, 2, 3, ny, ny + 2, rng.randint(0, 6)])
                if rng.random() < 0.85:
                    w = max(w, 1); h = max(h, 1)
                if rng.random() < 0.08 and nx > 0 and ny > 0:
                    # the box covers the whole image (exactly, or with a margin on some sides)
                    x0 = -rng.choice([0, 0, 1, 2]); y0 = -rng.choice([0, 0, 1, 3])
                    w = nx - x0 + rng.choice([0, 0, 1, 2]); h = ny - y0 + rng.choice([0, 0, 2])
                cases.append(mk([x0, x0 + w, y0, y0 + h], (ny, nx), rng.choice(ops)))
        # the box lies strictly INSIDE a larger image (the cutout is then a view of the image: nothing may be written
        # through it), weights with zeros, images full of non-finite pixels
        for _ in range(80 if tier == 'quick' else 3000):
            ny, nx = rng.randint(3, 7), rng.randint(3, 7)
            w, h = rng.randint(1, nx - 1), rng.randint(1, ny - 1)
            x0, y0 = rng.randint(0, nx - w), rng.randint(0, ny - h)
            cases.append(mk([x0, x0 + w, y0, y0 + h], (ny, nx), rng.choice(['multiply', 'multiply', 'cutout', 'get_values'])))
        # far away / huge offsets
        for _ in range(100 if tier == 'quick' else 5000):
            ny, nx = rng.randint(1, 5), rng.randint(1, 5)
            m = rng.choice([50, 10 ** 6, 2 ** 40])
            x0 = rng.choice([-m, m, rng.randint(-3, 3)]); y0 = rng.choice([-m, m, rng.randint(-3, 3)])
            cases.append(mk([x0, x0 + rng.randint(1, 3), y0, y0 + rng.randint(1, 3)], (ny, nx), rng.choice(ops)))
        return cases

    # ---------------------------------------------------------------- real
    @staticmethod
    def _image(case):
        import astropy.units as u
        ny, nx = case['shape']
        if case['dtype'] == 'int':
            a = np.array([[int(v) for v in row] for row in case['img']], dtype=getattr(np, case.get('idt', 'int64') + ('_' if case.get('idt') == 'bool' else ''))).reshape(ny, nx)
        else:
            a = np.array([[val(v) for v in row] for row in case['img']], dtype=float).reshape(ny, nx)
        if case['dtype'] == 'quantity':
            a = a * u.Jy
        return a

    def real(self, case):
        import astropy.units as u
        from regions import RegionBoundingBox, RegionMask
        b = case['bbox']
        h, w = b[3] - b[2], b[1] - b[0]
        data = np.array([[float(Fraction(v)) for v in row] for row in case['data']], dtype=float).reshape(h, w)
        T = getattr(np, case['idx']) if case.get('idx') else int
        m = RegionMask(data, RegionBoundingBox(*[T(v) for v in b]))
        img = self._image(case)
        before_img = np.array(img, copy=True)
        before_data = data.copy()
        op = case['kind']
        out = {}
        if 'warm' in case:
            import random
            rr = random.Random(case['warm'])
            ny_, nx_ = case['shape']
            for _ in range(rr.randint(1, 3)):
                img2 = np.array([[rr.randint(-8, 8) / 4 for _ in range(nx_)] for _ in range(ny_)], dtype=float).reshape(ny_, nx_)
                um2 = np.array([[rr.random() < 0.5 for _ in range(nx_)] for _ in range(ny_)], dtype=bool).reshape(ny_, nx_)
                try:
                    w_op = rr.choice(['get_values', 'get_values', 'multiply', 'cutout', 'to_image'])
                    if w_op == 'get_values':
                        m.get_values(img2, mask=um2 if rr.random() < 0.8 else None)
                    elif w_op == 'multiply':
                        m.multiply(img2, fill_value=rr.choice([0.0, 7.0, float('nan')]))
                    elif w_op == 'cutout':
                        m.cutout(img2, fill_value=rr.choice([0.0, 7.0]), copy=rr.random() < 0.5)
                    else:
                        m.to_image((ny_, nx_))
                except Exception:
                    pass
        try:
            if op == 'to_image':
                r = m.to_image(tuple(case['shape']), dtype=float if case['out_dtype'] == 'float' else int)
                out['ok'] = None if r is None else enc2(r)
                if r is not None:
                    out['aliases_mask'] = bool(np.shares_memory(r, m.data) or np.shares_memory(r, data))
            elif op == 'cutout':
                r = m.cutout(img, fill_value=val(case['fill']), copy=case['copy'])
                if r is None:
                    out['ok'] = None
                else:
                    out['ok'] = enc2(getattr(r, 'value', r))
                    out['view'] = bool(np.shares_memory(r, img))
                    out['float'] = r.dtype.kind == 'f'
                    out['unit_kept'] = (isinstance(r, u.Quantity) and r.unit == u.Jy) == (case['dtype'] == 'quantity')
            elif op == 'multiply':
                r = m.multiply(img, fill_value=val(case['fill']))
                if r is None:
                    out['ok'] = None
                else:
                    out['ok'] = enc2(getattr(r, 'value', r))
                    out['unit_kept'] = (isinstance(r, u.Quantity) and r.unit == u.Jy) == (case['dtype'] == 'quantity')
                    out['aliases_mask'] = bool(np.shares_memory(r, m.data) or np.shares_memory(r, img))
            elif op == 'get_values':
                um = None
                if 'mask' in case:
                    um = np.array(case['mask'], dtype=bool).reshape(case['shape'])
                um_before = None if um is None else um.copy()
                r = m.get_values(img, mask=um)
                out['ok'] = [enc(v) for v in np.asarray(getattr(r, 'value', r)).tolist()]
                out['ndim'] = int(np.ndim(r))
                out['unit_kept'] = (isinstance(r, u.Quantity)) == (case['dtype'] == 'quantity') or len(out['ok']) == 0
                if um is not None and not np.array_equal(um, um_before):
                    out['mutated'] = 'mask'
        except Exception as e:
            out['exc'] = f'{type(e).__name__}: {e}'
        same = np.array_equal(np.asarray(getattr(img, 'value', img)), np.asarray(getattr(before_img, 'value', before_img)), equal_nan=True)
        if not same:
            out['mutated'] = 'image'
        if not np.array_equal(m.data, before_data) or not np.array_equal(data, before_data):
            out['mutated'] = 'mask data'
        return out

    # ---------------------------------------------------------------- model
    def _storable(self, case):
        f = case['fill']
        if f in ('nan', 'inf', '-inf'):
            return False
        if case['dtype'] == 'int' and Fraction(f).denominator != 1:
            return False
        return True

    def requests(self, case):
        op = case['kind']
        r = {'op': 'mask.' + op, 'bbox': case['bbox'], 'data': case['data'], 'shape': case['shape']}
        if op != 'to_image':
            r['img'] = case['img']
        if op in ('cutout', 'multiply'):
            r['fill'] = case['fill']
            r['storable'] = self._storable(case)
            r['copy'] = case['copy']
        if op == 'get_values' and 'mask' in case:
            r['mask'] = case['mask']
        return [r]

    def model(self, case, replies):
        r = replies[0]
        if 'fail' in r:
            return {'fail': r['fail']}
        out = {'ok': r['ok']}
        if case['kind'] == 'to_image' and case['out_dtype'] == 'int' and r['ok'] is not None:
            # dtype=int: numpy's float->int cast of the weights (documented in to_image) is a parameter
            out['ok'] = [[frac(Fraction(int(Fraction(v)))) for v in row] for row in r['ok']]
        if case['kind'] == 'cutout' and r['ok'] is not None:
            out['view'] = r['view']
            out['promoted'] = r['promoted']
        return out

    def equal(self, case, real, model):
        if 'exc' in real or 'fail' in model:
            return False
        if real['ok'] != model['ok']:
            return False
        if case['kind'] == 'cutout' and real['ok'] is not None:
            empty = sum(len(r) for r in real['ok']) == 0   # sharing memory is meaningless for 0 elements
            if not empty and real['view'] != model['view']:
                return False
            # promoted => float result
            if model['promoted'] and not real['float']:
                return False
        return True

    # ---------------------------------------------------------------- Spec oracle: placement with python ints
    def oracle(self, case, real):
        V = []
        def bad(kind, detail):
            V.append({'kind': kind, 'detail': f'{detail} :: bbox={case["bbox"]} shape={case["shape"]} op={case["kind"]} fill={case.get("fill")} dtype={case["dtype"]}',
                      'bbox': case['bbox'], 'shape': case['shape']})
        if 'exc' in real:
            bad('exception', real['exc'])
            return V
        if 'mutated' in real:
            bad('input_mutated', real['mutated'])
        if real.get('unit_kept') is False:
            bad('unit_lost', '')
        if real.get('aliases_mask'):
            # a result that shares memory with the mask weights (or, for multiply, with the image): editing the result
            # would change the mask / the image
            bad('result_aliases_input', case['kind'])
        b = case['bbox']
        ny, nx = case['shape']
        h, w = b[3] - b[2], b[1] - b[0]
        W = [[Fraction(v) for v in row] for row in case['data']]
        def px(s):
            return s  # encoded strings are canonical already
        def imgv(y, x):
            s = case['img'][y][x]
            return s
        common = [(x, y) for y in range(max(b[2], 0), min(b[3], ny)) for x in range(max(b[0], 0), min(b[1], nx))] \
            if (h > 0 and w > 0 and ny > 0 and nx > 0 and abs(b[0]) < 10 ** 5 and abs(b[2]) < 10 ** 5) else []
        op = case['kind']
        fill = case.get('fill')
        def mul(a, wt):
            # a: encoded value, wt: Fraction
            if a == 'nan':
                return 'nan'
            if a in ('inf', '-inf'):
                if wt == 0:
                    return 'nan'
                pos = (a == 'inf') == (wt > 0)
                return 'inf' if pos else '-inf'
            return frac(Fraction(a) * wt)
        if not common:
            if op == 'get_values':
                if real['ok'] != [] or real.get('ndim') != 1:
                    bad('get_values_not_empty_on_no_overlap', real['ok'])
            elif real['ok'] is not None:
                V.append({'kind': 'not_none_on_no_overlap', 'detail': f'{op} bbox={b} shape={case["shape"]}',
                          'bbox': b, 'shape': case['shape']})
            return V
        if real['ok'] is None:
            bad('none_but_overlap', '')
            return V
        if op == 'to_image':
            trunc = case['out_dtype'] == 'int'
            exp = [['0'] * nx for _ in range(ny)]
            for (x, y) in common:
                v = W[y - b[2]][x - b[0]]
                exp[y][x] = frac(Fraction(int(v))) if trunc else frac(v)
            if real['ok'] != exp:
                bad('to_image_wrong', f'{real["ok"]} != {exp}')
        elif op in ('cutout', 'multiply'):
            cs = set(common)
            storable = self._storable(case)
            if storable or case['dtype'] != 'int':
                fillv = fill
            else:
                fillv = fill  # after the F17 fix the fill value is kept exactly
            exp = []
            for j in range(h):
                row = []
                for i in range(w):
                    x, y = b[0] + i, b[2] + j
                    cv = imgv(y, x) if (x, y) in cs else fillv
                    if op == 'cutout':
                        row.append(cv if cv in ('nan', 'inf', '-inf') else frac(Fraction(cv)))
                    else:
                        wt = W[j][i]
                        row.append(fillv if wt == 0 else mul(cv, wt))
                exp.append(row)
            exp = [[v if v in ('nan', 'inf', '-inf') else frac(Fraction(v)) for v in row] for row in exp]
            if real['ok'] != exp:
                bad(op + '_wrong', f'{real["ok"]} != {exp}')
            if op == 'cutout':
                full = len(cs) == h * w
                if real['view'] != (full and not case['copy']):
                    bad('cutout_view_flag', f'view={real["view"]} full={full} copy={case["copy"]}')
        elif op == 'get_values':
            exp = []
            um = case.get('mask')
            for (x, y) in common:  # row-major
                wt = W[y - b[2]][x - b[0]]
                if wt > 0 and not (um and um[y][x]):
                    exp.append(mul(imgv(y, x), wt))
            exp = [v if v in ('nan', 'inf', '-inf') else frac(Fraction(v)) for v in exp]
            if real['ok'] != exp or real.get('ndim') != 1:
                bad('get_values_wrong', f'{real["ok"]} != {exp}')
        return V

    def finding_match(self, finding, v):
        if finding.get('kind') != v.get('kind'):
            return False
        if v['kind'] == 'not_none_on_no_overlap':
            b = v['bbox']; ny, nx = v['shape']
            return b[0] == b[1] or b[2] == b[3] or ny == 0 or nx == 0
        return True

    def nontrivial(self, case, real):
        return real.get('ok') not in (None, [])

    def bucket(self, case, real):
        b = case['bbox']; ny, nx = case['shape']
        if b[0] == b[1] or b[2] == b[3] or ny == 0 or nx == 0:
            pos = 'degenerate'
        elif b[0] >= nx or b[1] <= 0 or b[2] >= ny or b[3] <= 0:
            pos = 'outside'
        elif b[0] >= 0 and b[1] <= nx and b[2] >= 0 and b[3] <= ny:
            pos = 'inside'
        else:
            pos = 'straddling'
        return f"{case['kind']}/{pos}/{case['dtype']}"
