"""C04 — bounding boxes enclose the region, are minimal, and confine the mask."""
import math
from fractions import Fraction

import numpy as np

from . import regiongen as G
from .common import frac
from .runner import PropertyCheck

EPS = Fraction(1, 10 ** 9)
H = Fraction(1, 2)


def F(x):
    return Fraction(float(x))


def true_extent(d):
    """exact (or 50-digit) extent (xmin, xmax, ymin, ymax) of the shape, from first principles."""
    k = d['kind']
    if k == 'compound':
        a, b = true_extent(d['a']), true_extent(d['b'])
        return None  # compounds: union of operand BOXES (checked separately)
    if k in ('circle', 'circle_annulus'):
        r = F(d['r'] if k == 'circle' else d['r2'])
        cx, cy = F(d['c'][0]), F(d['c'][1])
        return (cx - r, cx + r, cy - r, cy + r)
    if k in ('ellipse', 'ellipse_annulus'):
        w, h = (F(d['w']), F(d['h'])) if k == 'ellipse' else (F(d['w2']), F(d['h2']))
        c, s = G.exact_dir(d['angle'])
        dx = G.fsqrt((w / 2 * c) ** 2 + (h / 2 * s) ** 2)
        dy = G.fsqrt((w / 2 * s) ** 2 + (h / 2 * c) ** 2)
        cx, cy = F(d['c'][0]), F(d['c'][1])
        return (cx - dx, cx + dx, cy - dy, cy + dy)
    if k in ('rectangle', 'rectangle_annulus'):
        w, h = (F(d['w']), F(d['h'])) if k == 'rectangle' else (F(d['w2']), F(d['h2']))
        c, s = G.exact_dir(d['angle'])
        cx, cy = F(d['c'][0]), F(d['c'][1])
        xs, ys = [], []
        for sa in (-1, 1):
            for sb in (-1, 1):
                a, b = sa * w / 2, sb * h / 2
                xs.append(cx + a * c - b * s)
                ys.append(cy + a * s + b * c)
        return (min(xs), max(xs), min(ys), max(ys))
    if k == 'polygon':
        xs = [F(p[0]) for p in d['v']]
        ys = [F(p[1]) for p in d['v']]
        return (min(xs), max(xs), min(ys), max(ys))
    if k == 'regular_polygon':
        vs = G.regular_vertices_exact(d)
        return (min(v[0] for v in vs), max(v[0] for v in vs), min(v[1] for v in vs), max(v[1] for v in vs))
    if k in ('point', 'text'):
        cx, cy = F(d['c'][0]), F(d['c'][1])
        return (cx, cx, cy, cy)
    if k == 'line':
        xs = [F(d['a'][0]), F(d['b'][0])]
        ys = [F(d['a'][1]), F(d['b'][1])]
        return (min(xs), max(xs), min(ys), max(ys))
    raise ValueError(k)


def box_of(e):
    return [math.floor(e[0] + H), math.ceil(e[1] + H), math.floor(e[2] + H), math.ceil(e[3] + H)]


def aligned_sides(e):
    """which sides of the extent are within 1e-9 (relative) of a pixel edge."""
    out = []
    for v in e:
        t = v + H
        dist = abs(t - round(t))
        out.append(dist < EPS * (1 + abs(v)))
    return out


def is_exact_case(d):
    """True when the code's float arithmetic for the extent is exact (dyadic parameters, no
    inexact trigonometry), so that even pixel-edge-aligned extremes must agree exactly."""
    k = d['kind']
    if k == 'compound':
        return is_exact_case(d['a']) and is_exact_case(d['b'])
    def dy(x):
        f = F(x)
        return f.denominator <= 2 ** 20 and abs(f) < 2 ** 30
    nums = []
    for key in ('c', 'a', 'b'):
        if key in d and isinstance(d[key], list):
            nums += d[key]
    for key in ('r', 'r1', 'r2', 'w', 'h', 'w1', 'h1', 'w2', 'h2'):
        if key in d:
            nums.append(d[key])
    if 'v' in d:
        nums += [c for p in d['v'] for c in p]
    if not all(dy(x) for x in nums):
        return False
    if k == 'regular_polygon':
        return False
    if 'angle' in d:
        if k in ('ellipse', 'ellipse_annulus'):
            return False  # sqrt involved; exact only by luck
        return d['angle'][0] == 0
    return True


class Check(PropertyCheck):
    id = 'C04'
    lean_targets = ['RegionsVerif.Props.C04', 'RegionsVerif.Props.C04Box', 'RegionsVerif.Bridge.FormulasC04']
    namespaces = ['RegionsVerif.Props.C04', 'RegionsVerif.Bridge.C04']
    rule = ('all pixel region classes incl. lines, points, text, annuli and compounds to depth 3 x all parameters and angles '
            'x alignments of the extremes with pixel edges (1/8 lattice with exact arithmetic, where the box must agree exactly; '
            'near-aligned extremes with inexact trigonometry are excepted per side). Non-trivial = the box has at least 2 pixels.')
    assumptions = ['sides of an extent within 1e-9 (relative) of a pixel edge are excepted unless the float arithmetic is exact '
                   '(dyadic parameters, no trigonometry)',
                   'np.cos/np.sin/np.sqrt correct to a few ulp']
    validated_only = ['that the compiled mask kernels put no weight outside the box is C02/C03 territory; here: mask.bbox == region.bounding_box on the real code']

    def translate(self):
        # tie T: regenerate Gen/FormulasC04.lean from the current source (tools/py2lean.py)
        import importlib.util, os
        from .common import VERIF
        spec = importlib.util.spec_from_file_location('py2lean', os.path.join(VERIF, 'tools', 'py2lean.py'))
        mod = importlib.util.module_from_spec(spec)
        spec.loader.exec_module(mod)
        problems, _ = mod.main(['C04'])
        return problems

    def generate(self, rng, tier):
        n = 1500 if tier == 'quick' else 60000
        cases = []
        for i in range(n):
            m = rng.random()
            if m < 0.35:
                # lattice-aligned, exact arithmetic
                kind = rng.choice(['circle', 'rectangle', 'polygon', 'circle_annulus', 'rectangle_annulus', 'line', 'point', 'text'])
                d = G.gen_simple(rng, kind=kind, scale=1.0, center_scale=0)
                q = lambda: float(Fraction(rng.randint(-40, 40), 8))
                qs = lambda: float(Fraction(rng.randint(1, 40), 8))
                for key in ('c', 'a', 'b'):
                    if key in d:
                        d[key] = [q() + rng.choice([0, 0, 1000, -4096]), q()]
                for key in ('r', 'w', 'h'):
                    if key in d:
                        d[key] = qs()
                if kind == 'circle_annulus':
                    d['r1'] = qs(); d['r2'] = d['r1'] + qs()
                if kind == 'rectangle_annulus':
                    d['w1'] = qs(); d['h1'] = qs(); d['w2'] = d['w1'] + qs(); d['h2'] = d['h1'] + qs()
                if kind == 'polygon':
                    d['v'] = [[q(), q()] for _ in range(rng.randint(3, 7))]
                if 'angle' in d:
                    d['angle'] = [0.0, 'deg'] if rng.random() < 0.7 else [float(rng.choice([90, 180, 270, 45])), 'deg']
            elif m < 0.8:
                d = G.gen_simple(rng, kind=rng.choice(G.SIMPLE_KINDS + G.EMPTY_KINDS))
            else:
                d = G.gen_compound(rng, rng.randint(1, 3),
                                   lambda: G.gen_simple(rng, kind=rng.choice(G.SIMPLE_KINDS + ['line', 'point']), scale=rng.choice([1.0, 5.0]), center_scale=10))
            cases.append(G.add_history(rng, {'kind': d['kind'], 'region': d}))
        return cases

    def real(self, case):
        reg = G.build_case(case)
        out = {}
        try:
            b = reg.bounding_box
            out['box'] = [int(b.ixmin), int(b.ixmax), int(b.iymin), int(b.iymax)]
        except Exception as e:
            return {'exc': f'{type(e).__name__}: {e}'}
        if (out['box'][1] - out['box'][0]) * (out['box'][3] - out['box'][2]) > 250000:
            out['mask_box'] = None      # do not allocate huge masks
            return out
        try:
            m = reg.to_mask(mode='center')
            mb = m.bbox
            out['mask_box'] = [int(mb.ixmin), int(mb.ixmax), int(mb.iymin), int(mb.iymax)]
            out['mask_shape'] = list(m.data.shape)
            # the boxes handed out are values: combining them with other boxes (the common box of several masks) leaves
            # the mask's box and the region's box as they were
            from regions import RegionBoundingBox
            other = RegionBoundingBox(int(mb.ixmin) - 3, int(mb.ixmax) + 2, int(mb.iymin) - 1, int(mb.iymax) + 4)
            _ = mb | other
            _ = mb.union(other)
            _ = b | other
            mb2, b2 = m.bbox, reg.bounding_box
            out['boxes_after_union'] = [[int(mb2.ixmin), int(mb2.ixmax), int(mb2.iymin), int(mb2.iymax)],
                                        [int(b.ixmin), int(b.ixmax), int(b.iymin), int(b.iymax)],
                                        [int(b2.ixmin), int(b2.ixmax), int(b2.iymin), int(b2.iymax)]]
        except NotImplementedError:
            out['mask_box'] = None
        except Exception as e:
            out['mask_exc'] = f'{type(e).__name__}: {e}'
        return out

    def requests(self, case):
        reg = G.build_case(case)
        return [{'op': 'region.bbox', 'region': G.model(case['region'], reg)}]

    def model(self, case, replies):
        r = replies[0]
        if 'ok' in r:
            return {'box': [int(v) for v in r['ok']]}
        return {'err': r.get('err') or r.get('fail')}

    def _leaf_extents(self, d):
        if d['kind'] == 'compound':
            return self._leaf_extents(d['a']) + self._leaf_extents(d['b'])
        return [(d, true_extent(d))]

    def _skip_sides(self, d):
        """per side: True if some leaf has a near-aligned extreme on that side with inexact arithmetic."""
        skip = [False] * 4
        for leaf, e in self._leaf_extents(d):
            if is_exact_case(leaf):
                continue
            al = aligned_sides(e)
            skip = [s or a for s, a in zip(skip, al)]
        return skip

    def equal(self, case, real, model):
        if 'exc' in real or 'err' in model:
            return False
        skip = self._skip_sides(case['region'])
        return all(s or r == m for s, r, m in zip(skip, real['box'], model['box']))

    def _expected_box(self, d):
        if d['kind'] == 'compound':
            a, b = self._expected_box(d['a']), self._expected_box(d['b'])
            return [min(a[0], b[0]), max(a[1], b[1]), min(a[2], b[2]), max(a[3], b[3])]
        return box_of(true_extent(d))

    def oracle(self, case, real):
        V = []
        d = case['region']
        def bad(kind, detail):
            V.append({'kind': kind, 'detail': f'{detail} :: region={d}'})
        if 'exc' in real:
            bad('exception', real['exc'])
            return V
        if 'mask_exc' in real:
            bad('mask_exception', real['mask_exc'])
        box = real['box']
        exp = self._expected_box(d)
        skip = self._skip_sides(d)
        names = ['ixmin', 'ixmax', 'iymin', 'iymax']
        for i in range(4):
            if skip[i]:
                continue
            if box[i] != exp[i]:
                # classify: not enclosing vs not minimal
                too_small = (box[i] > exp[i]) if i in (0, 2) else (box[i] < exp[i])
                bad('box_not_enclosing' if too_small else 'box_not_minimal', f'{names[i]}={box[i]} expected {exp[i]} box={box}')
        if real.get('mask_box') is not None:
            if real['mask_box'] != box:
                bad('mask_box_differs', f'{real["mask_box"]} vs {box}')
            for bx in real.get('boxes_after_union', []):
                if bx != box:
                    bad('box_changed_by_union', f'{bx} vs {box}: a box handed out by the region or its mask was modified by `|` / union()')
                    break
            if real['mask_shape'] != [box[3] - box[2], box[1] - box[0]]:
                bad('mask_shape_differs', f'{real["mask_shape"]} vs box {box}')
        return V

    def nontrivial(self, case, real):
        b = real.get('box')
        return bool(b) and (b[1] - b[0]) * (b[3] - b[2]) >= 2

    def bucket(self, case, real):
        d = case['region']
        return f"{d['kind']}/{'exact' if is_exact_case(d) else 'float'}"
