"""C07 — a sky region's pixel image has the size and orientation the WCS dictates.

The ABSOLUTE check (a round trip cannot see an error made consistently in both directions).
The oracle never uses `pixel_scale_angle_at_skycoord`: sky points at the region's angular
semi-axes are constructed with astropy's `SkyCoord.directional_offset_by(position_angle,
separation)` (position angles alpha-90, alpha+90 for the width axis, alpha, alpha+180 for the
height axis) and pushed through `wcs.world_to_pixel`; the pixel image returned by `to_pixel` must
be centred on the image of the centre, have lengths equal to the image distances of opposite
semi-axis end points, have its width axis along the image of the (alpha-90) direction, and
contain the end points on its boundary.

Model tie: the Lean model (`Impl/Wcs.lean`, `Props/C07.lean`) is run (a) with the (scale, north)
MEASURED BY THE ORACLE from the images of a north offset (similarity model; agreement to
second order) and (b) with the helper's own result (agreement to 1e-9).
"""
import math
from fractions import Fraction

import numpy as np

from . import regiongen as G
from . import c06 as C6
from .c06 import F, SIZE_KEYS, build_sky, build_wcs, canon_pix, gen_meta, gen_visual, gen_wcs, lonlat, model_sky, parse_model
from . import c06 as _c06
_c06.NONDEG_CENTRES = True     # centres stored in hours / radians as well (a reader must not assume degrees)
from .common import frac
from .runner import PropertyCheck

KINDS = ['circle', 'ellipse', 'rectangle', 'circle_annulus', 'ellipse_annulus', 'rectangle_annulus']
REL = 1e-3            # the property's "within 1e-3 of the size" for end points on the boundary
LEN_REL = 5e-4        # lengths / direction: second-order terms are < 2e-4 by construction of the cases
EXACT = Fraction(1, 10 ** 9)


def gen_region(rng, wd, wcs, kind):
    """a sky region of 1-50 pixels, centre within min(300 px, 1 deg) of the reference pixel."""
    R = min(300.0, 1.0 / wd['scale'])
    r = R * math.sqrt(rng.random())
    t = rng.uniform(0, 2 * math.pi)
    px, py = wd['crpix'][0] - 1 + r * math.cos(t), wd['crpix'][1] - 1 + r * math.sin(t)
    # the centre is expressed in a frame drawn independently of the WCS frame (other frame, non-default equinox / obstime):
    # a sky angle and a "north" are those of the centre's OWN frame, which is also what the oracle's directional_offset_by uses
    from astropy.wcs.utils import wcs_to_celestial_frame
    spec = C6.gen_region_frame(rng)
    sc = wcs.pixel_to_world(px, py).transform_to(C6.make_frame(spec, wcs_to_celestial_frame(wcs)))
    lo, la = lonlat(sc)
    asec = wd['scale'] * 3600.0
    d = {'kind': kind, 'c': [float(lo[0]), float(la[0])], 'meta': gen_meta(rng), 'visual': gen_visual(rng), 'frame': spec}

    def size(lo_px, hi_px):
        return rng.uniform(lo_px, hi_px) if rng.random() < 0.8 else float(rng.randint(max(1, math.ceil(lo_px)), int(hi_px)))
    if kind == 'circle':
        d['r'] = C6._q(rng, size(0.5, 25) * asec)
    elif kind in ('ellipse', 'rectangle'):
        d['w'] = C6._q(rng, size(1, 50) * asec)
        d['h'] = C6._q(rng, size(1, 50) * asec)
    elif kind == 'circle_annulus':
        r1 = size(0.5, 12)
        d['r1'] = C6._q(rng, r1 * asec)
        d['r2'] = C6._q(rng, (r1 + size(0.5, 12)) * asec)
    else:
        w1, h1 = size(1, 25), size(1, 25)
        d['w1'] = C6._q(rng, w1 * asec)
        d['h1'] = C6._q(rng, h1 * asec)
        d['w2'] = C6._q(rng, (w1 + size(1, 25)) * asec)
        d['h2'] = C6._q(rng, (h1 + size(1, 25)) * asec)
    if kind not in ('circle', 'circle_annulus'):
        d['angle'] = G.rangle(rng)
    return d


def components(c):
    """(name, width, height) of the component shapes of a canonical pixel region / arcsec sizes of a sky one."""
    k = c['kind']
    if k == 'circle':
        return [('shape', 2 * c['r'], 2 * c['r'])]
    if k in ('ellipse', 'rectangle'):
        return [('shape', c['w'], c['h'])]
    if k == 'circle_annulus':
        return [('inner', 2 * c['r1'], 2 * c['r1']), ('outer', 2 * c['r2'], 2 * c['r2'])]
    return [('inner', c['w1'], c['h1']), ('outer', c['w2'], c['h2'])]


def compute(case):
    """the real computation: the pixel image, and (independently of the helper) the images of the semi-axis end points."""
    import warnings
    import astropy.units as u
    from astropy.coordinates import Angle
    from astropy.coordinates.baseframe import NonRotationTransformationWarning
    from astropy.wcs.utils import wcs_to_celestial_frame
    from regions._utils.wcs_helpers import pixel_scale_angle_at_skycoord
    warnings.filterwarnings('ignore', category=NonRotationTransformationWarning)
    wd = case['wcs']
    h = case.get('history')
    # history mode (see c06.py): the region object and the WCS object may have been used before with other parameters /
    # settings; the oracle and the model below know only the FINAL parameters (a fresh object) and the final WCS state
    wcs = build_wcs(h['warm_wcs'] if h and h.get('warm_wcs') else wd)
    frame = wcs_to_celestial_frame(wcs)
    d = case['region']
    probe = wcs.pixel_to_world(wd['crpix'][0], wd['crpix'][1])
    sreg, first, notes = C6.run_history(h, lambda dd: build_sky(dd, frame), d, wcs, wd, lambda r: r.to_pixel(wcs),
                                        lambda r: r.contains(probe, wcs))
    fresh = build_sky(d, frame)
    try:
        pix = sreg.to_pixel(wcs)
        if first is not None:
            notes['shared'] = C6.shared_parts(first, pix)
            C6.mutate_result(first)
    except Exception as e:
        return {'exc': f'{type(e).__name__}: {e}'}
    cs = C6.canon_sky(fresh)
    out = {'sky': cs, 'pix': canon_pix(pix), 'model_region': model_sky(d, fresh), 'notes': notes,
           'object_state_ok': C6.canon_sky(sreg) == cs}
    center = fresh.center
    x0, y0 = (float(v) for v in wcs.world_to_pixel(center))
    out['p0'] = [x0, y0]
    alpha = Angle(d['angle'][0], d['angle'][1]) if 'angle' in d else Angle(0.0, 'deg')
    ends = []
    for name, wa, ha in components(cs):
        # (which, position angle, separation in arcsec): width axis at alpha -+ 90 deg, height axis at alpha, alpha + 180 deg
        specs = [('w+', alpha - 90 * u.deg, wa / 2), ('w-', alpha + 90 * u.deg, wa / 2),
                 ('h+', alpha, ha / 2), ('h-', alpha + 180 * u.deg, ha / 2)]
        if d['kind'] in ('circle', 'circle_annulus'):
            specs += [('r+', Angle(case['extra_pa'], 'deg'), wa / 2), ('r-', Angle(case['extra_pa'] + 180.0, 'deg'), wa / 2)]
        for which, pa, sep in specs:
            sep_as = float(sep)
            pt = center.directional_offset_by(pa, sep_as * u.arcsec)
            x, y = (float(v) for v in wcs.world_to_pixel(pt))
            par = float(pa.to_value(u.rad))
            ends.append({'comp': name, 'which': which, 'pa_dir': [float(np.cos(par)), float(np.sin(par))], 'sep': sep_as, 'xy': [x, y]})
    out['ends'] = ends
    # oracle-side local scale and north from a finite north / east offset of about half the region
    rho = float(max(max(wa, ha) for _, wa, ha in components(cs))) / 2
    xn, yn = (float(v) for v in wcs.world_to_pixel(center.directional_offset_by(0 * u.deg, rho * u.arcsec)))
    xe, ye = (float(v) for v in wcs.world_to_pixel(center.directional_offset_by(90 * u.deg, rho * u.arcsec)))
    hn = math.hypot(xn - x0, yn - y0)
    out['north'] = [(xn - x0) / hn, (yn - y0) / hn]
    out['scale'] = rho / hn
    out['parity_cross'] = ((xn - x0) * (ye - y0) - (yn - y0) * (xe - x0))
    # the helper's own result: used ONLY for the exact model tie (b), never by the oracle
    _, hs, ha_ = pixel_scale_angle_at_skycoord(center, wcs)
    out['helper'] = [float(hs.to_value(u.arcsec / u.pix)), float(np.cos(ha_)), float(np.sin(ha_))]
    return out


_PENDING = []
_CACHE = {}


def _compute_safe(case):
    try:
        return compute(case)
    except Exception as e:
        return {'harness': f'{type(e).__name__}: {e}'}


def cached(case):
    """`compute` memoised in the main process (the requests need the real WCS samples); the pending cases
    of the run are evaluated once in a process pool."""
    import multiprocessing as mp
    import os
    from .runner import case_key
    k = case_key(case)
    if k not in _CACHE:
        if _PENDING:
            todo = [c for c in _PENDING if case_key(c) not in _CACHE]
            del _PENDING[:]
            if len(todo) > 64:
                with mp.Pool(min(16, os.cpu_count() or 1)) as pool:
                    res = pool.map(_compute_safe, todo, chunksize=max(1, len(todo) // 64))
            else:
                res = [_compute_safe(c) for c in todo]
            for c, r in zip(todo, res):
                _CACHE[case_key(c)] = r
        if k not in _CACHE:
            _CACHE[k] = _compute_safe(case)
    return _CACHE[k]


class Check(PropertyCheck):
    id = 'C07'
    lean_targets = ['RegionsVerif.Props.C07', 'RegionsVerif.Bridge.ConvGlue']
    namespaces = ['RegionsVerif.Props.C07', 'RegionsVerif.Bridge.ConvGlue']

    def translate(self):
        # tie T: regenerate Gen/ConvGlue.lean (every to_sky / to_pixel method, the sky-side contains, the WCS helper)
        import importlib.util, os
        from .common import VERIF
        spec = importlib.util.spec_from_file_location('convglue', os.path.join(VERIF, 'tools', 'convglue.py'))
        mod = importlib.util.module_from_spec(spec)
        spec.loader.exec_module(mod)
        return mod.main()
    parallel = True
    level = 'proof'
    rule = ('real astropy.wcs.WCS: TAN/SIN x longitude-first and (20%) latitude-first world axes x linear part encoded as PC+CDELT(-s,s) / full CD matrix / parity flip inside PC with positive CDELT / CROTA2+CDELT (the same transformation) x rotation -180..180 deg x scale 1e-5..1e-2 deg/pix (log-uniform) x standard parity x '
            'ICRS/FK5/Galactic x reference |lat|<85; circle/ellipse/rectangle/circle-, ellipse-, rectangle-annulus sky regions with sizes '
            'of 1-50 pixels, any angle in deg/rad/arcmin/hourangle, every size independently in arcsec/arcmin/deg/mas/rad/hourangle, centres within min(300 px, 1 deg) of the '
            'reference pixel (beyond 1 deg off-axis a TAN/SIN projection is not a similarity to 1e-3: radial/tangential scales differ by theta^2/2). '
            'HISTORY MODE (40% of the cases): the region object is first built with other parameters and/or the WCS object with other settings, converted / queried once, then every parameter is re-assigned through the public setters and/or the WCS is edited in place (crval/crpix/cdelt/pc + set()), the first result is mutated by the caller, and only then the compared conversion is made; the model and the oracle know only the final parameters and the final WCS; two successive results must not share PixCoord/meta/visual objects. '
            'Oracle: SkyCoord.directional_offset_by + wcs.world_to_pixel only. Non-trivial = every case (a sized region with 4-8 end points).')
    assumptions = ['PARTIAL PROOF: the WCS is a parameter; the theorems assume it is, around the centre, a similarity of standard parity '
                   '(toPix(c + (PA, rho)) = p0 + rho/s * rot(PA) n); a real TAN/SIN WCS is one only to first order: the run bounds the region '
                   'size (<= 50 px, <= 0.5 deg) and the off-axis distance (<= 1 deg) so that the neglected terms are < 2e-4 relative',
                   'astropy directional_offset_by / world_to_pixel are the reference (trusted) for what "angular offset" and "WCS image" mean',
                   'tolerances: centre 1e-6 px-relative; lengths and axis direction 5e-4; end points on the boundary within 1e-3 of the size',
                   'reading of "direction of increasing longitude (i.e. 90 deg clockwise from local north)": the operational one, 90 deg clockwise '
                   'from north = position angle -90 deg for standard parity; the axis as a line is the same for both readings']
    validated_only = ['that real TAN/SIN WCSs are local similarities to the stated order: sampled, not a theorem',
                      'frame independence (ICRS/FK5/Galactic): exercised by the run; in the model the frame is hidden in the abstract Sky type',
                      'that the helper result equals the oracle-measured (scale, north) to second order on real WCSs: observed per case']

    def generate(self, rng, tier):
        n_wcs = 160 if tier == 'quick' else 4000
        cases = []
        for _ in range(n_wcs):
            wd = gen_wcs(rng, projs=['TAN', 'SIN'], frames=['icrs', 'fk5', 'galactic'], parities=(1,), log10_scale=(-5.0, -2.0))
            wcs = build_wcs(wd)
            for kind in KINDS:
                case = {'kind': kind, 'wcs': wd, 'region': gen_region(rng, wd, wcs, kind), 'extra_pa': rng.uniform(0.0, 360.0)}
                if rng.random() < C6.HISTORY_P:
                    case['history'] = C6.gen_history(rng, wd, case['region'], 'sky', keep_parity=True)
                cases.append(case)
        del _PENDING[:]
        _PENDING.extend(cases)
        return cases

    # -------------------------------------------------------------- real
    def real(self, case):
        return compute(case)

    # -------------------------------------------------------------- model
    def requests(self, case):
        r = cached(case)
        if 'exc' in r or 'harness' in r:
            return []
        offs = [[frac(F(e['pa_dir'][0])), frac(F(e['pa_dir'][1])), frac(F(e['sep']))] for e in r['ends']]
        base = {'op': 'c07.image', 'region': r['model_region'], 'p0': [frac(F(r['p0'][0])), frac(F(r['p0'][1]))], 'offs': offs}
        a = dict(base, s=frac(F(r['scale'])), n=[frac(F(r['north'][0])), frac(F(r['north'][1]))])
        b = dict(base, s=frac(F(r['helper'][0])), n=[frac(F(r['helper'][1])), frac(F(r['helper'][2]))])
        return [a, b]

    def model(self, case, replies):
        return replies if replies else None

    @staticmethod
    def _pix_close(real, mod, size_tol, dir_tol):
        if real['kind'] != mod['kind']:
            return False
        if real['meta'] != mod['meta'] or real['visual']['rest'] != mod['visual']['rest']:
            return False
        if real['c'] != mod['c']:
            return False
        for key in SIZE_KEYS[real['kind']]:
            if not C6.rel_close(real[key], mod[key], size_tol):
                return False
        if ('dir' in real) != ('dir' in mod):
            return False
        if 'dir' in real:
            if abs(real['dir'][0] - mod['dir'][0]) > dir_tol or abs(real['dir'][1] - mod['dir'][1]) > dir_tol:
                return False
        return True

    def equal(self, case, real, model):
        if 'exc' in real or model is None or any('fail' in m for m in model):
            return False
        sim, exact = model
        # (b) helper's own (scale, north): the model's to_pixel arithmetic is the code's
        if not self._pix_close(real['pix'], parse_model(exact['pix']), EXACT, EXACT):
            return False
        # (a) similarity with the oracle-measured (scale, north): parameters agree to second order …
        if not self._pix_close(real['pix'], parse_model(sim['pix']), Fraction(LEN_REL), Fraction(LEN_REL)):
            return False
        # … the model's images of the semi-axis end points are where the real WCS puts them …
        for e, img, res in zip(real['ends'], sim['images'], sim['residuals']):
            size = max(float(max(wa, ha)) for _, wa, ha in components(real['pix']))
            if math.hypot(float(Fraction(img[0])) - e['xy'][0], float(Fraction(img[1])) - e['xy'][1]) > REL * size:
                return False
        # … and lie exactly (up to the float (cos, sin) not being exactly unit) on the boundary of the model's pixel shape
        for m in (sim, exact):
            for e, res in zip(real['ends'], m['residuals']):
                comp = 0 if e['comp'] in ('shape', 'inner') else 1
                rr = [Fraction(v) for v in res[comp]]
                pm = parse_model(m['pix'])
                if real['pix']['kind'] in ('rectangle', 'rectangle_annulus'):
                    _, wa, ha = components(pm)[comp]
                    k = 0 if e['which'].startswith('w') else 1
                    if abs(rr[k]) > EXACT * max(wa, ha):
                        return False
                    if rr[1 - k] > 0:
                        return False
                elif real['pix']['kind'] in ('circle', 'circle_annulus'):
                    _, wa, _ = components(pm)[comp]
                    if abs(rr[0]) > EXACT * wa * wa:
                        return False
                else:
                    if abs(rr[0]) > EXACT:
                        return False
        return True

    # -------------------------------------------------------------- oracle (helper-free)
    def oracle(self, case, real):
        V = []
        brief = {'wcs': case['wcs'], 'region': case['region']}

        def bad(kind, detail):
            V.append({'kind': kind, 'detail': f'{detail} :: {brief}'})
        if 'exc' in real:
            bad('exception', real['exc'])
            return V
        hist = case.get('history')
        htxt = f' [history: {hist["mode"]}, warm call {hist["warm_call"]}, first result mutated: {hist["mutate_first"]}]' if hist else ''
        if (real.get('notes') or {}).get('shared'):
            bad('results_share_state', f'two successive to_pixel() results of the same object share {real["notes"]["shared"]}{htxt}')
        if not real.get('object_state_ok', True):
            bad('harness_assumption', 'after re-assigning every parameter the object does not hold the final parameters' + htxt)
        if not real['parity_cross'] > 0:
            bad('harness_assumption', 'generated WCS is not of standard parity')
            return V
        pix, sky = real['pix'], real['sky']
        exp_kind = sky['kind']
        if pix['kind'] != exp_kind:
            bad('class_changed', f'{sky["cls"]} -> {pix["cls"]}')
            return V
        comps = components(pix)
        size = max(float(max(wa, ha)) for _, wa, ha in comps)
        x0, y0 = real['p0']
        cx, cy = float(pix['c'][0]), float(pix['c'][1])
        if math.hypot(cx - x0, cy - y0) > 1e-6 * max(size, 1.0):
            bad('centre_not_wcs_image', f'centre ({cx}, {cy}) vs world_to_pixel(centre) ({x0}, {y0}){htxt}')
        if 'dir' in pix:
            D = (float(pix['dir'][0]), float(pix['dir'][1]))
        else:
            D = None
        ends = {(e['comp'], e['which']): e for e in real['ends']}
        for name, W, H in comps:
            W, H = float(W), float(H)
            for axis, L in (('w', W), ('h', H), ('r', W)):
                if (name, axis + '+') not in ends:
                    continue
                p, q = ends[(name, axis + '+')]['xy'], ends[(name, axis + '-')]['xy']
                dist = math.hypot(p[0] - q[0], p[1] - q[1])
                # lengths = angular size / local scale: the image distance of the two opposite end points
                if abs(dist - L) > LEN_REL * L + 1e-9:
                    bad('length_not_angular_over_scale', f'{name} {axis}: pixel length {L!r} but the end points are {dist!r} apart')
                # both end points on the boundary: at half the length from the centre along the axis
                for pt in (p, q):
                    off = math.hypot(pt[0] - cx, pt[1] - cy)
                    if abs(off - L / 2) > REL * max(W, H):
                        bad('end_point_not_on_boundary', f'{name} {axis}: end point {pt} is {off!r} from the centre, half-length {L / 2!r}')
                        break
                if D is not None and axis in ('w', 'h'):
                    ux, uy = (p[0] - q[0]) / dist, (p[1] - q[1]) / dist
                    ax = D if axis == 'w' else (-D[1], D[0])
                    cross = ux * ax[1] - uy * ax[0]
                    # the axis is a LINE (the shapes are symmetric under the half turn): only its direction mod 180 deg counts
                    if abs(cross) > LEN_REL:
                        bad('axis_direction_wrong', f'{name}: {axis} axis of the pixel shape {ax} vs image of the sky axis ({ux}, {uy}); '
                            f'sin of the angle between them {cross:.3g}')
                    # frame coordinates of the end point: on the boundary of the pixel shape
                    A = D[0] * (p[0] - cx) + D[1] * (p[1] - cy)
                    B = -D[1] * (p[0] - cx) + D[0] * (p[1] - cy)
                    along, across = (A, B) if axis == 'w' else (B, A)
                    if abs(abs(along) - L / 2) > REL * max(W, H) or abs(across) > REL * max(W, H):
                        bad('end_point_not_on_boundary', f'{name} {axis}+: frame coordinates ({A!r}, {B!r}), sizes ({W!r}, {H!r})')
        # sizes of a circle: radius against the end points (already via 'r'/'w' axes); nothing else to check
        return V

    def nontrivial(self, case, real):
        return 'exc' not in real and len(real.get('ends', [])) >= 4

    def bucket(self, case, real):
        h = case.get('history')
        fr = case['region'].get('frame')
        frtxt = 'wcs-frame' if fr is None else fr['name'] + ('*' if len(fr) > 1 else '')
        return f"{case['kind']}/{case['wcs']['proj']}/{case['wcs']['frame']}/region:{frtxt}/{'history-' + h['mode'] if h else 'fresh'}"
