"""C15 — membership, area, boxes and masks follow the region under rigid motions."""
import copy
import math
from fractions import Fraction

import numpy as np

from . import regiongen as G
from . import c04 as C04
from .c01 import query_points
from .common import frac
from .runner import PropertyCheck


def F(x):
    return Fraction(float(x))


def params(reg):
    """canonical numeric parameters of a real pixel region (floats)."""
    from regions import CompoundPixelRegion
    if isinstance(reg, CompoundPixelRegion):
        return {'cls': 'Compound', 'op': reg.operator.__name__, 'a': params(reg.region1), 'b': params(reg.region2)}
    out = {'cls': type(reg).__name__}
    for name in reg._params:
        v = getattr(reg, name)
        if hasattr(v, 'x') and hasattr(v, 'y'):
            out[name] = [np.ravel(v.x).astype(float).tolist(), np.ravel(v.y).astype(float).tolist()]
        elif hasattr(v, 'unit'):
            out[name] = ['dir', float(np.cos(v)), float(np.sin(v))]
        elif isinstance(v, str):
            out[name] = v
        else:
            out[name] = float(v)
    if hasattr(reg, 'vertices') and 'vertices' not in out:
        out['vertices'] = [np.ravel(reg.vertices.x).astype(float).tolist(), np.ravel(reg.vertices.y).astype(float).tolist()]
    return out


def snapshot(reg):
    from regions import CompoundPixelRegion
    if isinstance(reg, CompoundPixelRegion):
        return ('C', reg.operator.__name__, snapshot(reg.region1), snapshot(reg.region2), repr(dict(reg.meta)), repr(dict(reg.visual)))
    return (type(reg).__name__, repr(params(reg)), repr(dict(reg.meta)), repr(dict(reg.visual)))


def model_params(j):
    """the Lean region JSON -> same layout as params() (Fractions)."""
    k = j['kind']
    Q = Fraction
    if k == 'compound':
        return {'cls': 'Compound', 'op': {'and': 'and_', 'or': 'or_', 'xor': 'xor'}[j['op']], 'a': model_params(j['a']), 'b': model_params(j['b'])}
    out = {}
    if 'c' in j:
        out['center'] = [[Q(j['c'][0])], [Q(j['c'][1])]]
    if k == 'circle':
        out['radius'] = Q(j['r'])
    if k in ('ellipse', 'rectangle'):
        out['width'] = Q(j['w']); out['height'] = Q(j['h'])
    if 'dir' in j:
        out['angle'] = ['dir', Q(j['dir'][0]), Q(j['dir'][1])]
    if k == 'polygon':
        out['vertices'] = [[Q(p[0]) for p in j['v']], [Q(p[1]) for p in j['v']]]
    if k == 'circle_annulus':
        out['inner_radius'] = Q(j['r1']); out['outer_radius'] = Q(j['r2'])
    if k in ('ellipse_annulus', 'rectangle_annulus'):
        out['inner_width'] = Q(j['w1']); out['inner_height'] = Q(j['h1'])
        out['outer_width'] = Q(j['w2']); out['outer_height'] = Q(j['h2'])
    if k == 'line':
        out['start'] = [[Q(j['a'][0])], [Q(j['a'][1])]]; out['end'] = [[Q(j['b'][0])], [Q(j['b'][1])]]
    return out


def close_params(real, mod, tol):
    """every numeric parameter the model lists agrees with the real one within tol."""
    if real.get('cls') == 'Compound':
        return (mod.get('cls') == 'Compound' and real['op'] == mod['op']
                and close_params(real['a'], mod['a'], tol) and close_params(real['b'], mod['b'], tol))
    for key, mv in mod.items():
        if key in ('cls',):
            continue
        rv = real.get(key)
        if rv is None:
            return False
        if isinstance(mv, list) and mv and mv[0] == 'dir':
            if abs(rv[1] - float(mv[1])) > 1e-9 or abs(rv[2] - float(mv[2])) > 1e-9:
                return False
        elif isinstance(mv, list):
            for ra, ma in zip(rv, mv):
                if len(ra) != len(ma):
                    return False
                if any(abs(x - float(y)) > tol for x, y in zip(ra, ma)):
                    return False
        else:
            if abs(rv - float(mv)) > 1e-12 * max(1.0, abs(rv)):
                return False
    return True


def shift_desc(d, kx, ky):
    d = copy.deepcopy(d)
    if d['kind'] == 'compound':
        d['a'] = shift_desc(d['a'], kx, ky); d['b'] = shift_desc(d['b'], kx, ky)
        return d
    for key in ('c', 'a', 'b'):
        if key in d and isinstance(d[key], list):
            d[key] = [d[key][0] + kx, d[key][1] + ky]
    if 'v' in d:
        d['v'] = [[p[0] + kx, p[1] + ky] for p in d['v']]
    return d


def dyadic_region(rng, kind=None):
    kind = kind or rng.choice(G.SIMPLE_KINDS + ['line', 'point'])
    d = G.gen_simple(rng, kind=kind, scale=1.0, center_scale=0)
    q = lambda: float(Fraction(rng.randint(-80, 80), 16))
    qs = lambda: float(Fraction(rng.randint(2, 96), 16))
    for key in ('c', 'a', 'b'):
        if key in d:
            d[key] = [q(), q()]
    for key in ('r', 'w', 'h'):
        if key in d:
            d[key] = qs()
    if kind == 'circle_annulus':
        d['r1'] = qs(); d['r2'] = d['r1'] + qs()
    if kind in ('rectangle_annulus', 'ellipse_annulus'):
        d['w1'] = qs(); d['h1'] = qs(); d['w2'] = d['w1'] + qs(); d['h2'] = d['h1'] + qs()
    if kind == 'polygon':
        d['v'] = [[q(), q()] for _ in range(rng.randint(3, 7))]
    if 'angle' in d:
        d['angle'] = rng.choice([[0.0, 'deg'], [30.0, 'deg'], [0.5, 'rad'], [float(rng.randint(-180, 180)), 'deg']])
    return d


class Check(PropertyCheck):
    id = 'C15'
    lean_targets = ['RegionsVerif.Props.C15', 'RegionsVerif.Props.C15Box', 'RegionsVerif.Props.C15Mask', 'RegionsVerif.Props.C15Area', 'RegionsVerif.Props.C15Poly', 'RegionsVerif.Props.C01Convex', 'RegionsVerif.Props.C01Fan', 'RegionsVerif.Bridge.FormulasC15', 'RegionsVerif.Bridge.RotateGlue']
    namespaces = ['RegionsVerif.Props.C15', 'RegionsVerif.Bridge.C15', 'RegionsVerif.Bridge.RotateGlue']
    rule = ('rotation: all pixel region classes incl. regular polygons, annuli, lines/points/text and compounds to depth 2 x '
            'rotation centres (near, far) x angles of any magnitude/sign/unit x query points scaled to the shape; '
            'translation: dyadic-parameter regions x integer shifts up to +-1e4 x modes center/subpixels/exact. '
            'Non-trivial = at least one query point inside and one outside, or a non-empty mask.')
    assumptions = ['floating-point rounding of the rotated coordinates (a few ulp of |p|+|centre|) is excepted: numeric parameters are '
                   'compared within 1e-9*(scale), membership only outside a boundary band max(1e-9, 1e-13*(|p|+|o|)/size)',
                   'bounding boxes under translation: sides within 1e-9 of a pixel edge with inexact trigonometry are excepted']
    validated_only = ['rotation invariance of the even-odd rule at positions ON a fan line of a polygon (a null set; proved in generic position for arbitrary polygons via the fan parity, C01Fan / C15Poly): '
                      'decided by the differential run against the exact crossing oracle on rotated polygons',
                      'mask arrays unchanged under translation are a theorem for the model (C15Mask.mask_shift, center/subpixels); exact mode and the compiled kernels: checked on the real code (exact array equality)']

    def translate(self):
        # tie T: regenerate Gen/FormulasC15.lean (PixCoord.rotate) from the current source
        import importlib.util, os
        from .common import VERIF
        spec = importlib.util.spec_from_file_location('py2lean', os.path.join(VERIF, 'tools', 'py2lean.py'))
        mod = importlib.util.module_from_spec(spec)
        spec.loader.exec_module(mod)
        problems, _ = mod.main(['C15'])
        # … and Gen/RotateGlue.lean (what every class's rotate() changes) by symbolic interpretation
        spec = importlib.util.spec_from_file_location('rotateglue', os.path.join(VERIF, 'tools', 'rotateglue.py'))
        mod2 = importlib.util.module_from_spec(spec)
        spec.loader.exec_module(mod2)
        return problems + mod2.main()

    def generate(self, rng, tier):
        cases = []
        n = 450 if tier == 'quick' else 15000
        for _ in range(n):
            m = rng.random()
            if m < 0.8:
                d = G.gen_simple(rng, kind=rng.choice(G.SIMPLE_KINDS + G.EMPTY_KINDS),
                                 scale=rng.choice([0.1, 1.0, 1.0, 10.0, 1e3]), center_scale=rng.choice([0, 10, 1e3]))
            else:
                d = G.gen_compound(rng, rng.randint(1, 2),
                                   lambda: G.gen_simple(rng, kind=rng.choice(G.SIMPLE_KINDS), scale=rng.choice([1.0, 4.0]), center_scale=5))
            cc = G.approx_center(d)
            size = G.approx_size(d)
            e = rng.choice([1e-7, 3e-6, 8e-6])
            o = rng.choice([[0.0, 0.0], list(cc), [cc[0] + rng.uniform(-3, 3) * size, cc[1] + rng.uniform(-3, 3) * size],
                            [rng.uniform(-1e3, 1e3), rng.uniform(-1e3, 1e3)],
                            # a pivot that is close to the centre (within any plausible comparison tolerance) but is not the centre
                            [cc[0] + e * max(abs(cc[0]), 1.0), cc[1] - e * max(abs(cc[1]), 1.0)]])
            ang = G.rangle(rng)
            pts = query_points(rng, d if d['kind'] != 'compound' else d['a'], 14)
            case = {'kind': 'rotate', 'region': d, 'o': o, 'angle': ang, 'pts': [list(p) for p in pts]}
            if d['kind'] != 'compound' and (d['kind'] == 'text' or rng.random() < 0.2):
                # visual attributes as a parsed DS9 line gives them (a text angle among them): "same metadata" covers them
                case['visual'] = dict(rng.sample([('rotation', 30.0), ('color', 'green'), ('linewidth', 2), ('fontsize', 12),
                                                  ('textangle', 45.0), ('fill', True), ('marker', '+')], rng.randint(1, 3)))
                if d['kind'] == 'text':
                    case['visual']['rotation'] = float(rng.choice([30, 90, 275]))
            cases.append(case)
        n2 = 250 if tier == 'quick' else 8000
        for _ in range(n2):
            if rng.random() < 0.8:
                d = dyadic_region(rng)
            else:
                d = G.gen_compound(rng, 1, lambda: dyadic_region(rng, rng.choice(G.SIMPLE_KINDS)))
            k = rng.choice([1, 7, 100, 10 ** 4])
            cases.append({'kind': 'shift', 'region': d, 'kx': rng.randint(-k, k), 'ky': rng.randint(-k, k),
                          'subpixels': rng.choice([1, 2, 2, 3, 4, 4, 5, 6, 8]),
                          # the translated region is a NEW object, or the same object moved in place after it was used
                          'inplace': rng.random() < 0.5})
        return cases

    # ------------------------------------------------------------------ real
    def real(self, case):
        import astropy.units as u
        from regions import PixCoord
        d = case['region']
        reg = G.build(d)
        for kk, vv in (case.get('visual') or {}).items():
            reg.visual[kk] = vv
        if case['kind'] == 'rotate':
            before = snapshot(reg)
            o = PixCoord(case['o'][0], case['o'][1])
            ang = case['angle'][0] * u.Unit(case['angle'][1])
            out = {}
            try:
                if int(abs(case['o'][0]) * 1e6) % 3 == 0:
                    # the angle OBJECT was used before with another value and then changed in place (exactly: doubling
                    # and halving are exact), as in `angle = 0*u.deg; for ...: angle += step; reg.rotate(pivot, angle)`
                    ang = ang * 2
                    reg.rotate(o, ang)
                    ang /= 2
                r2 = reg.rotate(o, ang)
                r3 = r2.rotate(o, -ang)
            except Exception as e:
                return {'exc': f'{type(e).__name__}: {e}'}
            out['unchanged'] = snapshot(reg) == before
            out['cls_same'] = type(r2) is type(reg)
            out['meta_same'] = (r2.meta == reg.meta) and (r2.visual == reg.visual)
            out['meta_independent'] = (r2.meta is not reg.meta) and (r2.visual is not reg.visual)
            out['params'] = params(r2)
            out['back'] = params(r3)
            out['orig'] = params(reg)
            try:
                out['area'] = [float(reg.area), float(r2.area)]
            except NotImplementedError:
                out['area'] = None
            xs = np.array([p[0] for p in case['pts']]); ys = np.array([p[1] for p in case['pts']])
            pc = PixCoord(xs, ys)
            pr = pc.rotate(o, ang)
            out['pts_rot'] = [np.asarray(pr.x).tolist(), np.asarray(pr.y).tolist()]
            out['contains'] = [bool(v) for v in np.ravel(reg.contains(pc))]
            out['contains_rot'] = [bool(v) for v in np.ravel(r2.contains(pr))]
            out['model_region'] = G.model(d, reg)
            return out
        # shift
        d2 = shift_desc(d, case['kx'], case['ky'])
        if case.get('inplace') and d['kind'] in G.HISTORY_KINDS and 'origin' not in d:
            reg2 = G.build(d)
            G.warm(reg2)
            reg2 = G.reassign(reg2, d2, prev=d)
        else:
            reg2 = G.build(d2)
        b1, b2 = reg.bounding_box, reg2.bounding_box
        out = {'box': [b1.ixmin, b1.ixmax, b1.iymin, b1.iymax], 'box2': [b2.ixmin, b2.ixmax, b2.iymin, b2.iymax], 'masks': {}}
        if (b1.ixmax - b1.ixmin) * (b1.iymax - b1.iymin) <= 40000:
            for mode, kw in (('center', {}), ('subpixels', {'subpixels': case['subpixels']}), ('exact', {})):
                try:
                    m1 = reg.to_mask(mode=mode, **kw).data
                    m2 = reg2.to_mask(mode=mode, **kw).data
                except NotImplementedError:
                    out['masks'][mode] = 'NotImplemented'
                    continue
                except Exception as e:
                    out['masks'][mode] = f'exc {type(e).__name__}: {e}'
                    continue
                if m1.shape != m2.shape:
                    out['masks'][mode] = 'shape'
                elif np.array_equal(m1, m2):
                    out['masks'][mode] = 'equal'
                elif np.allclose(m1, m2, rtol=0, atol=1e-9):
                    out['masks'][mode] = 'close'
                elif (mode != 'exact' and not self._exact_arithmetic(d, 1 if mode == 'center' else case['subpixels'])
                      and self._only_boundary_samples(d, b1, m1, m2, 1 if mode == 'center' else case['subpixels'])):
                    out['masks'][mode] = 'boundary'
                else:
                    out['masks'][mode] = f'differ max={float(np.abs(m1 - m2).max()):.3g}'
                out.setdefault('nonempty', bool(m1.sum() > 0))
        return out

    @staticmethod
    def _exact_arithmetic(d, n):
        """plain polygons with dyadic vertices, integer shifts and a power-of-two sampling factor: every
        sample position and every on-edge comparison of the even-odd kernel is exact in binary floating point (the
        quotient of an on-edge sample is itself dyadic), so NOT EVEN samples on an edge may change under a
        whole-pixel translation."""
        return d['kind'] == 'polygon' and 'origin' not in d and n in (1, 2, 4, 8)

    @staticmethod
    def _only_boundary_samples(d, b1, m1, m2, n):
        """the two masks differ only in pixels that have at least as many sub-sample points ON the
        boundary (exact relative distance < 1e-9) as the difference in counted samples."""
        ys, xs = np.nonzero(m1 != m2)
        for j, i in zip(ys.tolist(), xs.tolist()):
            need = round(abs(float(m1[j, i]) - float(m2[j, i])) * n * n)
            have = 0
            for a in range(n):
                for b in range(n):
                    x = Fraction(b1.ixmin + i) - Fraction(1, 2) + Fraction(2 * b + 1, 2 * n)
                    y = Fraction(b1.iymin + j) - Fraction(1, 2) + Fraction(2 * a + 1, 2 * n)
                    _, mg = G.spec_contains(d, x, y)
                    if mg < Fraction(1, 10 ** 9):
                        have += 1
            if have < need:
                return False
        return True

    # ------------------------------------------------------------------ model
    def requests(self, case):
        d = case['region']
        reg = G.build(d)
        if case['kind'] == 'rotate':
            c, s = G.code_dir(case['angle'])
            return [{'op': 'region.rotate', 'region': G.model(d, reg), 'o': [frac(F(case['o'][0])), frac(F(case['o'][1]))],
                     'dir': [frac(c), frac(s)], 'pts': [[frac(F(p[0])), frac(F(p[1]))] for p in case['pts']]}]
        return [{'op': 'region.shift', 'region': G.model(d, reg), 'kx': case['kx'], 'ky': case['ky']}]

    def model(self, case, replies):
        return replies[0]

    def _tol(self, case):
        d = case['region']
        cc = G.approx_center(d)
        return 1e-9 * (G.approx_size(d) + abs(cc[0]) + abs(cc[1]) + abs(case['o'][0]) + abs(case['o'][1]) + 1e-3)

    def _band(self, case, p):
        d = case['region']
        s = G.approx_size(d)
        cc = G.approx_center(d)
        return max(1e-9, 1e-12 * (abs(p[0]) + abs(p[1]) + abs(case['o'][0]) + abs(case['o'][1]) + abs(cc[0]) + abs(cc[1])) / s)

    def equal(self, case, real, model):
        if 'exc' in real or 'fail' in model:
            return False
        if case['kind'] == 'rotate':
            tol = self._tol(case)
            if not close_params(real['params'], model_params(model['region']), tol):
                return False
            if not close_params(real['back'], model_params(model['back']), tol):
                return False
            d = case['region']
            for p, ra, rr, ma, mr in zip(case['pts'], real['contains'], real['contains_rot'], model['contains'], model['contains_rot']):
                _, mg = G.spec_contains(d, F(p[0]), F(p[1]))
                if mg < self._band(case, p):
                    continue
                if ra != ma or rr != mr:
                    return False
            if real['area'] is not None and model['area'] is not None:
                # (cos, sin) as floats are a unit vector only to ~1e-16, so the polygon shoelace area is too
                for a0, a1 in zip(model['area'], model['area_rot']):
                    a0, a1 = Fraction(a0), Fraction(a1)
                    if abs(a0 - a1) > Fraction(1, 10 ** 12) * max(abs(a0), Fraction(1, 10 ** 30)):
                        return False
            return True
        # shift
        sk = C04.Check()._skip_sides(case['region'])
        mb = model['bbox'].get('ok'); mb2 = model['bbox_shifted'].get('ok')
        if mb is None or mb2 is None:
            return False
        mb = [int(v) for v in mb]; mb2 = [int(v) for v in mb2]
        for i in range(4):
            if sk[i]:
                continue
            if real['box'][i] != mb[i] or real['box2'][i] != mb2[i]:
                return False
        return True

    # ------------------------------------------------------------------ oracle
    def oracle(self, case, real):
        V = []
        d = case['region']
        def bad(kind, detail):
            V.append({'kind': kind, 'detail': f'{detail} :: region={d} case={ {k: v for k, v in case.items() if k not in ("region", "pts")} }'})
        if 'exc' in real:
            bad('exception', real['exc'])
            return V
        if case['kind'] == 'rotate':
            if not real['unchanged']:
                bad('original_mutated', '')
            if not real['cls_same']:
                bad('class_changed', real['params'].get('cls'))
            if not real['meta_same']:
                bad('meta_changed', '')
            if not real['meta_independent']:
                bad('meta_shared_with_original', '')
            if real['area'] is not None:
                a0, a1 = real['area']
                # relative to the area, plus the rounding of the shoelace terms themselves (of the order of
                # eps * size^2, which matters for self-intersecting polygons whose signed areas cancel)
                if abs(a0 - a1) > 1e-9 * abs(a0) + 1e-12 * G.approx_size(d) ** 2:
                    bad('area_changed', f'{a0} -> {a1}')
            tol = self._tol(case)
            back = {k: v for k, v in real['back'].items()}
            if not self._params_close(real['orig'], back, tol):
                bad('rotate_back_differs', f'{real["orig"]} vs {back}')
            for p, ra, rr in zip(case['pts'], real['contains'], real['contains_rot']):
                sa, mg = G.spec_contains(d, F(p[0]), F(p[1]))
                if mg < self._band(case, p):
                    continue
                if rr != ra:
                    bad('membership_not_invariant', f'point={p} before={ra} after={rr} margin={float(mg):.3g}')
                    break
                if rr != sa:
                    bad('membership_wrong_after_rotation', f'point={p} rotated={rr} spec={sa} margin={float(mg):.3g}')
                    break
            return V
        # shift
        sk = C04.Check()._skip_sides(d)
        kx, ky = case['kx'], case['ky']
        exp = [real['box'][0] + kx, real['box'][1] + kx, real['box'][2] + ky, real['box'][3] + ky]
        for i in range(4):
            if not sk[i] and real['box2'][i] != exp[i]:
                bad('bbox_not_translated', f'{real["box"]} + ({kx},{ky}) -> {real["box2"]}')
                break
        if not any(sk):
            for mode, res in real['masks'].items():
                if res not in ('equal', 'close', 'boundary', 'NotImplemented'):
                    bad('mask_changed_by_translation', f'mode={mode}: {res}')
        return V

    @staticmethod
    def _params_close(a, b, tol):
        if a.get('cls') == 'Compound':
            return b.get('cls') == 'Compound' and a['op'] == b['op'] and Check._params_close(a['a'], b['a'], tol) and Check._params_close(a['b'], b['b'], tol)
        if set(a) != set(b):
            return False
        for k in a:
            va, vb = a[k], b[k]
            if isinstance(va, list) and va and va[0] == 'dir':
                if abs(va[1] - vb[1]) > 1e-9 or abs(va[2] - vb[2]) > 1e-9:
                    return False
            elif isinstance(va, list):
                for ra, rb in zip(va, vb):
                    if len(ra) != len(rb) or any(abs(x - y) > tol for x, y in zip(ra, rb)):
                        return False
            elif isinstance(va, float):
                if abs(va - vb) > 1e-12 * max(1.0, abs(va)):
                    return False
            elif va != vb:
                return False
        return True

    def nontrivial(self, case, real):
        if case['kind'] == 'rotate':
            return len(set(real.get('contains') or [])) == 2
        return bool(real.get('nonempty'))

    def bucket(self, case, real):
        return f"{case['kind']}/{case['region']['kind']}"
