"""
The check pipeline shared by all properties (DESIGN.md §2.5):

 translate (tie T) -> lake build (proof obligations, bridges) -> audit ->
 correspondence run (tie C: real code vs Lean model on the same cases) ->
 property oracle on the real code (Spec-level, independent of the model) ->
 verdict -> evidence file.
"""
import hashlib
import json
import tempfile
import multiprocessing as mp
import os
import random
import sys
import time
import traceback

from . import common
from .common import VERIF, LEAN_DIR


class PropertyCheck:
    id = None
    lean_targets = []          # lake targets that carry the proof obligations
    namespaces = []            # namespaces whose theorems are the obligations
    level = 'proof'
    rule = ''
    assumptions = []
    validated_only = []        # claims of the property that are NOT theorems
    parallel = False           # run `real` in a process pool

    @property
    def driver_main(self):
        return f'Driver/{self.id}Main.lean'

    @property
    def driver_target(self):
        return f'Driver.{self.id}Main'

    # ---- tie T ------------------------------------------------------
    def translate(self):
        """regenerate Gen/*.lean from the current source; return list of problems."""
        return []

    # ---- tie C ------------------------------------------------------
    def corpus(self):
        d = os.path.join(VERIF, 'corpus', self.id)
        out = []
        if os.path.isdir(d):
            for fn in sorted(os.listdir(d)):
                if fn.endswith('.json'):
                    c = json.load(open(os.path.join(d, fn)))
                    out.extend(c if isinstance(c, list) else [c])
        return out

    def generate(self, rng, tier):
        raise NotImplementedError

    def real(self, case):
        raise NotImplementedError

    def requests(self, case):
        return []

    def model(self, case, replies):
        return None

    def equal(self, case, real, model):
        return real == model

    def oracle(self, case, real):
        """Spec-level check of the property on the real result. -> list of violations
        (dicts with at least 'kind' and 'detail')."""
        return []

    def nontrivial(self, case, real):
        return True

    def bucket(self, case, real):
        return case.get('kind', 'case')

    def search(self, rng, tier, disagreements):
        """extra cases for the failing-input search when a tie is broken."""
        return self.generate(rng, 'thorough' if tier == 'quick' else tier)

    def finding_match(self, finding, violation):
        return finding.get('kind') == violation.get('kind')

    def extra_checks(self, rng, tier):
        """whole-run checks that are not per-case (e.g. cross-process determinism).
        -> (n_evaluations, violations, info dict)"""
        return 0, [], {}


def _real_worker(args):
    prop, case = args
    try:
        return prop.real(case)
    except Exception as e:  # harness bug or unexpected exception class
        # an exception that escapes from the LIBRARY (innermost frame inside the regions package) during an operation
        # the harness expected to succeed is a behaviour of the code under test on this input, not a harness fault
        tb = e.__traceback__
        files = []
        while tb is not None:
            files.append(os.path.realpath(tb.tb_frame.f_code.co_filename))
            tb = tb.tb_next
        src = os.path.realpath(os.environ.get('REGIONS_SRC', '/repo'))
        lib = os.path.join(src, 'regions') + os.sep
        hdir = os.path.realpath(os.path.dirname(__file__)) + os.sep
        k_h = max([i for i, f in enumerate(files) if f.startswith(hdir)], default=-1)
        below = [f for f in files[k_h + 1:] if f.startswith(lib)]
        in_lib = bool(below)          # the harness called into the library and the exception came out of that call
        last = below[-1] if below else (files[-1] if files else None)
        key = '__library_exception__' if in_lib else '__harness_exception__'
        return {key: f'{type(e).__name__}: {e}', '_where': last,
                'tb': traceback.format_exc()[-1500:]}


def case_key(case):
    return hashlib.sha1(json.dumps(case, sort_keys=True, default=str).encode()).hexdigest()


def run_cases(prop, cases, have_model):
    """returns list of (case, real, model, disagreement?, violations)"""
    t0 = time.time()
    if prop.parallel and len(cases) > 64:
        with mp.Pool(min(16, os.cpu_count() or 1)) as pool:
            reals = pool.map(_real_worker, [(prop, c) for c in cases], chunksize=max(1, len(cases) // 64))
    else:
        reals = [_real_worker((prop, c)) for c in cases]
    models = [None] * len(cases)
    if have_model:
        reqs = []
        spans = []
        for c in cases:
            r = prop.requests(c)
            spans.append((len(reqs), len(reqs) + len(r)))
            reqs.extend(r)
        replies = common.run_driver(reqs, prop.driver_main)
        for i, c in enumerate(cases):
            a, b = spans[i]
            models[i] = prop.model(c, replies[a:b])
    out = []
    for c, r, m in zip(cases, reals, models):
        if isinstance(r, dict) and '__harness_exception__' in r:
            out.append((c, r, m, True, [{'kind': 'harness_exception', 'detail': r['__harness_exception__'], 'tb': r.get('tb')}]))
            continue
        if isinstance(r, dict) and '__library_exception__' in r:
            out.append((c, r, m, True, [{'kind': 'operation_raised', 'detail': r['__library_exception__'] + ' (raised inside ' + str(r.get('_where')) + ')',
                                         'tb': r.get('tb')}]))
            continue
        dis = have_model and not prop.equal(c, r, m)
        try:
            viol = prop.oracle(c, r)
        except Exception as e:
            viol = [{'kind': 'harness_exception', 'detail': f'oracle: {type(e).__name__}: {e}',
                     'tb': traceback.format_exc()[-1500:]}]
        out.append((c, r, m, dis, viol))
    return out


def write_replay(prop, name, payload):
    d = os.path.join(VERIF, 'replays', prop.id)
    os.makedirs(d, exist_ok=True)
    p = os.path.join(d, name + '.json')
    with open(p, 'w') as f:
        json.dump(common.jsonable(payload), f, indent=1, sort_keys=True)
    return os.path.relpath(p, VERIF)


def run_check(prop, tier, seed, replay=None):
    t0 = time.time()
    rng = random.Random(seed * 1000003 + int(hashlib.sha1(prop.id.encode()).hexdigest()[:8], 16))
    broken = []          # list of (what, detail) : ties / proofs that no longer check
    info = {}

    # 1. translator
    try:
        problems = prop.translate()
    except Exception as e:
        problems = [f'translator crashed: {type(e).__name__}: {e}']
    for p in problems:
        broken.append(('translator', p))

    # 2. build
    ok, log = common.lake_build(list(prop.lean_targets) + [prop.driver_target])
    have_model = True
    if not ok:
        broken.append(('lake build', common.first_error(log)))
        # try the driver alone (Impl may still be intact when only a proof/bridge broke)
        ok2, _ = common.lake_build([prop.driver_target])
        have_model = ok2
    # 3. audit
    thms = {}
    bad_axioms = {}
    if ok:
        try:
            thms = common.audit(prop.namespaces, prop.lean_targets, prop.id)
        except common.LeanError as e:
            broken.append(('audit', str(e)[:500]))
        for n, axs in thms.items():
            extra = [a for a in axs if a not in common.ALLOWED_AXIOMS]
            if extra:
                bad_axioms[n] = extra
        for n, extra in bad_axioms.items():
            broken.append(('axioms', f'{n} depends on {extra}'))
    hits = common.grep_forbidden(list(prop.lean_targets) + [prop.driver_target])
    for h in hits:
        broken.append(('forbidden construct', h))
    if tier == 'thorough' and ok and os.environ.get('VERIF_LEANCHECKER', '1') == '1':
        import subprocess
        p = subprocess.run(['lake', 'env', 'leanchecker'] + list(prop.lean_targets), cwd=LEAN_DIR,
                           capture_output=True, text=True)
        info['leanchecker'] = 'ok' if p.returncode == 0 else (p.stdout + p.stderr)[-500:]
        if p.returncode != 0:
            broken.append(('leanchecker', info['leanchecker']))

    # 4./5. correspondence + oracle
    if replay:
        payload = json.load(open(replay))
        cases = payload['cases'] if 'cases' in payload else [payload['case']]
    else:
        cases = prop.corpus() + prop.generate(rng, tier)
    results = run_cases(prop, cases, have_model)
    n_extra, extra_viol, extra_info = (0, [], {}) if replay else prop.extra_checks(rng, tier)
    info.update(extra_info)

    disagreements = [(c, r, m) for (c, r, m, d, v) in results if d]
    if disagreements:
        broken.append(('correspondence', f'{len(disagreements)} of {len(cases)} cases: model and code differ'))
    violations = [(c, r, v) for (c, r, m, d, vs) in results for v in vs] + [(None, None, v) for v in extra_viol]

    # 7. failing-input search when something broke and no concrete violation yet
    searched = 0
    if broken and not violations and not replay:
        extra = prop.search(rng, tier, [c for (c, r, m) in disagreements])
        searched = len(extra)
        res2 = run_cases(prop, extra, False)
        violations += [(c, r, v) for (c, r, m, d, vs) in res2 for v in vs]

    # verdict
    findings = [f for f in common.load_findings() if f['property'] == prop.id]
    open_f = [f for f in findings if f.get('status') == 'open']
    known_hits = {}
    new_viol = []
    for (c, r, v) in violations:
        matched = None
        if v.get('kind') != 'harness_exception':
            for f in open_f:
                if prop.finding_match(f, v):
                    matched = f
                    break
        if matched:
            known_hits.setdefault(matched['id'], []).append((c, v))
        else:
            new_viol.append((c, r, v))
    out_lines = []
    for f in open_f:
        if f['id'] in known_hits:
            out_lines.append(f"KNOWN-FINDING: property={prop.id} {f['id']} {f['what']}")
    exit_code = 0
    replay_path = None
    if new_viol:
        c, r, v = new_viol[0]
        name = f"{tier}_{seed}_{v.get('kind','violation')}"
        replay_path = write_replay(prop, name, {
            'property': prop.id, 'violation': v, 'case': c, 'real': r,
            'n_violations': len(new_viol),
            'others': [{'case': c2, 'violation': v2} for (c2, r2, v2) in new_viol[1:6]],
            'broken': broken,
            'how_to_replay': f'./check {prop.id} --replay <this file>'})
        out_lines.append(f'VIOLATION property={prop.id} replay={replay_path}')
        exit_code = 1
    elif broken:
        name = f'{tier}_{seed}_tie_broken'
        replay_path = write_replay(prop, name, {
            'property': prop.id, 'broken': broken,
            'disagreements': [{'case': c, 'real': r, 'model': m} for (c, r, m) in disagreements[:10]],
            'cases': [c for (c, r, m) in disagreements[:50]],
            'searched_cases': searched + len(cases),
            'note': 'a proof obligation / bridge / correspondence no longer checks; '
                    'no input on which the property fails on the real code was found'})
        out_lines.append(f'VIOLATION property={prop.id} replay={replay_path} no-failing-input-found')
        exit_code = 1

    # evidence
    keys = set()
    buckets = {}
    nontriv = 0
    for (c, r, m, d, vs) in results:
        k = case_key(c)
        b = prop.bucket(c, r)
        buckets[b] = buckets.get(b, 0) + 1
        if k not in keys:
            keys.add(k)
            try:
                if prop.nontrivial(c, r):
                    nontriv += 1
            except Exception:
                pass
    n_obl = len(thms)
    n_dis = len([n for n in thms if n not in bad_axioms]) if ok else 0
    samples = []
    step = max(1, len(results) // 4)
    for (c, r, m, d, vs) in results[::step][:4]:
        samples.append({'case': c, 'real': r, 'model': m})
    evidence = {
        'property_id': prop.id,
        'tier': tier,
        'seed': seed,
        'level': prop.level,
        'wall_s': round(time.time() - t0, 2),
        'violations': len(new_viol) + (1 if (broken and not new_viol) else 0),
        'assumptions': list(prop.assumptions),
        'coverage': {
            'obligations': n_obl,
            'discharged': n_dis,
            'checker_cmd': 'cd lean && lake build ' + ' '.join(prop.lean_targets)
                           + ' && lake env lean <generated #audit_namespaces file>'
                           + (' && lake env leanchecker ' + ' '.join(prop.lean_targets) if tier == 'thorough' else ''),
            'trusted_base': common.TRUSTED_BASE,
            'theorems': sorted(thms),
            'axioms_used': sorted({a for axs in thms.values() for a in axs}),
            'validated_only': list(prop.validated_only),
            'evaluations': len(results) + searched + n_extra,
            'distinct_nontrivial': nontriv,
            'rule': prop.rule,
            'correspondence': {'cases': len(results) if have_model else 0,
                               'disagreements': len(disagreements),
                               'model_available': have_model},
            'input_distribution': dict(sorted(buckets.items())),
            'known_findings_confirmed': sorted(known_hits),
            'ties_broken': [list(b) for b in broken],
            'samples': common.jsonable(samples),
            'info': common.jsonable(info),
        },
    }
    os.makedirs(os.path.join(VERIF, 'evidence'), exist_ok=True)
    if not replay:
        # evidence/<id>.json records runs against /repo itself; a run against another source tree
        # (REGIONS_SRC = a scratch worktree with a seeded change) writes beside it and never overwrites it
        ev_name = prop.id + ('.json' if not os.environ.get('REGIONS_SRC') else '.seeded.json')
        ev_dir = os.path.join(VERIF, 'evidence') if not os.environ.get('REGIONS_SRC') else tempfile.gettempdir()
        with open(os.path.join(ev_dir, ev_name), 'w') as f:
            json.dump(evidence, f, indent=1)
    try:
        _report(prop, out_lines, tier, seed, n_obl, n_dis, results, disagreements, new_viol, known_hits, broken, evidence)
    except BrokenPipeError:
        pass
    return exit_code


def _report(prop, out_lines, tier, seed, n_obl, n_dis, results, disagreements, new_viol, known_hits, broken, evidence):
    for l in out_lines:
        print(l, flush=True)
    print(f'[{prop.id}] tier={tier} seed={seed} obligations={n_obl}/{n_dis} cases={len(results)} '
          f'disagreements={len(disagreements)} violations={len(new_viol)} known={sorted(known_hits)} '
          f'broken={len(broken)} wall={evidence["wall_s"]}s')
    for b in broken[:5]:
        print('  broken:', b[0], '-', b[1][:300])
    for (c, r, m) in disagreements[:3]:
        print('  disagreement:', json.dumps(common.jsonable({'case': c, 'real': r, 'model': m}))[:600])
    for (c, r, v) in new_viol[:5]:
        print('  violation:', v.get('kind'), '-', str(v.get('detail'))[:300])
