"""C01 — point membership equals the geometric definition of every pixel shape."""
import math
from fractions import Fraction

import numpy as np

from . import regiongen as G
from .common import frac
from .runner import PropertyCheck

MARGIN = Fraction(1, 10 ** 9)


def query_points(rng, d, n):
    """points scaled to the shape: a lattice/cloud around it and points at controlled
    margins from its boundary."""
    size = G.approx_size(d)
    cx, cy = G.approx_center(d)
    pts = []
    for _ in range(n):
        m = rng.random()
        if m < 0.04:
            # exactly the centre / anchor (for a point or text region: the one position a closed test would accept)
            pts.append((cx, cy))
        elif m < 0.45:
            pts.append((cx + rng.uniform(-1.3, 1.3) * size, cy + rng.uniform(-1.3, 1.3) * size))
        elif m < 0.6:
            pts.append((cx + float(Fraction(rng.randint(-12, 12), 8)) * size, cy + float(Fraction(rng.randint(-12, 12), 8)) * size))
        else:
            # near the boundary of a simple shape: radial offsets of relative size 1e-6..1e-1
            th = rng.uniform(0, 2 * math.pi)
            eps = rng.choice([1e-6, 1e-5, 1e-4, 1e-3, 1e-2, 1e-1]) * rng.choice([-1, 1])
            k = d['kind']
            if k == 'circle':
                r = d['r'] * (1 + eps)
                pts.append((cx + r * math.cos(th), cy + r * math.sin(th)))
            elif k == 'circle_annulus':
                r = rng.choice([d['r1'], d['r2']]) * (1 + eps)
                pts.append((cx + r * math.cos(th), cy + r * math.sin(th)))
            elif k in ('ellipse', 'ellipse_annulus', 'rectangle', 'rectangle_annulus'):
                if k in ('ellipse', 'rectangle'):
                    w, h = d['w'], d['h']
                else:
                    w, h = rng.choice([(d['w1'], d['h1']), (d['w2'], d['h2'])])
                c, s = (float(v) for v in G.exact_dir(d['angle']))
                if k.startswith('ellipse'):
                    a, b = 0.5 * w * math.cos(th) * (1 + eps), 0.5 * h * math.sin(th) * (1 + eps)
                else:
                    t = rng.uniform(-1, 1)
                    if rng.random() < 0.5:
                        a, b = 0.5 * w * (1 + eps) * rng.choice([-1, 1]), 0.5 * h * t
                    else:
                        a, b = 0.5 * w * t, 0.5 * h * (1 + eps) * rng.choice([-1, 1])
                pts.append((cx + a * c - b * s, cy + a * s + b * c))
            else:
                pts.append((cx + rng.uniform(-1, 1) * size, cy + rng.uniform(-1, 1) * size))
    return pts


class Check(PropertyCheck):
    id = 'C01'
    lean_targets = ['RegionsVerif.Props.C01', 'RegionsVerif.Props.C01Poly', 'RegionsVerif.Props.C01Cyclic', 'RegionsVerif.Props.C01Tri', 'RegionsVerif.Props.C01Convex', 'RegionsVerif.Props.C01Regular', 'RegionsVerif.Props.C01Rect', 'RegionsVerif.Props.C01Fan', 'RegionsVerif.Props.C01Star', 'RegionsVerif.Bridge.FormulasC01', 'RegionsVerif.Bridge.InlineGlueC01']
    namespaces = ['RegionsVerif.Props.C01', 'RegionsVerif.Bridge.C01', 'RegionsVerif.Bridge.InlineGlueC01']

    def _inline_glue(self):
        # tie T: normal forms of the glue methods (tools/inlineglue.py, group C01)
        import importlib.util, os
        from .common import VERIF
        spec = importlib.util.spec_from_file_location('inlineglue', os.path.join(VERIF, 'tools', 'inlineglue.py'))
        mod = importlib.util.module_from_spec(spec)
        spec.loader.exec_module(mod)
        return mod.main(['C01'])

    def translate(self):
        return list(self._translate0()) + list(self._inline_glue())
    rule = ('every shape class x sizes 1e-3..1e6 x centres to 1e6 x any angle in deg/rad/arcmin/hourangle x include flag in '
            '{absent, True, False, 1, 0} x query coordinates scalar / 0-length / 1-D / N-D (C-, Fortran-ordered, transposed and strided views), int or float; query points on a '
            'cloud scaled to the shape and at relative distances 1e-6..1e-1 from its boundary. Non-trivial = the case has at '
            'least one point inside and one outside (after the boundary exception).')
    assumptions = ['points whose exact relative distance to the boundary is < 1e-9 are excepted (C01 itself excepts rounding)',
                   'np.cos/np.sin of the angle are correct to a few ulp (the oracle uses an independent 50-digit evaluation)',
                   'numpy element-wise comparison keeps the array shape']
    validated_only = ['"even-odd = inside" for NON-convex simple polygons (no Jordan curve theorem): decided by the differential '
                      'run against an independent exact-rational crossing-number oracle; proved: correctness for every triangle and every strictly convex polygon '
                      '(C01Tri, C01Convex: open polygon -> true off the fan diagonals of one vertex, off the closed polygon -> false), exact fan decomposition for every polygon, division-free crossing test, '
                      'edge symmetry, translation invariance, independence of the starting vertex and of the direction of traversal, axis rectangles, confinement to the vertex range, parity of straddling edges']

    def _translate0(self):
        # tie T: regenerate Gen/FormulasC01.lean from the current source (tools/py2lean.py)
        import importlib.util, os
        from .common import VERIF
        spec = importlib.util.spec_from_file_location('py2lean', os.path.join(VERIF, 'tools', 'py2lean.py'))
        mod = importlib.util.module_from_spec(spec)
        spec.loader.exec_module(mod)
        problems, _ = mod.main(['C01'])
        return problems

    def generate(self, rng, tier):
        n = 700 if tier == 'quick' else 20000
        cases = []
        for i in range(n):
            m = rng.random()
            if m < 0.8:
                d = G.gen_simple(rng)
            elif m < 0.9:
                d = G.gen_simple(rng, kind=rng.choice(G.EMPTY_KINDS))
            else:
                d = G.gen_simple(rng, scale=1.0, center_scale=rng.choice([0, 10]))
            if d['kind'] in ('ellipse', 'rectangle') and not d.get('size_np') and rng.random() < 0.12:
                # needle-like shapes: axis ratio up to 1e9 (an algebraically equivalent conic form cancels catastrophically)
                d['h'] = d['w'] * rng.choice([1e-6, 1e-9, 1e9, 1e7])
            qs = rng.choice(['scalar', 'scalar', 'empty', '1d', '1d', '2d', '3d', '2dF', '2dT', '1dS', 'empty2d', 'empty2dT'])
            npts = {'scalar': 1, 'empty': 0, 'empty2d': 0, 'empty2dT': 0, '1d': rng.randint(1, 40), '2d': 12, '3d': 8,
                    '2dF': 12, '2dT': 12, '1dS': 9}[qs]
            pts = query_points(rng, d, npts)
            integer = rng.random() < 0.25
            idt = 'int64'
            if integer:
                # integer query arrays, also of narrow dtypes, with far-away points (the code must not
                # overflow in the query dtype) and, half of the time, an integer-valued centre
                idt = rng.choice(['int64', 'int32', 'int16'])
                if rng.random() < 0.5 and 'c' in d:
                    d['c'] = [float(round(max(-200.0, min(200.0, d['c'][0])))), float(round(max(-200.0, min(200.0, d['c'][1]))))]
                    d['c_int'] = True
                # offsets whose square wraps to (nearly) zero in the narrow dtype are the dangerous ones
                far = {'int64': 2 ** 32 * rng.randint(1, 3), 'int32': 65536 * rng.randint(1, 100),
                       'int16': 256 * rng.randint(1, 100)}[idt]
                cx0, cy0 = G.approx_center(d)
                lim = {'int64': 2 ** 62, 'int32': 2 ** 31 - 1, 'int16': 2 ** 15 - 1}[idt]
                pts = [(float(round(x)), float(round(y))) for (x, y) in pts]
                pts = [(x + rng.choice([far, -far, 0]), y + rng.choice([0, 0, far, -far])) if rng.random() < 0.5 else (x, y)
                       for (x, y) in pts]
                if any(abs(x) >= lim or abs(y) >= lim for (x, y) in pts) or abs(cx0) > 10 ** 5:
                    idt = 'int64'
                # unsigned / 8-bit query arrays when every coordinate is representable (differences with
                # the centre must not wrap in the query dtype)
                if rng.random() < 0.6:
                    for cand in ('uint8', 'int8', 'uint16', 'uint32'):
                        info = np.iinfo(cand)
                        if all(info.min <= x <= info.max and info.min <= y <= info.max for (x, y) in pts):
                            idt = cand
                            break
            fdt = None
            if not integer and qs != 'scalar' and rng.random() < 0.2:
                # narrow float query arrays: the positions are rounded to the type first, so every oracle sees the same
                # numbers; the arithmetic with the (float64) centre must still be done in double precision
                fdt = rng.choice(['float32', 'float32', 'float16'])
                T = getattr(np, fdt)
                with np.errstate(over='ignore'):
                    narrow = [(float(T(x)), float(T(y))) for (x, y) in pts]
                if all(math.isfinite(x) and math.isfinite(y) for (x, y) in narrow):
                    pts = narrow
                else:
                    fdt = None
            case = G.add_history(rng, {'kind': d['kind'], 'region': d, 'qshape': qs, 'int': integer, 'idtype': idt, 'fdtype': fdt,
                                       'pts': [[x, y] for (x, y) in pts]})
            if d['kind'] == 'regular_polygon' and rng.random() < 0.4:
                # the object was a regular polygon with ANOTHER vertex count (only `nvertices` is re-assigned), or another
                # radius / angle: every derived quantity has to follow
                k_ = rng.choice(['n', 'n', 'r', 'angle'])
                prev = dict(d)
                if k_ == 'n':
                    prev['n'] = rng.choice([v for v in range(3, 10) if v != d['n']])
                elif k_ == 'r':
                    prev['r'] = d['r'] * rng.choice([0.5, 2.0])
                else:
                    prev['angle'] = [d['angle'][0] + 1.0, d['angle'][1]]
                case['prev'] = prev
                case['only_changed'] = True
            cases.append(case)
        return cases

    @staticmethod
    def _coords(case):
        from regions import PixCoord
        xs = [p[0] for p in case['pts']]
        ys = [p[1] for p in case['pts']]
        dt = getattr(np, case.get('idtype', 'int64')) if case['int'] else float
        if not case['int'] and case.get('fdtype'):
            # the query arrays are float32 / float16 (the listed positions are exact in that type)
            dt = getattr(np, case['fdtype'])
        qs = case['qshape']
        if qs == 'scalar':
            return PixCoord((int if case['int'] else float)(xs[0]), (int if case['int'] else float)(ys[0])), None
        shape = {'empty': (0,), 'empty2d': (0, 3), 'empty2dT': (2, 0), '1d': (len(xs),), '2d': (3, 4), '3d': (2, 2, 2),
                 '2dF': (3, 4), '2dT': (3, 4), '1dS': (len(xs),)}[qs]
        ax = np.array(xs, dtype=dt).reshape(shape)
        ay = np.array(ys, dtype=dt).reshape(shape)
        # memory layouts other than C-contiguous: the answer must not depend on them
        if qs == '2dF':
            ax, ay = np.asfortranarray(ax), np.asfortranarray(ay)
        elif qs == '2dT':
            ax, ay = np.ascontiguousarray(ax.T).T, np.ascontiguousarray(ay.T).T
        elif qs == '1dS':
            bx = np.zeros(2 * len(xs), dtype=dt); by = np.zeros(2 * len(xs), dtype=dt)
            bx[::2] = ax; by[::2] = ay
            ax, ay = bx[::2], by[::2]
        return PixCoord(ax, ay), shape

    def real(self, case):
        from regions import PixCoord
        reg = G.build_case(case)
        pc, shape = self._coords(case)
        out = {}
        try:
            r = reg.contains(pc)
        except Exception as e:
            return {'exc': f'{type(e).__name__}: {e}'}
        if shape is None:
            out['scalar_ok'] = isinstance(r, (bool, np.bool_))
            out['shape'] = None if np.ndim(r) == 0 and not isinstance(r, np.ndarray) else list(np.shape(r))
            out['ans'] = [bool(r)] if np.size(r) == 1 else [bool(v) for v in np.ravel(r)]
            # `in` operator agrees for scalars
            try:
                out['dunder'] = bool(pc in reg)
            except Exception as e:
                out['dunder'] = f'{type(e).__name__}'
        else:
            out['shape'] = list(np.shape(r))
            out['dtype_bool'] = (np.asarray(r).dtype == bool)
            out['ans'] = [bool(v) for v in np.ravel(r)]
        out['model_region'] = G.model(case['region'], reg)
        # the polygon form of a rectangle / regular polygon answers the same (C01Rect, C01Regular)
        # (the polygon of a rectangle whose sizes are fixed-width numpy INTEGERS is left out: `corners` negates the
        # width, which wraps around for unsigned types - a defect of a derived quantity that no clause of C01 covers;
        # see DESIGN 12.5)
        if hasattr(reg, 'to_polygon') and shape is not None and case['region'].get('size_np') in (None, 'float32'):
            try:
                out['as_polygon'] = [bool(v) for v in np.ravel(reg.to_polygon().contains(pc))]
            except Exception as e:
                out['as_polygon'] = f'{type(e).__name__}: {e}'
        return out

    def requests(self, case):
        # the model needs the regular polygon's real vertices: rebuild (cheap) — deterministic
        reg = G.build_case(case)
        return [{'op': 'contains', 'region': G.model(case['region'], reg),
                 'pts': [[frac(Fraction(float(p[0]))), frac(Fraction(float(p[1])))] for p in case['pts']]}]

    def model(self, case, replies):
        r = replies[0]
        return {'ans': r.get('ok'), 'fail': r.get('fail')}

    def _margins(self, case):
        d = case['region']
        out = []
        for p in case['pts']:
            x, y = Fraction(float(p[0])), Fraction(float(p[1]))
            out.append(G.spec_contains(d, x, y))
        return out

    def equal(self, case, real, model):
        if 'exc' in real or model.get('fail'):
            return False
        if len(real['ans']) != len(model['ans']):
            return False
        spec = self._margins(case)
        for ra, ma, (sa, mg) in zip(real['ans'], model['ans'], spec):
            if mg < MARGIN:
                continue
            if ra != ma:
                return False
        return True

    def oracle(self, case, real):
        V = []
        def bad(kind, detail, **kw):
            V.append(dict(kind=kind, detail=f'{detail} :: region={case["region"]} qshape={case["qshape"]}', **kw))
        if 'exc' in real:
            bad('exception', real['exc'])
            return V
        qs = case['qshape']
        if qs == 'scalar':
            if not real['scalar_ok'] or real['shape'] is not None:
                bad('scalar_result_not_scalar', f'shape={real["shape"]}')
            if real['dunder'] != real['ans'][0]:
                bad('in_operator_disagrees', f'{real["dunder"]} vs {real["ans"]}')
        else:
            exp = {'empty': [0], 'empty2d': [0, 3], 'empty2dT': [2, 0], '1d': [len(case['pts'])], '2d': [3, 4], '3d': [2, 2, 2],
                   '2dF': [3, 4], '2dT': [3, 4], '1dS': [len(case['pts'])]}[qs]
            if real['shape'] != exp:
                bad('result_shape_wrong', f'{real["shape"]} != {exp}')
            if not real.get('dtype_bool', True):
                bad('result_dtype_not_bool', '')
        spec = self._margins(case)
        dd = case['region']

        def threshold(p):
            thr = MARGIN
            if dd['kind'] in ('ellipse', 'rectangle') and min(dd['w'], dd['h']) * 1e4 < max(dd['w'], dd['h']):
                # needle-like shapes: the rounding of the ANGLE (ulp of its value in radians) moves a point at distance D
                # from the centre by D * ulp across the needle, i.e. by D * ulp / (short semi-axis) in normalised units
                ang = abs(dd['angle'][0]) * {'deg': math.pi / 180, 'rad': 1.0, 'arcmin': math.pi / 10800, 'hourangle': math.pi / 12}[dd['angle'][1]]
                dist = math.hypot(p[0] - dd['c'][0], p[1] - dd['c'][1]) + max(dd['w'], dd['h'])
                # ... and the rounding of the coordinates themselves (an ulp of the largest coordinate) is of the order of
                # the needle's width when the shape sits far from the origin
                big = max(abs(dd['c'][0]), abs(dd['c'][1]), abs(p[0]), abs(p[1]), 1.0)
                thr = max(MARGIN, 1e-12 * max(ang, 1.0) * dist / min(dd['w'], dd['h']), 16 * 2.3e-16 * big / min(dd['w'], dd['h']))
            return thr
        for p, ra, (sa, mg) in zip(case['pts'], real['ans'], spec):
            if mg < threshold(p):
                continue
            if ra != sa:
                bad('membership_wrong', f'point={p} real={ra} spec={sa} margin={float(mg):.3g}', point=p)
                break
        ap = real.get('as_polygon')
        if isinstance(ap, str):
            bad('to_polygon_exception', ap)
        elif ap is not None:
            for p, pa, (sa, mg) in zip(case['pts'], ap, spec):
                # the polygon's vertices are centre + offset ROUNDED to the grid of doubles near the centre: far from the
                # origin that rounding (an ulp of the coordinate) is not small against a tiny shape
                big = max(abs(p[0]), abs(p[1]), 1.0)
                thr_poly = max(threshold(p), Fraction(16 * 2.3e-16 * big / max(G.approx_size(dd), 1e-300)))
                if mg >= thr_poly and pa != sa:
                    bad('to_polygon_membership_differs', f'point={p} polygon={pa} spec={sa} margin={float(mg):.3g}', point=p)
                    break
        return V

    def nontrivial(self, case, real):
        a = real.get('ans') or []
        return len(set(a)) == 2

    def bucket(self, case, real):
        return f"{case['kind']}/{case['qshape']}/{case['region'].get('include')}"
