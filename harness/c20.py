"""C20 — pixel coordinates behave as broadcast (x, y) arrays under every operation."""
import itertools
import json
import math
import warnings
from fractions import Fraction

import numpy as np

from .common import frac
from .runner import PropertyCheck

# ---------------------------------------------------------------------------------------------
# case encoding
#   array  = {'shape': [...], 'data': ['p/q', ...], 'dtype': 'int'|'float', 'form': 'py'|'np0d'|'npscalar'|'ndarray'|'list'}
#   coord  = {'x': array, 'y': array}
#   key    = [ {'t':'int','v':i} | {'t':'slice','a':..,'b':..,'c':..} | {'t':'ia','shape':..,'data':..,'form':..}
#            | {'t':'ba','shape':..,'data':..} | {'t':'ell'} ]      (+ case['bare'] = not wrapped in a tuple)
# ---------------------------------------------------------------------------------------------

UNITS = ['deg', 'rad', 'arcmin', 'arcsec', 'hourangle']
PYTH = [(3, 4, 5), (5, 12, 13), (8, 15, 17), (7, 24, 25), (20, 21, 29), (-3, 4, 5), (3, -4, 5), (-5, -12, 13),
        (0, 1, 1), (1, 0, 1), (-1, 0, 1), (0, -1, 1)]
NONPIX = ['int', 'float', 'tuple', 'none', 'ndarray', 'str']
TOL = 1e-9


def shapes_upto(rank, dims=(0, 1, 2, 3)):
    out = []
    for r in range(rank + 1):
        out.extend(list(t) for t in itertools.product(dims, repeat=r))
    return out


def py_bshape(a, b):
    """the standard broadcasting rule, written out (independent of numpy and of the Lean model)."""
    n = max(len(a), len(b))
    a = [1] * (n - len(a)) + list(a)
    b = [1] * (n - len(b)) + list(b)
    out = []
    for p, q in zip(a, b):
        if p == q or q == 1:
            out.append(p)
        elif p == 1:
            out.append(q)
        else:
            return None
    return out


def py_bvalues(shape, data, tgt):
    """broadcast values by the index rule: right-align, index 0 where the source dimension is 1."""
    n = len(tgt)
    src = [1] * (n - len(shape)) + list(shape)
    strides = [0] * n
    acc = 1
    for d in range(n - 1, -1, -1):
        strides[d] = acc
        acc *= src[d]
    out = []
    for mi in itertools.product(*[range(t) for t in tgt]):
        out.append(data[sum((0 if src[d] == 1 else mi[d]) * strides[d] for d in range(n))])
    return out


def prod(l):
    r = 1
    for v in l:
        r *= v
    return r


NPDTYPES = ['int8', 'int16', 'int32', 'int64', 'uint8', 'uint16', 'float32']


def fsqrt(q):
    """sqrt of an exact non-negative rational as a float, without overflow/underflow for extreme magnitudes."""
    q = Fraction(q)
    if q == 0:
        return 0.0
    e = (q.numerator.bit_length() - q.denominator.bit_length()) // 2
    scaled = q / Fraction(4) ** e if e >= 0 else q * Fraction(4) ** (-e)
    return math.ldexp(math.sqrt(float(scaled)), e)


def wrap_int(v, dtype):
    """the value numpy stores for the exact integer result v in an integer dtype (wrap-around is numpy's
    semantics of + and - in that dtype, not a property of PixCoord)."""
    ii = np.iinfo(dtype)
    lo, hi = int(ii.min), int(ii.max)
    return (int(v) - lo) % (hi - lo + 1) + lo


def mk_arr(a):
    shape = tuple(a['shape'])
    if a['dtype'] == 'int':
        vals = [int(Fraction(v)) for v in a['data']]
        dt = np.int64
    else:
        vals = [float(Fraction(v)) for v in a['data']]
        dt = np.float64
    if a.get('npdtype'):
        dt = np.dtype(a['npdtype']).type
    form = a.get('form', 'ndarray')
    if shape == ():
        v = vals[0]
        if form == 'py':
            return v
        if form == 'npscalar':
            return dt(v)
        return np.array(v, dtype=dt)
    arr = np.array(vals, dtype=dt).reshape(shape)
    if form == 'list' and 0 not in shape:
        return arr.tolist()
    return arr


def mk_ro(a, S):
    """a component that is a genuinely READ-ONLY ndarray, and the writable base through which its values can still change:
    'broadcast_to' (np.broadcast_to of a smaller base), 'view' (read-only view of a writable base), 'flag' (the array's own
    writeable flag cleared; re-enabled for an edit), 'frombuffer' (np.frombuffer of immutable bytes: no base)."""
    spec = dict(a, form='ndarray')
    spec.pop('ro', None)
    base = np.array(mk_arr(spec))
    ro = a['ro']
    if ro == 'broadcast_to':
        return np.broadcast_to(base, tuple(S)), base
    if ro == 'view':
        v = base.view()
        v.flags.writeable = False
        return v, base
    if ro == 'flag':
        base.flags.writeable = False
        return base, base
    if ro == 'frombuffer':
        return np.frombuffer(base.tobytes(), dtype=base.dtype).reshape(base.shape), None
    raise ValueError(ro)


def mk_coord(c):
    from regions import PixCoord
    return PixCoord(mk_arr(c['x']), mk_arr(c['y']))


def mk_key(key, bare):
    out = []
    for k in key:
        t = k['t']
        if t == 'int':
            out.append(int(k['v']))
        elif t == 'slice':
            out.append(slice(k.get('a'), k.get('b'), k.get('c')))
        elif t == 'ia':
            arr = np.array(k['data'], dtype=np.int64).reshape(k['shape'])
            out.append(arr.tolist() if (k.get('form') == 'list' and 0 not in k['shape']) else arr)
        elif t == 'ba':
            out.append(np.array(k['data'], dtype=bool).reshape(k['shape']))
        elif t == 'ell':
            out.append(Ellipsis)
    if bare and len(out) == 1:
        return out[0]
    return tuple(out)


NONFIN = ('nan', 'inf', '-inf')


def json_copy(x):
    import json as _j
    return _j.loads(_j.dumps(x))


def canon_vals(v):
    a = np.asarray(v)
    out = []
    for t in a.reshape(-1).tolist():
        if isinstance(t, float) and not math.isfinite(t):
            out.append('nan' if math.isnan(t) else ('inf' if t > 0 else '-inf'))
        else:
            out.append(frac(t))
    return out


def num(v):
    """canonical value -> exact Fraction; non-finite values become float nan (never equal / close to anything)."""
    return float('nan') if v in NONFIN else Fraction(v)


def canon_pc(p):
    sx, sy = list(np.shape(p.x)), list(np.shape(p.y))
    out = {'shape': sx, 'x': canon_vals(p.x), 'y': canon_vals(p.y), 'scalar': bool(p.isscalar),
           'kinds': [np.asarray(p.x).dtype.kind, np.asarray(p.y).dtype.kind],
           'dtypes': [str(np.asarray(p.x).dtype), str(np.asarray(p.y).dtype)]}
    if sx != sy:
        out['shape_y'] = sy
    if p.isscalar:
        out['pytypes'] = [type(p.x).__name__, type(p.y).__name__]
    return out


def exc(e):
    return {'err': type(e).__name__, 'msg': str(e)[:120]}


def attempt(f):
    try:
        with warnings.catch_warnings():
            warnings.simplefilter('ignore')
            return f()
    except Exception as e:  # the class is part of the compared result
        return exc(e)


def is_err(r):
    return isinstance(r, dict) and 'err' in r


def dec_pc(j):
    """driver reply -> comparable coordinate."""
    return {'shape': [int(n) for n in j['x']['shape']], 'x': j['x']['data'], 'y': j['y']['data'],
            'scalar': j['scalar'], 'shape_y': [int(n) for n in j['y']['shape']]}


def dec_reply(r, f=dec_pc):
    if 'fail' in r:
        return {'fail': r['fail']}
    if 'err' in r:
        return {'err': r['err']}
    return f(r['ok'])


def same_pc(real, model):
    """exact comparison of a real coordinate (or exception) with the model's."""
    if 'fail' in model:
        return False
    if is_err(real) or is_err(model):
        return is_err(real) and is_err(model) and real['err'] == model['err']
    return (real['shape'] == model['shape'] and model['shape_y'] == model['shape'] and 'shape_y' not in real
            and real['x'] == model['x'] and real['y'] == model['y'] and real['scalar'] == model['scalar'])


def close_pc(real, model, scale):
    """model exact value vs real float within 1e-9*scale (the code's own rounding is the only difference)."""
    if 'fail' in model:
        return False
    if is_err(real) or is_err(model):
        return is_err(real) and is_err(model) and real['err'] == model['err']
    if real['shape'] != model['shape'] or real['scalar'] != model['scalar'] or 'shape_y' in real:
        return False
    tol = Fraction(TOL) * scale
    for k in ('x', 'y'):
        if len(real[k]) != len(model[k]):
            return False
        for a, b in zip(real[k], model[k]):
            if not (abs(num(a) - Fraction(b)) <= tol):
                return False
    return True


def coord_scale(*cs):
    m = Fraction(1)
    for c in cs:
        for k in ('x', 'y'):
            for v in c[k]['data']:
                m = max(m, abs(Fraction(v)))
    return m


def mk_wcs(w):
    from astropy.wcs import WCS
    wcs = WCS(naxis=2)
    wcs.wcs.ctype = w['ctype']
    wcs.wcs.crpix = [float(Fraction(v)) for v in w['crpix']]
    wcs.wcs.crval = [float(Fraction(v)) for v in w['crval']]
    wcs.wcs.cdelt = [float(Fraction(v)) for v in w['cdelt']]
    wcs.wcs.pc = [[float(Fraction(v)) for v in row] for row in w['pc']]
    if w.get('radesys'):
        wcs.wcs.radesys = w['radesys']
        if w.get('equinox'):
            wcs.wcs.equinox = float(w['equinox'])
    d = w.get('dist')
    if d:
        # distortions that astropy applies in mode 'all' only: SIP polynomials, or a lookup table ("distortion paper"
        # CPDIS, or detector-to-image D2IM) covering crpix +- 50 px
        from astropy.wcs import DistortionLookupTable, Sip
        amp = [float(Fraction(v)) for v in d['amp']]
        cx, cy = wcs.wcs.crpix
        if d['kind'] == 'sip':
            a = np.zeros((3, 3))
            b = np.zeros((3, 3))
            a[2, 0], a[1, 1], b[0, 2], b[1, 1] = amp[0] * 2.5e-4, -amp[1] * 1.25e-4, amp[2] * 3e-4, amp[3] * 2.5e-4
            wcs.sip = Sip(a, b, None, None, wcs.wcs.crpix)
        else:
            yy, xx = np.mgrid[0:11, 0:11]
            t1 = (amp[0] * np.sin(xx / 4.0) + amp[1] * np.cos(yy / 5.0)).astype(np.float32)
            t2 = (amp[2] * np.cos(xx / 6.0) - amp[3] * np.sin(yy / 3.0)).astype(np.float32)
            l1 = DistortionLookupTable(t1, (1, 1), (cx - 50, cy - 50), (10, 10))
            l2 = DistortionLookupTable(t2, (1, 1), (cx - 50, cy - 50), (10, 10))
            if d['kind'] == 'cpdis':
                wcs.cpdis1, wcs.cpdis2 = l1, l2
            else:
                wcs.det2im1, wcs.det2im2 = l1, l2
    wcs.wcs.set()
    return wcs


def rt_tol(w, mode, F=None):
    """round-trip tolerance in pixels: 1e-6, but not finer than 1e-8 arcsec on the sky (double-precision degrees near 360
    resolve 2e-10 arcsec; astropy's frame round trips among ICRS/FK5/Galactic are good to 1e-9 arcsec), resp. 2e-4 arcsec when
    an FK4 frame is involved (astropy's FK4 e-term transformations only invert to 5e-5 arcsec: measured, external component);
    1e-3 px where astropy inverts a distortion iteratively (all_world2pix, default tolerance 1e-4 px)."""
    scale = min(abs(Fraction(v)) for v in w['cdelt']) * 3600          # arcsec / pixel
    fk4 = w.get('radesys') == 'FK4' or (F is not None and F['name'] == 'fk4')
    return max(Fraction(1, 10 ** 3) if (w.get('dist') and mode == 'all') else Fraction(1, 10 ** 6),
               (Fraction(2, 10 ** 4) if fk4 else Fraction(1, 10 ** 8)) / scale)


FRAMES = [{'name': 'icrs'}, {'name': 'fk5'}, {'name': 'fk5', 'equinox': 'J1975.0'}, {'name': 'fk5', 'equinox': 'B1950.0'},
          {'name': 'fk4'}, {'name': 'fk4', 'equinox': 'B1975.0'}, {'name': 'galactic'}]


def mk_frame(f):
    from astropy.coordinates import FK4, FK5, ICRS, Galactic
    if f['name'] == 'icrs':
        return ICRS()
    if f['name'] == 'galactic':
        return Galactic()
    cls = FK5 if f['name'] == 'fk5' else FK4
    return cls(equinox=f['equinox']) if f.get('equinox') else cls()


def via_frame(w_src, lon, lat, F, w_tgt):
    """sky positions (lon, lat in the celestial frame of the WCS w_src) that are handed over expressed in the frame F:
    their coordinates in the celestial frame of the WCS w_tgt, by astropy's frame transformations (external component)."""
    import astropy.units as u
    from astropy.coordinates import SkyCoord
    from astropy.wcs.utils import wcs_to_celestial_frame
    sc = SkyCoord(np.asarray(lon, float) * u.deg, np.asarray(lat, float) * u.deg, frame=wcs_to_celestial_frame(mk_wcs(w_src)))
    if F is not None:
        sc = sc.transform_to(mk_frame(F))
    sc = sc.transform_to(wcs_to_celestial_frame(mk_wcs(w_tgt)))
    return np.atleast_1d(sc.data.lon.deg), np.atleast_1d(sc.data.lat.deg)


def latfirst(w):
    """is the FIRST world axis of this WCS the latitude (CTYPE = DEC--xxx, RA---xxx or GLAT, GLON)?"""
    return w['ctype'][0][:4] in ('DEC-', 'GLAT')


def cref(w, k):
    """index of the CRPIX entry that the PixCoord component k ('x'/'y') runs along (see wcs_fwd)."""
    j = 0 if k == 'x' else 1
    return 1 - j if latfirst(w) else j


def wcs_fwd(wcs, w, mode, fx, fy):
    """FITS (1-based) pixel coordinates as PixCoord means them -> (lon, lat) with wcslib, the axis order handled
    explicitly: SkyCoord.from_pixel / to_pixel work on wcs.sub([longitude, latitude]), so x runs along the pixel
    axis of the LONGITUDE world axis; for a latitude-first WCS that is the native SECOND pixel axis and the native
    call is f(y, x) -> (lat, lon)."""
    f = wcs.all_pix2world if mode == 'all' else wcs.wcs_pix2world
    if latfirst(w):
        lat, lon = f(fy, fx, 1)
    else:
        lon, lat = f(fx, fy, 1)
    return np.atleast_1d(lon), np.atleast_1d(lat)


def wcs_inv(wcs, w, mode, lon, lat):
    g = wcs.all_world2pix if mode == 'all' else wcs.wcs_world2pix
    lon, lat = np.asarray(lon, float), np.asarray(lat, float)
    if latfirst(w):
        p1, p2 = g(lat, lon, 1)
        return np.atleast_1d(p2), np.atleast_1d(p1)
    p1, p2 = g(lon, lat, 1)
    return np.atleast_1d(p1), np.atleast_1d(p2)


def mk_angle(a):
    from astropy.coordinates import Angle
    import astropy.units as u
    v = float(Fraction(a['v']))
    if a.get('form') == 'quantity':
        return v * u.Unit(a['unit'])
    return Angle(v, a['unit'])


def cs_of(angle):
    """the (cos, sin) the code uses for this angle object, as exact rationals."""
    return Fraction(float(np.cos(angle))), Fraction(float(np.sin(angle)))


class Check(PropertyCheck):
    id = 'C20'
    lean_targets = ['RegionsVerif.Props.C20', 'RegionsVerif.Bridge.FormulasC20', 'RegionsVerif.Bridge.InlineGlueC20']
    namespaces = ['RegionsVerif.Props.C20', 'RegionsVerif.Bridge.C20', 'RegionsVerif.Bridge.InlineGlueC20']

    def _inline_glue(self):
        # tie T: normal forms of the glue methods (tools/inlineglue.py, group C20)
        import importlib.util, os
        from .common import VERIF
        spec = importlib.util.spec_from_file_location('inlineglue', os.path.join(VERIF, 'tools', 'inlineglue.py'))
        mod = importlib.util.module_from_spec(spec)
        spec.loader.exec_module(mod)
        return mod.main(['C20'])

    def translate(self):
        return list(self._translate0()) + list(self._inline_glue())

    def _translate0(self):
        # tie T: regenerate Gen/FormulasC20.lean (PixCoord.__add__/__sub__/separation/rotate) from the current source
        import importlib.util, os
        from .common import VERIF
        spec = importlib.util.spec_from_file_location('py2lean', os.path.join(VERIF, 'tools', 'py2lean.py'))
        mod = importlib.util.module_from_spec(spec)
        spec.loader.exec_module(mod)
        problems, _ = mod.main(['C20'])
        return problems
    parallel = True
    rule = ('x/y shape pairs over dims {0,1,2,3} up to rank 3 (scalars as Python numbers / numpy scalars / 0-d arrays, '
            '0-length, 1-D, N-D, mixed ranks; broadcastable and not) x int/float dtypes with dyadic values; '
            'per coordinate: len, iteration, xy, copy; index expressions = tuples of ints (negative, out of range), '
            'slices (start/stop/step, negative and zero step), integer arrays (N-D, negative, out of range), boolean arrays '
            '(1-D..full rank, wrong shape), Ellipsis (none, one, two), too many indices; + and - with PixCoord and '
            'non-PixCoord operands, (a+b)-b, (a-b)+b, separation both ways; the same in every array dtype int8/int16/int32/int64/uint8/uint16/float32 '
            'with small, half-range (squares wrap, sums do not) and full-range values, and float64 at binary exponents +-400..600; rotations about scalar and array centres by angles of '
            'any sign/magnitude in deg/rad/arcmin/arcsec/hourangle (Angle and Quantity) and by exact Pythagorean unit vectors, '
            'twice / by the sum / back; real astropy WCS (TAN/SIN/CAR/ZEA/STG, RA-DEC and GLON-GLAT, rotated PC, both parities, '
            'scales 1e-5..0.1 deg) x origin {0,1} x mode {all,wcs}; latitude-first WCSs (DEC,RA / GLAT,GLON); '
            'iteration protocol: iterating twice, zip(pc, pc), nested loops, a kept iterator and a later list(pc), every interleaving of '
            'two iterators (length <= 2n+2) and three (length <= n+3) for small coordinates plus random schedules of next() calls; '
            'histories: the SAME PixCoord object through 3-8 calls of '
            'to_sky with varying (wcs object, origin, mode), from_sky of the last result in another convention, in-place edits of an '
            'element of pc.x / pc.y, separation / rotate twice with the same argument objects, copy() / copy.deepcopy / copy.copy called '
            'repeatedly on the object and on a twin holding the same x/y arrays with edits of the original and of single copies in between, also for '
            'coordinates whose x / y are genuinely read-only arrays (np.broadcast_to, read-only view of a writable base, writeable flag cleared, '
            'np.frombuffer) whose values change through the base array '
            '(every copy = the current values, shares no memory with the original or any other copy, is unaffected by later edits), rotate called '
            'repeatedly with ONE angle object (Quantity / Angle) modified in place between the calls (+=, *=, angle[...] = v) on this and on another '
            'coordinate, each checked against the rotation by the current value of the angle object - every call compared with the '
            'answer for that call on the current values, receiver and arguments unchanged. Non-trivial = the constructor succeeded on a non-empty coordinate.')
    assumptions = [
        'numpy broadcasting (shape rule and broadcast values) is the standard right-aligned rule stated in Impl/PixCoord.lean '
        '(NP.bshape, NP.broadcastTo); it is a parameter of the model, exercised against real numpy by the correspondence run',
        'numpy indexing for the modelled index language (ints, slices, integer/boolean arrays, Ellipsis, tuples) is the '
        'shape-determined gather NP.plan; a parameter of the model, exercised against real numpy; np.newaxis, 0-d array indices, '
        'boolean arrays whose shape mismatch involves a zero-length axis, and nested-tuple keys are outside the modelled language',
        'the WCS pixel<->world maps are parameters (evaluated by real wcslib in the FITS 1-based convention during the run); '
        'sky_roundtrip is proved under the hypothesis that they are mutually inverse',
        '+ and - on integer ARRAY dtypes (int8..int64, uint8, uint16) are compared modulo the result dtype: wrap-around of '
        'a+b / a-b in a narrow dtype is numpy semantics, not a PixCoord property ((a+b)-b = a still holds exactly modulo the dtype); '
        'separation and rotate are compared with the exact values of the exact integer coordinates (no wrap is excused there)',
        'values are dyadic rationals (float32/float64 cases: all values of a case share a binary exponent range) so float + and - are exact; '
        'rotation results are compared within 1e-9*scale (the model receives exactly the cos/sin doubles the code used)',
        'separation is kept squared in the model (sqrt-free); the real hypot is compared with sqrt of the exact value to 1e-12 relative',
    ]
    validated_only = [
        'copies are independent: trivial in the functional model (copy_independent); the real aliasing check '
        '(mutating the copy, then the original) is done by the harness on every constructed coordinate',
        'numpy broadcasting/indexing rules themselves and wcslib invertibility are assumed and only validated dynamically',
        'float rounding of rotate/separation (model is exact over a field); validated within tolerance',
        'dtype preservation (int stays int under construction, indexing, + and -) is checked by the oracle only',
        'an index expression never reads outside the source array: proved for broadcasting (bcast_in_range) and for the '
        'result SIZE of every index expression (plan_size); for the positions of general index expressions validated only '
        '(exact element values against real numpy on every generated key)',
        '__eq__ is not a clause of C20 (equality belongs to C16): it is neither modelled nor compared here',
    ]

    # ================================================================ generation
    def _vals(self, rng, n, dtype):
        if dtype == 'int':
            return [str(rng.randint(-50, 50)) for _ in range(n)]
        return [frac(Fraction(rng.randint(-400, 400), 8)) for _ in range(n)]

    def _arr(self, rng, shape, dtype=None):
        dtype = dtype or rng.choice(['int', 'float'])
        if len(shape) == 0:
            form = rng.choice(['py', 'py', 'np0d', 'npscalar'])
        else:
            form = rng.choice(['ndarray', 'ndarray', 'list'])
        return {'shape': list(shape), 'data': self._vals(rng, prod(shape), dtype), 'dtype': dtype, 'form': form}

    def _shape(self, rng):
        """rank 0..3, dims 0..3 (zero-length axes are kept rare so that most coordinates are non-empty)."""
        r = rng.choice([0, 1, 1, 1, 2, 2, 2, 3, 3, 3])
        return [rng.choice([0, 1, 1, 1, 2, 2, 2, 2, 2, 3, 3, 3, 3, 3]) for _ in range(r)]

    def _bpair(self, rng, shapes, want_ok=True):
        """a random shape pair that broadcasts (or does not)."""
        for _ in range(200):
            a = self._shape(rng)
            b = self._shape(rng)
            r = rng.random()
            if r < 0.45:
                # derive b from a so that broadcasting pairs are frequent
                b = [d if rng.random() < 0.6 else 1 for d in a][rng.randint(0, len(a)):]
            elif r < 0.6:
                b = list(a)
            if (py_bshape(a, b) is not None) == want_ok:
                return (a, b) if rng.random() < 0.5 else (b, a)
        return ([], [])

    def _coord(self, rng, shapes, nonempty=False):
        for _ in range(100):
            a, b = self._bpair(rng, shapes)
            if not nonempty or prod(py_bshape(a, b)) > 0:
                break
        return {'x': self._arr(rng, a), 'y': self._arr(rng, b)}

    def _coord_of_shape(self, rng, s, dtype=None):
        """a coordinate whose broadcast shape is s (x or y possibly of lower rank / stretched)."""
        def shrink(t):
            t = [d if rng.random() < 0.7 else 1 for d in t]
            return t[rng.randint(0, len(t)):] if rng.random() < 0.3 else t
        a, b = list(s), list(s)
        r = rng.random()
        if r < 0.3:
            a = shrink(a)
        elif r < 0.6:
            b = shrink(b)
        if py_bshape(a, b) != list(s):
            a, b = list(s), list(s)
        return {'x': self._arr(rng, a, dtype), 'y': self._arr(rng, b, dtype)}

    def _vals_np(self, rng, n, D, mode):
        """values representable in dtype D: small, half range (|a +- b| still representable, squares are not),
        or the full range."""
        if D == 'float32':
            m = {'small': 50 * 8, 'half': 2 ** 14 * 8, 'full': 2 ** 15 * 8}[mode]
            return [frac(Fraction(rng.randint(-m, m), 8)) for _ in range(n)]
        ii = np.iinfo(D)
        lo, hi = int(ii.min), int(ii.max)
        if D == 'int64':          # keep |values| < 2**52 so that they are exact doubles as well
            lo, hi = -2 ** 52, 2 ** 52
        if mode == 'small':
            lo, hi = max(lo, -50), min(hi, 50)
        elif mode == 'half':
            lo, hi = (lo // 2 + 1 if lo < 0 else 0), hi // 2
        out = []
        for _ in range(n):
            r = rng.random()
            if r < 0.15:
                out.append(rng.choice([lo, hi, 0, lo + 1, hi - 1]))
            elif r < 0.3:
                out.append(max(lo, min(hi, rng.randint(-400, 400))))
            else:
                out.append(rng.randint(lo, hi))
        return [str(v) for v in out]

    def _coord_of_shape_np(self, rng, s, D, mode):
        c = self._coord_of_shape(rng, s, 'float' if D == 'float32' else 'int')
        for k in ('x', 'y'):
            a = c[k]
            a['npdtype'] = D
            a['form'] = 'ndarray' if a['shape'] else rng.choice(['np0d', 'npscalar'])
            a['data'] = self._vals_np(rng, prod(a['shape']), D, mode)
        return c

    def _index(self, rng, n, rest, allow_bad):
        """one index for a dimension of size n (rest = following dims, for boolean arrays)."""
        r = rng.random()
        if r < 0.28:
            if allow_bad and rng.random() < 0.08:
                v = rng.choice([n, n + 1, -n - 1, -n - 3])
            elif n == 0:
                v = rng.choice([0, -1]) if allow_bad else None
            else:
                v = rng.randint(-n, n - 1)
            if v is not None:
                return {'t': 'int', 'v': v}, 1
        if r < 0.6:
            def ep():
                return rng.choice([None, None, rng.randint(-n - 2, n + 2)])
            step = rng.choice([None, None, 1, 2, -1, -1, -2, 3, -3, 5])
            if allow_bad and rng.random() < 0.04:
                step = 0
            return {'t': 'slice', 'a': ep(), 'b': ep(), 'c': step}, 1
        if r < 0.8:
            shp = rng.choice([[rng.randint(0, 3)], [rng.randint(1, 3)], [rng.randint(1, 2), rng.randint(1, 3)], [1], [0]])
            cnt = prod(shp)
            if n == 0:
                if not allow_bad:
                    shp, cnt = [0], 0
                data = [rng.choice([0, -1]) for _ in range(cnt)]
            else:
                data = [rng.randint(-n, n - 1) for _ in range(cnt)]
                if allow_bad and cnt and rng.random() < 0.08:
                    data[rng.randrange(cnt)] = rng.choice([n, -n - 1, n + 4])
            return {'t': 'ia', 'shape': shp, 'data': data, 'form': rng.choice(['ndarray', 'list'])}, 1
        # boolean array over 1..k leading dims of [n] + rest
        dims = [n] + list(rest)
        k = rng.randint(1, len(dims)) if rng.random() < 0.4 else 1
        shp = dims[:k]
        if allow_bad and rng.random() < 0.08 and 0 not in shp:
            j = rng.randrange(k)
            shp = list(shp)
            shp[j] = shp[j] + rng.choice([1, 2]) if shp[j] != 1 or rng.random() < 0.5 else 2
        cnt = prod(shp)
        p = rng.choice([0.0, 0.3, 0.5, 0.8, 1.0])
        return {'t': 'ba', 'shape': list(shp), 'data': [rng.random() < p for _ in range(cnt)]}, k

    def _key(self, rng, shape, allow_bad=True):
        """a key: indices for k1 leading dimensions, optionally an Ellipsis and indices for k2 trailing ones."""
        nd = len(shape)
        with_ell = rng.random() < 0.3
        k1 = rng.randint(0 if rng.random() < 0.15 else min(1, nd), nd)
        k2 = rng.randint(0, nd - k1) if with_ell else 0
        too_many = allow_bad and rng.random() < 0.03

        def seg(dims):
            out = []
            d = 0
            while d < len(dims):
                ix, used = self._index(rng, dims[d], dims[d + 1:], allow_bad)
                out.append(ix)
                d += used
            return out
        key = seg(list(shape[:k1]))
        if with_ell:
            key.append({'t': 'ell'})
            if allow_bad and rng.random() < 0.05:
                key.insert(rng.randint(0, len(key)), {'t': 'ell'})
            key += seg(list(shape[nd - k2:]))
        if too_many:
            extra = seg([rng.randint(1, 3) for _ in range(nd - k1 - k2 + rng.randint(1, 2))])
            key = key + extra if not with_ell or rng.random() < 0.5 else extra + key
        return key

    def _key_error_order(self, rng, shape):
        """several faults in one key (numpy's order of checks decides which exception comes out)."""
        key = []
        for n in shape:
            r = rng.random()
            if r < 0.25:
                key.append({'t': 'int', 'v': rng.choice([n, -n - 1, n + 2, rng.randint(-n, n - 1) if n else 0])})
            elif r < 0.45:
                key.append({'t': 'slice', 'a': None, 'b': None, 'c': rng.choice([0, 0, None, -1])})
            elif r < 0.6:
                key.append({'t': 'ia', 'shape': [0], 'data': [], 'form': 'ndarray'})
            elif r < 0.75:
                k = rng.randint(1, 3)
                key.append({'t': 'ia', 'shape': [k], 'data': [rng.choice([0, n, -n - 1, n - 1 if n else 0]) for _ in range(k)],
                            'form': rng.choice(['ndarray', 'list'])})
            elif r < 0.9 and n > 0:
                m = n if rng.random() < 0.7 else n + 1
                key.append({'t': 'ba', 'shape': [m], 'data': [rng.random() < rng.choice([0.0, 0.5]) for _ in range(m)]})
            else:
                key.append({'t': 'slice', 'a': None, 'b': None, 'c': None})
        if rng.random() < 0.2:
            key.insert(rng.randint(0, len(key)), {'t': 'ell'})
        if rng.random() < 0.1:
            key.append({'t': 'int', 'v': 0})
        return key

    def _angle(self, rng, unit=None):
        """any sign, magnitude up to 1500 turns, any angular unit, Angle or Quantity."""
        unit = unit or rng.choice(UNITS)
        per_turn = {'deg': 360, 'rad': 2 * math.pi, 'arcmin': 21600, 'arcsec': 1296000, 'hourangle': 24}[unit]
        r = rng.random()
        if r < 0.25:
            v = per_turn * rng.choice([0, 0.25, 0.5, 1, -0.25, -1, 1 / 12, 0.125, 3, -7.5])
        elif r < 0.85:
            v = per_turn * rng.uniform(-1.5, 1.5)
        else:
            v = per_turn * rng.uniform(-1500, 1500)
        return {'v': frac(Fraction(float(v))), 'unit': unit, 'form': rng.choice(['angle', 'quantity'])}

    def _wcs(self, rng):
        proj = rng.choice(['TAN', 'TAN', 'SIN', 'CAR', 'ZEA', 'STG'])
        fam = rng.choice([('RA--', 'DEC-'), ('RA--', 'DEC-'), ('GLON', 'GLAT')])
        ctype = [f'{fam[0]}-{proj}', f'{fam[1]}-{proj}']
        scale = rng.choice([1e-5, 2.7e-4, 1e-3, 0.01, 0.1, 2.8e-7, 2.8e-6, 5.6e-5]) * rng.uniform(0.5, 2)
        radesys = rng.choice([None, None, ('ICRS', None), ('FK5', 2000.0), ('FK5', 1975.0), ('FK4', 1950.0)]) if fam[0] == 'RA--' else None
        sx = rng.choice([-1, -1, 1])
        sy = rng.choice([1, 1, -1])
        th = rng.choice([0, 0, math.pi / 2, rng.uniform(-math.pi, math.pi)])
        pc = [[math.cos(th), -math.sin(th)], [math.sin(th), math.cos(th)]]
        lat = 0.0 if proj == 'CAR' else rng.choice([0.0, rng.uniform(-80, 80), rng.uniform(-80, 80), 89.0, -89.5])
        lon = rng.choice([0.0, 359.9, rng.uniform(0, 360), rng.uniform(0, 360)])
        crval = [frac(Fraction(lon)), frac(Fraction(lat))]
        dist = None
        r = rng.random()
        if r < 0.3:      # latitude-first celestial WCS (DEC, RA) / (GLAT, GLON)
            ctype = ctype[::-1]
            crval = crval[::-1]
        elif r < 0.55:   # a distortion that only mode 'all' applies: SIP, CPDIS lookup table, D2IM lookup table
            kind = rng.choice(['sip', 'cpdis', 'cpdis', 'det2im'])
            if kind == 'sip':
                proj = 'TAN'
                ctype = ['RA---TAN-SIP', 'DEC--TAN-SIP']
                lat = min(max(lat, -80.0), 80.0)
                crval = [frac(Fraction(lon)), frac(Fraction(lat))]
            dist = {'kind': kind, 'amp': [frac(Fraction(rng.randint(2, 8), 8) * rng.choice([1, -1])) for _ in range(4)]}
        extra = {'radesys': radesys[0], 'equinox': radesys[1]} if radesys else {}
        if dist:
            return {'ctype': ctype, 'dist': dist, **extra,
                    'crpix': [frac(Fraction(rng.randint(-400, 400), 4)), frac(Fraction(rng.randint(-400, 400), 4))],
                    'crval': crval,
                    'cdelt': [frac(Fraction(sx * scale)), frac(Fraction(sy * scale * rng.choice([1, 1, 0.7])))],
                    'pc': [[frac(Fraction(v)) for v in row] for row in pc]}
        return {'ctype': ctype, **extra,
                'crpix': [frac(Fraction(rng.randint(-400, 400), 4)), frac(Fraction(rng.randint(-400, 400), 4))],
                'crval': crval,
                'cdelt': [frac(Fraction(sx * scale)), frac(Fraction(sy * scale * rng.choice([1, 1, 0.7])))],
                'pc': [[frac(Fraction(v)) for v in row] for row in pc]}

    def generate(self, rng, tier):
        quick = tier == 'quick'
        cases = []
        shapes = shapes_upto(3)
        # ---- constructor (+ len / iter / xy / copy): shape pairs
        pairs = [(a, b) for a in shapes for b in shapes]
        if quick:
            small = shapes_upto(2)
            chosen = [(a, b) for a in small for b in small]                       # all pairs up to rank 2 (441)
            chosen += [self._bpair(rng, shapes, True) for _ in range(700)]
            chosen += [self._bpair(rng, shapes, False) for _ in range(100)]
            chosen += rng.sample(pairs, 200)
        else:
            chosen = pairs + [self._bpair(rng, shapes, True) for _ in range(8000)]
        for a, b in chosen:
            cases.append({'kind': 'ctor', 'x': self._arr(rng, a), 'y': self._arr(rng, b)})
        # a scalar pair stays scalar: every combination of Python number / numpy scalar / 0-d array x int/float
        forms = [(f, d) for f in ('py', 'npscalar', 'np0d') for d in ('int', 'float')]
        for (fx, dx) in forms:
            for (fy, dy) in forms:
                cases.append({'kind': 'ctor',
                              'x': {'shape': [], 'data': self._vals(rng, 1, dx), 'dtype': dx, 'form': fx},
                              'y': {'shape': [], 'data': self._vals(rng, 1, dy), 'dtype': dy, 'form': fy}})
        # ---- indexing
        for _ in range(2500 if quick else 60000):
            p = self._coord(rng, shapes)
            s = py_bshape(p['x']['shape'], p['y']['shape'])
            allow_bad = rng.random() < 0.35
            key = self._key(rng, s, allow_bad) if s else self._key(rng, [2], allow_bad)
            cases.append({'kind': 'getitem', 'p': p, 'key': key, 'bare': rng.random() < 0.5})
        for _ in range(400 if quick else 10000):
            s = [rng.choice([1, 2, 3, 3]) for _ in range(rng.randint(1, 3))]
            p = self._coord_of_shape(rng, s)
            cases.append({'kind': 'getitem', 'p': p, 'key': self._key_error_order(rng, s), 'bare': False})
        # ---- arithmetic
        for _ in range(1200 if quick else 25000):
            r = rng.random()
            if r < 0.08:
                p = self._coord(rng, shapes)
                cases.append({'kind': 'arith', 'p': p, 'o': None, 'nonpix': rng.choice(NONPIX)})
                continue
            if r < 0.2:   # shapes that do not broadcast against each other
                a, b = self._bpair(rng, shapes, False)
            else:
                a, b = self._bpair(rng, shapes, True)
            dt = rng.choice([None, None, 'int', 'float'])
            cases.append({'kind': 'arith', 'p': self._coord_of_shape(rng, a, dt), 'o': self._coord_of_shape(rng, b, dt)})
        # ---- arithmetic / separation in every numeric dtype, with values that are representable themselves but
        #      wrap-prone in a SQUARE (half range: sums and differences still representable) or also in a SUM (full range)
        for _ in range(700 if quick else 15000):
            D = rng.choice(NPDTYPES)
            a, b = self._bpair(rng, shapes, rng.random() < 0.95)
            mode = rng.choice(['half', 'half', 'full', 'small'])
            cases.append({'kind': 'arith', 'npdtype': D, 'vrange': mode,
                          'p': self._coord_of_shape_np(rng, a, D, mode), 'o': self._coord_of_shape_np(rng, b, D, mode)})
        # ---- float64 of extreme magnitude (all values of a case share one binary exponent, so + and - stay exact)
        for _ in range(150 if quick else 3000):
            a, b = self._bpair(rng, shapes, True)
            E = rng.choice([600, 511, 400, -400, -537, -600, 52, -52])
            p_, o_ = self._coord_of_shape(rng, a, 'float'), self._coord_of_shape(rng, b, 'float')
            for c_ in (p_, o_):
                for k_ in ('x', 'y'):
                    c_[k_]['data'] = [frac(Fraction(v) * (Fraction(2) ** E if E >= 0 else Fraction(1, 2 ** (-E)))) for v in c_[k_]['data']]
                    c_[k_]['form'] = 'ndarray' if c_[k_]['shape'] else 'py'
            cases.append({'kind': 'arith', 'exp': E, 'p': p_, 'o': o_})
        # ---- rotation
        nd_shapes = [[2, 3], [2, 2], [3, 2], [1, 3], [2, 2, 2], [3, 2, 3], [0, 2], [2, 0]]
        for i in range(700 if quick else 15000):
            r = rng.random()
            if r < 0.3:
                s = rng.choice(nd_shapes)
                cs = rng.choice([[], [], [2, 1], [1], s])
            elif r < 0.4:
                s = rng.choice([[3], [1], []])
                cs = rng.choice([[2, 1], [3, 1], [2, 1, 1]])
            else:
                s, cs = self._bpair(rng, shapes, rng.random() < 0.93)
                if rng.random() < 0.6:
                    cs = []
            c = {'kind': 'rotate', 'p': self._coord_of_shape(rng, s, 'float' if rng.random() < 0.7 else None),
                 'center': self._coord_of_shape(rng, cs), 'q': self._coord_of_shape(rng, s, 'float'),
                 'a1': self._angle(rng), 'a2': self._angle(rng)}
            if rng.random() < 0.3:
                (a, b, h), (a2, b2, h2) = rng.choice(PYTH), rng.choice(PYTH)
                c['exact'] = [frac(Fraction(a, h)), frac(Fraction(b, h)), frac(Fraction(a2, h2)), frac(Fraction(b2, h2))]
                c['a1'] = {'v': frac(Fraction(math.atan2(b / h, a / h))), 'unit': 'rad', 'form': 'angle'}
                c['a2'] = {'v': frac(Fraction(math.atan2(b2 / h2, a2 / h2))), 'unit': 'rad', 'form': 'angle'}
            elif rng.random() < 0.5:
                c['a2'] = self._angle(rng, c['a1']['unit'])
            cases.append(c)
        # ---- rotation of coordinates stored in narrow / unsigned / float32 dtypes
        for _ in range(250 if quick else 5000):
            D = rng.choice(NPDTYPES)
            s_, cs = self._bpair(rng, shapes, rng.random() < 0.95)
            if rng.random() < 0.5:
                cs = []
            mode = rng.choice(['half', 'full', 'small'])
            cases.append({'kind': 'rotate', 'npdtype': D, 'vrange': mode,
                          'p': self._coord_of_shape_np(rng, s_, D, mode), 'center': self._coord_of_shape_np(rng, cs, D, mode),
                          'q': self._coord_of_shape_np(rng, s_, D, mode), 'a1': self._angle(rng), 'a2': self._angle(rng, 'deg')})
        # ---- sky round trip
        for _ in range(500 if quick else 10000):
            s = rng.choice(shapes) if rng.random() < 0.7 else rng.choice([[], [3], [2, 3]])
            w = self._wcs(rng)
            p = self._coord_of_shape(rng, s)
            # keep the pixels within ~50 px + crpix so that they stay inside the projection's domain
            for k in ('x', 'y'):
                c0 = Fraction(w['crpix'][cref(w, k)])
                dt = p[k]['dtype']
                p[k]['data'] = [frac((Fraction(v) + c0) if dt == 'float' else Fraction(int(Fraction(v)) + round(c0)))
                                for v in p[k]['data']]
            c_ = {'kind': 'sky', 'p': p, 'wcs': w, 'origin': rng.choice([0, 1]), 'mode': rng.choice(['all', 'wcs'])}
            if rng.random() < 0.45:
                c_['sky_frame'] = rng.choice(FRAMES)      # the sky positions are handed to from_sky in another frame
            cases.append(c_)
        # ---- iteration protocol: overlapping iterators of the same object
        cases.extend(self._iter_cases(rng, quick))
        # ---- histories: the same object through several calls
        for _ in range(400 if quick else 8000):
            cases.append(self._hist_gen(rng, shapes))
        return cases


    # ================================================================ history cases
    # One PixCoord object goes through a sequence of calls: to_sky with varying (wcs, origin, mode), from_sky of the
    # last sky result with another convention, in-place edits of an element of pc.x / pc.y, separation and rotate
    # called twice.  Every call is compared with the model's answer for THAT call on the coordinate's CURRENT values,
    # and the receiver must be unchanged by every call that is not an edit.
    def _hist_gen(self, rng, shapes):
        s = rng.choice([[], [3], [2, 3], [1], [2, 2], [4]]) if rng.random() < 0.8 else self._shape(rng)
        w0 = self._wcs(rng)
        w1 = json_copy(w0)
        r = rng.random()
        if r < 0.4:
            w1['cdelt'] = [frac(Fraction(w0['cdelt'][0]) * 2), frac(Fraction(w0['cdelt'][1]) * 2)]
        elif r < 0.6:
            w1['pc'] = [w0['pc'][1], w0['pc'][0]] if rng.random() < 0.5 else w0['pc']
            w1['cdelt'] = [w0['cdelt'][0], frac(-Fraction(w0['cdelt'][1]))]
        # (otherwise: the same parameters in a distinct WCS object)
        broadcast = rng.random() < 0.3
        p = self._coord_of_shape(rng, s, 'float' if rng.random() < 0.8 else None) if broadcast else \
            {'x': self._arr(rng, s, 'float' if rng.random() < 0.8 else 'int'), 'y': self._arr(rng, s, 'float')}
        for k in ('x', 'y'):
            c0 = Fraction(w0['crpix'][cref(w0, k)])
            dt = p[k]['dtype']
            p[k]['data'] = [frac((Fraction(v) + c0) if dt == 'float' else Fraction(int(Fraction(v)) + round(c0))) for v in p[k]['data']]
            if p[k]['shape'] and not broadcast:
                p[k]['form'] = 'ndarray'
        editable = (not broadcast) and s != [] and prod(s) > 0
        steps = []
        copy_flavour = rng.random() < 0.4
        readonly = copy_flavour and s != [] and prod(s) > 0 and rng.random() < 0.5
        if readonly:
            # x and/or y are genuinely read-only arrays (their values can still change through the base array)
            full = lambda dt: self._arr(rng, s, dt)
            kx = rng.choice(['broadcast_to', 'broadcast_to', 'view', 'flag', 'frombuffer', None])
            ky = rng.choice(['view', 'flag', 'frombuffer', 'broadcast_to', None]) if kx else rng.choice(['view', 'flag', 'frombuffer', 'broadcast_to'])
            def comp(kind, dt):
                if kind == 'broadcast_to':
                    t = [d if rng.random() < 0.5 else 1 for d in s]
                    t = t[rng.randint(0, len(t)):] if rng.random() < 0.4 else t
                    a = self._arr(rng, t, dt)
                else:
                    a = full(dt)
                a['form'] = 'ndarray'
                if kind:
                    a['ro'] = kind
                return a
            p = {'x': comp(kx, 'float' if rng.random() < 0.7 else 'int'), 'y': comp(ky, 'float')}
            if kx == 'broadcast_to' and ky == 'broadcast_to':
                p['y'] = comp('view', 'float')          # one component must carry the full shape
            for k in ('x', 'y'):
                c0 = Fraction(w0['crpix'][cref(w0, k)])
                p[k]['data'] = [frac(Fraction(v) + (c0 if p[k]['dtype'] == 'float' else round(c0))) for v in p[k]['data']]
            broadcast = True        # no direct in-place edits of pc.x / pc.y: they are read-only
            editable = False
        angle_flavour = (not copy_flavour) and rng.random() < 0.4
        angle0 = self._angle(rng)
        if abs(Fraction(angle0['v'])) > 10 ** 6:
            angle0 = self._angle(rng, 'deg')
        ncopies = 0
        def edit_step(attr_of=None):
            k = rng.choice(['x', 'y'])
            c0 = Fraction(w0['crpix'][cref(w0, k)])
            v = Fraction(rng.randint(-400, 400), 8) + c0 if p[k]['dtype'] == 'float' else Fraction(rng.randint(-50, 50) + round(c0))
            return {'attr': k, 'idx': rng.randrange(prod(s)), 'val': frac(v)}
        for _ in range(rng.randint(3, 8)):
            r = rng.random()
            if angle_flavour and r < 0.85:
                # rotate with ONE angle object that is modified in place between the calls, on this and on another coordinate
                unit = angle0['unit']
                per_turn = {'deg': 360, 'rad': 2 * math.pi, 'arcmin': 21600, 'arcsec': 1296000, 'hourangle': 24}[unit]
                kind = rng.choice(['none', 'iadd', 'iadd', 'imul', 'setitem'])
                v = {'none': 0, 'iadd': per_turn * rng.choice([25 / 360, -0.125, 0.5, rng.uniform(-1, 1)]),
                     'imul': rng.choice([2, -1, 0.5, 1.5, 3]), 'setitem': per_turn * rng.uniform(-1, 1)}[kind]
                steps.append({'op': 'rotate_inplace', 'mod': {'kind': kind, 'v': frac(Fraction(float(v)))},
                              'who': rng.choice(['self', 'self', 'other']),
                              'o': self._coord_of_shape(rng, rng.choice([[], [2], s]), 'float'),
                              'center': self._coord_of_shape(rng, [], 'float')})
            elif copy_flavour and r < 0.85:
                # copies of the same object (or of a twin holding the same x/y arrays), edits of the original between them,
                # edits of one of the copies
                r2 = rng.random()
                if r2 < 0.5 or ncopies == 0:
                    how = rng.choice(['copy', 'copy', 'copy', 'copy.deepcopy', 'copy.copy'])
                    steps.append({'op': 'copy', 'how': how, 'who': rng.choice(['self', 'self', 'twin'])})
                    ncopies += how != 'copy.copy'
                elif r2 < 0.75 and editable:
                    steps.append(dict(op='edit', **edit_step()))
                elif r2 < 0.75 and readonly and any(p[k].get('ro') != 'frombuffer' for k in ('x', 'y')):
                    k = rng.choice([k for k in ('x', 'y') if p[k].get('ro') != 'frombuffer'])
                    c0 = Fraction(w0['crpix'][cref(w0, k)])
                    v = Fraction(rng.randint(-400, 400), 8) + c0 if p[k]['dtype'] == 'float' else Fraction(rng.randint(-50, 50) + round(c0))
                    steps.append({'op': 'base_edit', 'attr': k, 'bidx': rng.randrange(prod(p[k]['shape'])), 'val': frac(v)})
                elif s != [] and prod(s) > 0:
                    steps.append(dict(op='copy_edit', k=rng.randrange(4), **edit_step()))
                else:
                    steps.append({'op': 'copy', 'how': 'copy', 'who': 'self'})
                    ncopies += 1
            elif r < 0.5 or not steps:
                steps.append({'op': 'to_sky', 'wcs': rng.choice([0, 0, 0, 1]), 'origin': rng.choice([0, 1]), 'mode': rng.choice(['all', 'wcs'])})
                if rng.random() < 0.35:
                    steps[-1]['frame'] = rng.choice(FRAMES)
            elif r < 0.62 and any(st['op'] == 'to_sky' for st in steps):
                steps.append({'op': 'from_sky', 'wcs': rng.choice([0, 0, 1]), 'origin': rng.choice([0, 1]), 'mode': rng.choice(['all', 'wcs'])})
                if rng.random() < 0.5:
                    steps[-1]['frame'] = rng.choice(FRAMES)
            elif r < 0.8 and editable:
                k = rng.choice(['x', 'y'])
                c0 = Fraction(w0['crpix'][cref(w0, k)])
                v = Fraction(rng.randint(-400, 400), 8) + c0 if p[k]['dtype'] == 'float' else Fraction(rng.randint(-50, 50) + round(c0))
                steps.append({'op': 'edit', 'attr': k, 'idx': rng.randrange(prod(s)), 'val': frac(v)})
            elif r < 0.9:
                o = self._coord_of_shape(rng, rng.choice([s, []]), 'float')
                st = {'op': 'sep', 'o': o}
                steps += [st, json_copy(st)]
            else:
                st = {'op': 'rotate', 'center': self._coord_of_shape(rng, [], 'float'), 'a': self._angle(rng)}
                steps += [st, json_copy(st)]
        c = {'kind': 'history', 'p': p, 'wcss': [w0, w1], 'steps': steps}
        if angle_flavour:
            c['angle0'] = dict(angle0, form=rng.choice(['quantity', 'angle']))
        return c

    @staticmethod
    def _hist_state0(case):
        c = case['p']
        S = py_bshape(c['x']['shape'], c['y']['shape'])
        return {'shape': S, 'x': py_bvalues(c['x']['shape'], [Fraction(v) for v in c['x']['data']], S),
                'y': py_bvalues(c['y']['shape'], [Fraction(v) for v in c['y']['data']], S)}

    @staticmethod
    def _hist_coord(st):
        return {'x': {'shape': st['shape'], 'data': [frac(v) for v in st['x']]},
                'y': {'shape': st['shape'], 'data': [frac(v) for v in st['y']]}}

    def _hist_walk(self, case):
        """(step, state before the step as exact values, the to_sky step whose result is the 'last sky' or None)."""
        st = self._hist_state0(case)
        last = None
        out = []
        copies = []
        ang = float(Fraction(case['angle0']['v'])) if 'angle0' in case else None
        for step in case['steps']:
            if step['op'] == 'rotate_inplace':
                # the same float operations numpy performs on the 0-d Quantity, in its own unit
                m = step['mod']
                if m['kind'] == 'iadd':
                    ang = ang + float(Fraction(m['v']))
                elif m['kind'] == 'imul':
                    ang = ang * float(Fraction(m['v']))
                elif m['kind'] == 'setitem':
                    ang = float(Fraction(m['v']))
                step = dict(step, _ang={'v': frac(Fraction(ang)), 'unit': case['angle0']['unit'], 'form': 'quantity'})
            cur = {'shape': st['shape'], 'x': list(st['x']), 'y': list(st['y'])}
            if step['op'] == 'edit':
                cur[step['attr']][step['idx']] = Fraction(step['val'])
                st = cur
            if step['op'] == 'base_edit':
                a = case['p'][step['attr']]
                src = py_bvalues(a['shape'], list(range(prod(a['shape']))), cur['shape'])
                for j, b in enumerate(src):
                    if b == step['bidx']:
                        cur[step['attr']][j] = Fraction(step['val'])
                st = cur
            if step['op'] == 'copy' and step['how'] != 'copy.copy':
                copies.append({'shape': cur['shape'], 'x': list(cur['x']), 'y': list(cur['y'])})
            if step['op'] == 'copy_edit' and copies:
                c = copies[step['k'] % len(copies)]
                c[step['attr']][step['idx']] = Fraction(step['val'])
            step = dict(step, _copies=[{'shape': c['shape'], 'x': list(c['x']), 'y': list(c['y'])} for c in copies])
            out.append((step, cur, last))
            if step['op'] == 'to_sky':
                last = (step, cur)
        return out

    @staticmethod
    def _sky_eval(w, mode, origin, xs, ys):
        """the WCS parameter of the model, evaluated by real wcslib on FITS (1-based) pixels."""
        wcs = mk_wcs(w)
        fx = np.array([float(v + (1 - origin)) for v in xs], dtype=float)
        fy = np.array([float(v + (1 - origin)) for v in ys], dtype=float)
        lon, lat = wcs_fwd(wcs, w, mode, fx, fy)
        return fx, fy, lon, lat

    @staticmethod
    def _pix_eval(w, mode, lon, lat):
        wcs = mk_wcs(w)
        bx, by = wcs_inv(wcs, w, mode, lon, lat)
        return [frac(v) for v in bx], [frac(v) for v in by]

    def _hist_real(self, case):
        from regions import PixCoord
        bases = {}
        if any('ro' in case['p'][k] for k in ('x', 'y')):
            S0 = py_bshape(case['p']['x']['shape'], case['p']['y']['shape'])
            comps = {}
            for k in ('x', 'y'):
                a = case['p'][k]
                if 'ro' in a:
                    comps[k], bases[k] = mk_ro(a, S0)
                else:
                    comps[k] = bases[k] = np.array(mk_arr(dict(a, form='ndarray')))
            p = attempt(lambda: PixCoord(comps['x'], comps['y']))
        else:
            p = attempt(lambda: mk_coord(case['p']))
        if is_err(p):
            return {'ctor': p}
        wcss = [mk_wcs(w) for w in case['wcss']]
        others = {}
        copies = []
        last = None
        res = []
        for i, step in enumerate(case['steps']):
            op = step['op']
            r = {}
            if op == 'to_sky':
                sky = attempt(lambda: p.to_sky(wcss[step['wcs']], origin=step['origin'], mode=step['mode']))
                if is_err(sky):
                    r['sky'] = sky
                else:
                    last = sky
                    r['sky'] = [list(sky.shape), canon_vals(sky.data.lon.deg), canon_vals(sky.data.lat.deg), bool(sky.isscalar)]
                    sky_in = sky.transform_to(mk_frame(step['frame'])) if step.get('frame') else sky
                    b = attempt(lambda: PixCoord.from_sky(sky_in, wcss[step['wcs']], origin=step['origin'], mode=step['mode']))
                    r['back'] = b if is_err(b) else canon_pc(b)
            elif op == 'from_sky':
                sky_in = last.transform_to(mk_frame(step['frame'])) if step.get('frame') else last
                b = attempt(lambda: PixCoord.from_sky(sky_in, wcss[step['wcs']], origin=step['origin'], mode=step['mode']))
                r['res'] = b if is_err(b) else canon_pc(b)
            elif op == 'edit':
                def ed():
                    a = getattr(p, step['attr'])
                    v = Fraction(step['val'])
                    a[np.unravel_index(step['idx'], a.shape)] = int(v) if a.dtype.kind in 'iu' else float(v)
                    return True
                e = attempt(ed)
                if is_err(e):
                    r['edit'] = e
            elif op == 'copy':
                import copy as _copy
                if step['who'] == 'twin' and 'twin' not in others:
                    others['twin'] = PixCoord(p.x, p.y)                # another coordinate holding the same x / y objects
                src = others['twin'] if step['who'] == 'twin' else p
                c = attempt(lambda: src.copy() if step['how'] == 'copy' else
                            (_copy.copy(src) if step['how'] == 'copy.copy' else _copy.deepcopy(src)))
                if is_err(c):
                    r['copy'] = c
                else:
                    r['copy'] = canon_pc(c)
                    r['is_pixcoord'] = type(c).__name__ == 'PixCoord'
                    def shares(a, b):
                        if a.isscalar or b.isscalar or not np.size(a.x):
                            return False
                        return bool(any(np.shares_memory(u, v) for u in (a.x, a.y) for v in (b.x, b.y)))
                    if step['how'] != 'copy.copy':
                        r['shares_base'] = bool(not c.isscalar and np.size(c.x) and any(
                            b is not None and np.shares_memory(u, b) for u in (c.x, c.y) for b in bases.values()))
                        r['writeable'] = bool(c.isscalar or (c.x.flags.writeable and c.y.flags.writeable))
                        r['shares_orig'] = shares(c, p)
                        r['shares_prev'] = [shares(c, d) for d in copies]
                        copies.append(c)
            elif op == 'base_edit':
                def edb():
                    b = bases[step['attr']]
                    v = Fraction(step['val'])
                    was = b.flags.writeable
                    b.flags.writeable = True            # ('flag' components: the owner re-enables writing)
                    b.flat[step['bidx']] = int(v) if b.dtype.kind in 'iu' else float(v)
                    b.flags.writeable = was
                    return True
                e = attempt(edb)
                if is_err(e):
                    r['edit'] = e
            elif op == 'copy_edit':
                if copies:
                    def ed2():
                        a = getattr(copies[step['k'] % len(copies)], step['attr'])
                        v = Fraction(step['val'])
                        a[np.unravel_index(step['idx'], a.shape)] = int(v) if a.dtype.kind in 'iu' else float(v)
                        return True
                    e = attempt(ed2)
                    if is_err(e):
                        r['edit'] = e
            elif op == 'rotate_inplace':
                import astropy.units as u
                if 'angle' not in others:
                    others['angle'] = mk_angle(case['angle0'])          # ONE angle object for the whole history
                ang = others['angle']
                m = step['mod']
                def modify():
                    a = ang
                    v = float(Fraction(m['v']))
                    if m['kind'] == 'iadd':
                        a += v * a.unit
                    elif m['kind'] == 'imul':
                        a *= v
                    elif m['kind'] == 'setitem':
                        a[...] = v * a.unit
                    return a is ang
                e = attempt(modify)
                if is_err(e) or not e:
                    r['mod_failed'] = e
                r['angle_now'] = [frac(float(ang.value)), str(ang.unit)]
                tgt = p if step['who'] == 'self' else others.setdefault('o:' + json.dumps(step['o'], sort_keys=True), mk_coord(step['o']))
                ctr = others.setdefault('c:' + json.dumps(step['center'], sort_keys=True), mk_coord(step['center']))
                q = attempt(lambda: tgt.rotate(ctr, ang))
                r['r'] = q if is_err(q) else canon_pc(q)
                r['o_state'] = canon_pc(tgt)
            elif op == 'sep':
                key = json.dumps(step['o'], sort_keys=True)
                o = others.setdefault(key, mk_coord(step['o']))        # the SAME other object for the repeated call
                d = attempt(lambda: p.separation(o))
                r['d'] = d if is_err(d) else [list(np.shape(d)), canon_vals(d)]
                r['o_state'] = canon_pc(o)
            elif op == 'rotate':
                key = json.dumps(step['center'], sort_keys=True)
                c = others.setdefault(key, mk_coord(step['center']))
                ang = mk_angle(step['a'])
                q = attempt(lambda: p.rotate(c, ang))
                r['r'] = q if is_err(q) else canon_pc(q)
                r['o_state'] = canon_pc(c)
                if not is_err(q) and not p.isscalar and np.size(p.x):
                    r['aliased'] = bool(np.shares_memory(q.x, p.x) or np.shares_memory(q.y, p.y))
            r['state'] = canon_pc(p)
            r['copies'] = [canon_pc(c) for c in copies]
            res.append(r)
        return {'steps': res}

    def _hist_requests(self, case):
        reqs = []
        for step, st, last in self._hist_walk(case):
            op = step['op']
            pj = self._hist_coord(st)
            if op == 'to_sky':
                w = case['wcss'][step['wcs']]
                fx, fy, lon, lat = self._sky_eval(w, step['mode'], step['origin'], st['x'], st['y'])
                if step.get('frame'):
                    lon, lat = via_frame(w, lon, lat, step['frame'], w)
                bx, by = self._pix_eval(w, step['mode'], lon, lat)
                reqs.append({'op': 'pc.to_fits', 'p': pj, 'origin': step['origin'], 'all': step['mode'] == 'all'})
                reqs.append({'op': 'pc.from_fits', 'shape': st['shape'], 'x': bx, 'y': by, 'origin': step['origin'],
                             'all': step['mode'] == 'all'})
            elif op == 'from_sky':
                ls, lst = last
                _, _, lon, lat = self._sky_eval(case['wcss'][ls['wcs']], ls['mode'], ls['origin'], lst['x'], lst['y'])
                if step.get('frame'):
                    lon, lat = via_frame(case['wcss'][ls['wcs']], lon, lat, step['frame'], case['wcss'][step['wcs']])
                bx, by = self._pix_eval(case['wcss'][step['wcs']], step['mode'], lon, lat)
                reqs.append({'op': 'pc.from_fits', 'shape': lst['shape'], 'x': bx, 'y': by, 'origin': step['origin'],
                             'all': step['mode'] == 'all'})
            elif op == 'edit':
                reqs.append(dict(op='pc.ctor', **pj))
            elif op == 'copy':
                reqs.append({'op': 'pc.copy', 'p': pj})
            elif op == 'rotate_inplace':
                c, s_ = cs_of(mk_angle(step['_ang']))
                reqs.append({'op': 'pc.rotate', 'p': pj if step['who'] == 'self' else self._jc(step['o']),
                             'center': self._jc(step['center']), 'c': frac(c), 's': frac(s_)})
            elif op == 'sep':
                reqs.append({'op': 'pc.sep2', 'p': pj, 'q': self._jc(step['o'])})
            elif op == 'rotate':
                c, s_ = cs_of(mk_angle(step['a']))
                reqs.append({'op': 'pc.rotate', 'p': pj, 'center': self._jc(step['center']), 'c': frac(c), 's': frac(s_)})
        return reqs

    def _hist_model(self, case, replies):
        out = []
        i = 0
        for step, st, last in self._hist_walk(case):
            op = step['op']
            m = {}
            if op == 'to_sky':
                w = case['wcss'][step['wcs']]
                fx, fy, lon, lat = self._sky_eval(w, step['mode'], step['origin'], st['x'], st['y'])
                fits = replies[i].get('ok')
                m['consistent'] = bool(fits) and [int(n) for n in fits['shape']] == st['shape'] and \
                    [Fraction(v) for v in fits['x']] == [Fraction(float(v)) for v in fx] and \
                    [Fraction(v) for v in fits['y']] == [Fraction(float(v)) for v in fy]
                m['lon'], m['lat'] = [float(v) for v in lon], [float(v) for v in lat]
                m['back'] = dec_reply(replies[i + 1])
                i += 2
            elif op == 'from_sky':
                m['res'] = dec_reply(replies[i]); i += 1
            elif op == 'edit':
                m['state'] = dec_reply(replies[i]); i += 1
            elif op == 'copy':
                m['copy'] = dec_reply(replies[i]); i += 1
            elif op == 'rotate_inplace':
                m['r'] = dec_reply(replies[i]); i += 1
            elif op == 'sep':
                m['d2'] = dec_reply(replies[i], lambda j: [[int(n) for n in j['shape']], j['data']]); i += 1
            elif op == 'rotate':
                m['r'] = dec_reply(replies[i]); i += 1
            out.append(m)
        return {'steps': out}

    def _hist_equal(self, case, real, model):
        if 'ctor' in real:
            return False
        scale = coord_scale(case['p']) * 4
        for (step, st, last), r, m in zip(self._hist_walk(case), real['steps'], model['steps']):
            op = step['op']
            if op == 'to_sky':
                if is_err(r.get('sky')) or not m['consistent']:
                    return False
                shp, lon, lat, scal = r['sky']
                if shp != st['shape'] or len(lon) != len(m['lon']):
                    return False
                for a, b in zip(lon, m['lon']):
                    d = abs(float(num(a)) - b) % 360.0
                    if not (min(d, 360.0 - d) <= 1e-9):
                        return False
                for a, b in zip(lat, m['lat']):
                    if not (abs(float(num(a)) - b) <= 1e-9):
                        return False
                if not close_pc(r['back'], m['back'], max(scale, rt_tol(case['wcss'][step['wcs']], 'wcs') / Fraction(TOL))):
                    return False
            elif op == 'from_sky':
                if not close_pc(r['res'], m['res'], max(scale, rt_tol(case['wcss'][step['wcs']], 'wcs') / Fraction(TOL))):
                    return False
            elif op == 'edit':
                if 'edit' in r or not same_pc(r['state'], m['state']):
                    return False
            elif op == 'copy':
                if not same_pc(r['copy'], m['copy']):
                    return False
            elif op == 'rotate_inplace':
                if 'mod_failed' in r or not close_pc(r['r'], m['r'], scale * coord_scale(step['center'], step['o'])):
                    return False
            elif op == 'sep':
                if not self._sep_close(r['d'], m['d2']):
                    return False
            elif op == 'rotate':
                if not close_pc(r['r'], m['r'], scale * coord_scale(step['center'])):
                    return False
        return True

    def _hist_oracle(self, case, real):
        V = []
        def bad(kind, detail, i):
            V.append({'kind': kind, 'detail': f'{detail} :: history step {i}: '
                      f'{ {k: v for k, v in case["steps"][i].items() if k in ("op", "wcs", "origin", "mode", "attr", "idx", "val", "how", "who", "k", "mod", "bidx")} }'
                      f' after {[s_["op"] + (str(s_.get("origin", "")) + s_.get("mode", "")) for s_ in case["steps"][:i]]}', 'step': i})
        if 'ctor' in real:
            if py_bshape(case['p']['x']['shape'], case['p']['y']['shape']) is not None:
                bad('ctor_raised_on_broadcastable', real['ctor'], 0)
            return V
        prev = {}
        for i, ((step, st, last), r) in enumerate(zip(self._hist_walk(case), real['steps'])):
            op = step['op']
            S, X, Y = st['shape'], st['x'], st['y']
            # the receiver holds exactly the values it should (edits applied, nothing else changed it)
            rs = r['state']
            if rs['shape'] != S or [num(v) for v in rs['x']] != X or [num(v) for v in rs['y']] != Y:
                bad('history_receiver_changed', f"x={rs['x'][:6]} y={rs['y'][:6]} expected x={[frac(v) for v in X[:6]]} y={[frac(v) for v in Y[:6]]}", i)
                return V
            exp_c = step['_copies']
            got_c = r['copies']
            if len(got_c) == len(exp_c):
                for j, (g, e) in enumerate(zip(got_c, exp_c)):
                    if g['shape'] != e['shape'] or [num(v) for v in g['x']] != e['x'] or [num(v) for v in g['y']] != e['y']:
                        bad('copy_not_independent', f"copy #{j} now holds x={g['x'][:6]} y={g['y'][:6]}, expected "
                            f"x={[frac(v) for v in e['x'][:6]]} y={[frac(v) for v in e['y'][:6]]}", i)
                        return V
            elif not (op == 'copy' and is_err(r.get('copy'))):
                bad('copy_count', f'{len(got_c)} copies alive, expected {len(exp_c)}', i)
                return V
            if op == 'to_sky':
                if is_err(r.get('sky')):
                    bad('to_sky_raised', r['sky'], i)
                    continue
                shp, lon, lat, scal = r['sky']
                if shp != S or scal != (S == []):
                    bad('to_sky_shape', f'{shp} scalar={scal} for {S}', i)
                    continue
                # sky position of THIS call: wcslib on the current values in the FITS convention (x + 1 - origin)
                _, _, elon, elat = self._sky_eval(case['wcss'][step['wcs']], step['mode'], step['origin'], X, Y)
                for a, b, c_, d_ in zip(lon, elon, lat, elat):
                    dl = abs(float(num(a)) - float(b)) % 360.0
                    if not (min(dl, 360.0 - dl) <= 1e-9 and abs(float(num(c_)) - float(d_)) <= 1e-9):
                        bad('to_sky_not_the_position_of_this_call', f'({float(num(a))}, {float(num(c_))}) deg, expected ({float(b)}, {float(d_)}) deg '
                            f'for origin={step["origin"]} mode={step["mode"]} wcs#{step["wcs"]}', i)
                        break
                b = r.get('back')
                if is_err(b):
                    bad('from_sky_raised', b, i)
                elif b['shape'] != S or b['scalar'] != (S == []) or \
                        not all(abs(num(u) - v) <= rt_tol(case['wcss'][step['wcs']], step['mode'], step.get('frame')) for u, v in zip(b['x'] + b['y'], X + Y)):
                    bad('sky_roundtrip_values', f"back x={[float(num(v)) for v in b['x'][:4]]} y={[float(num(v)) for v in b['y'][:4]]} "
                        f"start x={[float(v) for v in X[:4]]} y={[float(v) for v in Y[:4]]} origin={step['origin']} mode={step['mode']}", i)
            elif op == 'from_sky':
                ls, lst = last
                b = r['res']
                if is_err(b):
                    bad('from_sky_raised', b, i)
                    continue
                if (ls['wcs'] == step['wcs'] or case['wcss'][0] == case['wcss'][1]) and \
                        (ls['mode'] == step['mode'] or not case['wcss'][step['wcs']].get('dist')):
                    # same WCS: the pixel position in the other origin convention is shifted by the origin difference
                    sh = step['origin'] - ls['origin']
                    ex, ey = [v + sh for v in lst['x']], [v + sh for v in lst['y']]
                    if b['shape'] != lst['shape'] or not all(abs(num(u) - v) <= max(rt_tol(case['wcss'][step['wcs']], step['mode'], step.get('frame')), rt_tol(case['wcss'][ls['wcs']], ls['mode'])) for u, v in zip(b['x'] + b['y'], ex + ey)):
                        bad('from_sky_origin_shift', f"x={[float(num(v)) for v in b['x'][:4]]} expected {[float(v) for v in ex[:4]]}", i)
            elif op == 'edit':
                if 'edit' in r:
                    bad('edit_failed', r['edit'], i)
            elif op == 'copy':
                c = r['copy']
                if is_err(c):
                    bad('copy_raised', c, i)
                    return V
                if not r.get('is_pixcoord') or c['shape'] != S or c['scalar'] != (S == []) or \
                        [num(v) for v in c['x']] != X or [num(v) for v in c['y']] != Y:
                    bad('copy_not_current_values', f"{step['how']} of {step['who']}: x={c['x'][:6]} y={c['y'][:6]} "
                        f"expected x={[frac(v) for v in X[:6]]} y={[frac(v) for v in Y[:6]]}", i)
                if step['how'] != 'copy.copy':
                    if r.get('shares_base'):
                        bad('copy_shares_memory_with_base_array', f"{step['how']} of {step['who']} "
                            f"(x: {case['p']['x'].get('ro')}, y: {case['p']['y'].get('ro')})", i)
                    if r.get('shares_orig'):
                        bad('copy_shares_memory_with_original', f"{step['how']} of {step['who']}", i)
                    if any(r.get('shares_prev', [])):
                        bad('copy_shares_memory_with_earlier_copy', f"{step['how']} of {step['who']}: shares with copies "
                            f"{[j for j, b_ in enumerate(r['shares_prev']) if b_]}", i)
            elif op == 'base_edit':
                if 'edit' in r:
                    bad('harness_base_edit_failed', r['edit'], i)
            elif op == 'copy_edit':
                if 'edit' in r:
                    bad('edit_of_copy_failed', r['edit'], i)
            elif op == 'rotate_inplace':
                if 'mod_failed' in r:
                    bad('angle_modification_failed', r['mod_failed'], i)
                    return V
                want = step['_ang']
                if Fraction(r['angle_now'][0]) != Fraction(want['v']):
                    bad('harness_angle_tracking', f"angle object holds {float(Fraction(r['angle_now'][0]))} {r['angle_now'][1]}, tracked {float(Fraction(want['v']))}", i)
                    return V
                q = r['r']
                if step['who'] == 'self':
                    TS, TX, TY = S, X, Y
                else:
                    TS, TX, TY = self._hist_state0({'p': step['o']}).values()
                _, xc, yc = self._hist_state0({'p': step['center']}).values()
                if is_err(q) or q['shape'] != TS:
                    bad('rotate_raised_or_shape', q if is_err(q) else q['shape'], i)
                    continue
                c, s_ = cs_of(mk_angle(want))         # cos / sin of the angle's CURRENT value
                tol = Fraction(TOL) * coord_scale(case['p'], step['o']) * coord_scale(step['center']) * 4
                ex = [xc[0] + (c * (x - xc[0]) - s_ * (y - yc[0])) for x, y in zip(TX, TY)]
                ey = [yc[0] + (s_ * (x - xc[0]) + c * (y - yc[0])) for x, y in zip(TX, TY)]
                if not all(abs(num(u) - v) <= tol for u, v in zip(q['x'] + q['y'], ex + ey)):
                    bad('rotate_not_by_current_angle', f"angle object now {float(Fraction(want['v']))} {want['unit']} (modified in place by "
                        f"{step['mod']['kind']}): x={[float(num(v)) for v in q['x'][:4]]} expected {[float(v) for v in ex[:4]]}", i)
                ro = r['o_state']
                if [num(v) for v in ro['x']] != TX or [num(v) for v in ro['y']] != TY:
                    bad('history_receiver_changed', f"rotated object: x={ro['x'][:4]}", i)
            elif op == 'sep':
                d = r['d']
                so, xo, yo = self._hist_state0({'p': step['o']}).values()
                SS = py_bshape(S, so)
                if is_err(d) or d[0] != SS:
                    bad('separation_raised_or_shape', d if is_err(d) else d[0], i)
                    continue
                XX, YY, XO, YO = py_bvalues(S, X, SS), py_bvalues(S, Y, SS), py_bvalues(so, xo, SS), py_bvalues(so, yo, SS)
                for j, v in enumerate(d[1]):
                    ex = fsqrt((XO[j] - XX[j]) ** 2 + (YO[j] - YY[j]) ** 2)
                    if not (abs(float(num(v)) - ex) <= 1e-12 * ex):
                        bad('separation_not_euclid', f'{v} expected {ex}', i)
                        break
                ro = r['o_state']
                if [num(v) for v in ro['x']] != xo or [num(v) for v in ro['y']] != yo:
                    bad('history_argument_changed', f"other: x={ro['x'][:4]}", i)
            elif op == 'rotate':
                q = r['r']
                sc, xc, yc = self._hist_state0({'p': step['center']}).values()
                if is_err(q) or q['shape'] != S:
                    bad('rotate_raised_or_shape', q if is_err(q) else q['shape'], i)
                    continue
                c, s_ = cs_of(mk_angle(step['a']))
                tol = Fraction(TOL) * coord_scale(case['p']) * coord_scale(step['center']) * 4
                ex = [xc[0] + (c * (x - xc[0]) - s_ * (y - yc[0])) for x, y in zip(X, Y)]
                ey = [yc[0] + (s_ * (x - xc[0]) + c * (y - yc[0])) for x, y in zip(X, Y)]
                if not all(abs(num(u) - v) <= tol for u, v in zip(q['x'] + q['y'], ex + ey)):
                    bad('rotate_values', f"x={[float(num(v)) for v in q['x'][:4]]} expected {[float(v) for v in ex[:4]]}", i)
                if r.get('aliased'):
                    bad('rotate_result_aliases_receiver', '', i)
                ro = r['o_state']
                if [num(v) for v in ro['x']] != xc or [num(v) for v in ro['y']] != yc:
                    bad('history_argument_changed', f"center: x={ro['x'][:4]}", i)
        return V


    # ================================================================ iteration protocol cases
    # Several iterators over the SAME object, advanced in an arbitrary interleaving, must each yield the rows of
    # (x, y) in order, independently of each other (zip(pc, pc), nested loops, a kept iterator and a later list(pc)).
    def _iter_gen_case(self, rng, p, scheds):
        return {'kind': 'iter', 'p': p, 'scheds': scheds}

    def _iter_cases(self, rng, quick):
        cases = []
        # exhaustive: every interleaving of two iterators (length 2n+2) and of three (length n+3) for small coordinates
        for s in ([1], [2], [3], [2, 2], [0], [3, 0]):
            n = s[0]
            p = {'x': self._arr(rng, s, 'float'), 'y': self._arr(rng, s, rng.choice(['int', 'float']))}
            two = [list(t) for t in itertools.product((0, 1), repeat=min(2 * n + 2, 6 if quick else 8))]
            three = [list(t) for t in itertools.product((0, 1, 2), repeat=min(n + 3, 5))]
            allsch = two + three
            for i in range(0, len(allsch), 64):
                cases.append(self._iter_gen_case(rng, p, allsch[i:i + 64]))
        for _ in range(250 if quick else 5000):
            p = self._coord(rng, None)
            scheds = [[rng.randint(0, 2) for _ in range(rng.randint(1, 10))] for _ in range(4)]
            cases.append(self._iter_gen_case(rng, p, scheds))
        return cases

    def _iter_real(self, case):
        p = attempt(lambda: mk_coord(case['p']))
        if is_err(p):
            return {'ctor': p}
        out = {}
        if p.isscalar:
            out['scalar_list'] = attempt(lambda: [canon_pc(q) for q in p])
            out['scalar_next'] = attempt(lambda: canon_pc(next(iter(p))))
            return out
        cl = lambda l: [canon_pc(q) for q in l]
        out['twice'] = attempt(lambda: [cl(list(p)), cl(list(p))])
        out['zip'] = attempt(lambda: [[canon_pc(a), canon_pc(b)] for a, b in zip(p, p)])
        if len(p) <= 4:
            out['nested'] = attempt(lambda: [[canon_pc(a), canon_pc(b)] for a in p for b in p])
        def kept():
            it = iter(p)
            first = [canon_pc(next(it))] if len(p) else []
            allp = cl(list(p))
            rest = cl(list(it))
            return {'first': first, 'all': allp, 'rest': rest}
        out['kept'] = attempt(kept)
        out['ident'] = attempt(lambda: [iter(p) is p, iter(p) is iter(p)])
        def run(sched):
            its = {}
            res = []
            for k in sched:
                if k not in its:
                    its[k] = iter(p)
                try:
                    res.append(canon_pc(next(its[k])))
                except StopIteration:
                    res.append('stop')
            return res
        out['scheds'] = [attempt(lambda sch=sch: run(sch)) for sch in case['scheds']]
        return out

    @staticmethod
    def _iter_expected(items, sched):
        cur = {}
        res = []
        for k in sched:
            i = cur.get(k, 0)
            if i < len(items):
                res.append(items[i])
                cur[k] = i + 1
            else:
                res.append('stop')
        return res

    def _iter_compare(self, real, items, scheds, same):
        """compare the recorded protocol results with what independent cursors over `items` give; -> list of (what, detail)."""
        bad = []
        n = len(items)
        def seq(name, got, exp):
            if is_err(got):
                bad.append((name + '_raised', str(got)))
                return
            if len(got) != len(exp):
                bad.append((name + '_count', f'{len(got)} items, expected {len(exp)}'))
                return
            for j, (g, e) in enumerate(zip(got, exp)):
                if (g == 'stop') != (e == 'stop') or (g != 'stop' and not same(g, e)):
                    bad.append((name + '_item', f'position {j}: got {g if g == "stop" else (g["x"][:4], g["y"][:4])} '
                                f'expected {e if e == "stop" else "row " + str(items.index(e))}'))
                    return
        tw = real['twice']
        if is_err(tw):
            bad.append(('iterate_twice_raised', str(tw)))
        else:
            seq('iterate_first_pass', tw[0], items)
            seq('iterate_second_pass', tw[1], items)
        z = real['zip']
        if is_err(z):
            bad.append(('zip_raised', str(z)))
        else:
            seq('zip_self_left', [a for a, b in z], items)
            seq('zip_self_right', [b for a, b in z], items)
        if 'nested' in real:
            ne = real['nested']
            if is_err(ne):
                bad.append(('nested_raised', str(ne)))
            else:
                seq('nested_outer', [a for a, b in ne], [items[i] for i in range(n) for _ in range(n)])
                seq('nested_inner', [b for a, b in ne], [items[j] for _ in range(n) for j in range(n)])
        kp = real['kept']
        if is_err(kp):
            bad.append(('kept_iterator_raised', str(kp)))
        else:
            seq('kept_iterator_first', kp['first'], items[:1])
            seq('kept_iterator_list', kp['all'], items)
            seq('kept_iterator_rest', kp['rest'], items[1:])
        if real['ident'] != [False, False]:
            bad.append(('iterator_not_independent_object', f'iter(pc) is pc: {real["ident"][0] if not is_err(real["ident"]) else real["ident"]}, '
                        f'iter(pc) is iter(pc): {real["ident"][1] if not is_err(real["ident"]) else ""}'))
        for sch, got in zip(scheds, real['scheds']):
            before = len(bad)
            seq('interleaved', got, self._iter_expected(items, sch))
            if len(bad) > before:
                bad[-1] = (bad[-1][0], bad[-1][1] + f' [schedule of next() calls on iterators {sch}]')
                break
        return bad

    def _iter_requests(self, case):
        return [{'op': 'pc.iter', 'p': self._jc(case['p'])}]

    def _iter_model(self, case, replies):
        r = replies[0]
        if r.get('at') == 'ctor':
            return {'ctor': {'err': r['err']}}
        return {'iter': {'err': r['err']} if 'err' in r else [dec_pc(j) for j in r['ok']]}

    def _iter_equal(self, case, real, model):
        if 'ctor' in real or 'ctor' in model:
            return 'ctor' in real and 'ctor' in model and is_err(real['ctor']) and real['ctor']['err'] == model['ctor']['err']
        if 'scalar_list' in real:
            return is_err(model['iter']) and all(is_err(real[k]) and real[k]['err'] == model['iter']['err']
                                                 for k in ('scalar_list', 'scalar_next'))
        if is_err(model['iter']):
            return False
        return not self._iter_compare(real, model['iter'], case['scheds'], same_pc)

    def _iter_oracle(self, case, real):
        V = []
        c = case['p']
        S = py_bshape(c['x']['shape'], c['y']['shape'])
        if 'ctor' in real:
            if S is not None or real['ctor'].get('err') != 'ValueError':
                V.append({'kind': 'ctor_raised', 'detail': f'{real["ctor"]} :: iter'})
            return V
        if S == []:
            for k in ('scalar_list', 'scalar_next'):
                if not is_err(real[k]) or real[k]['err'] != 'TypeError':
                    V.append({'kind': 'iter_of_scalar', 'detail': f'{k}: {real[k]} :: iter'})
            return V
        st = self._hist_state0(case)
        m = prod(S[1:])
        rows = [{'shape': S[1:], 'x': st['x'][i * m:(i + 1) * m], 'y': st['y'][i * m:(i + 1) * m]} for i in range(S[0])]
        def same(g, e):
            return (not is_err(g) and g['shape'] == e['shape'] and 'shape_y' not in g and g['scalar'] == (e['shape'] == [])
                    and [num(v) for v in g['x']] == e['x'] and [num(v) for v in g['y']] == e['y'])
        for what, detail in self._iter_compare(real, rows, case['scheds'], same):
            V.append({'kind': what, 'detail': f'{detail} :: iter shape={S}'})
        return V

    # ================================================================ real code
    def real(self, case):
        from regions import PixCoord
        kind = case['kind']
        if kind == 'history':
            return self._hist_real(case)
        if kind == 'iter':
            return self._iter_real(case)
        out = {}
        if kind == 'ctor':
            x, y = mk_arr(case['x']), mk_arr(case['y'])
            p = attempt(lambda: PixCoord(x, y))
            if is_err(p):
                return {'ctor': p}
            out['ctor'] = canon_pc(p)
            out['len'] = attempt(lambda: int(len(p)))
            out['iter'] = attempt(lambda: [canon_pc(q) for q in p])
            xy = p.xy
            out['xy'] = [list(np.shape(xy[0])), canon_vals(xy[0]), list(np.shape(xy[1])), canon_vals(xy[1])]
            out['xy_is_attrs'] = bool(isinstance(xy, tuple) and len(xy) == 2 and xy[0] is p.x and xy[1] is p.y)
            c = attempt(lambda: p.copy())
            out['copy'] = c if is_err(c) else canon_pc(c)
            # copies are independent: mutate the copy, look at the original; then the other way round
            if not is_err(c) and not p.isscalar:
                before = canon_pc(p)
                indep = True
                shares = bool(np.shares_memory(c.x, p.x) or np.shares_memory(c.y, p.y)
                              or np.shares_memory(c.x, p.y) or np.shares_memory(c.y, p.x))
                if np.size(c.x):
                    try:
                        with warnings.catch_warnings():
                            warnings.simplefilter('ignore')
                            c.x[...] = c.x + 7
                            c.y[...] = c.y - 3
                    except Exception as e:
                        out['copy_mutate_err'] = type(e).__name__
                    after = canon_pc(p)
                    indep = (after == before)
                    cc = canon_pc(c)
                    # and the copy really changed (so the test is not vacuous)
                    out['copy_changed'] = cc['x'] != before['x'] or 'copy_mutate_err' in out
                    # now change the original's inputs and look at the copy
                    if isinstance(x, np.ndarray) and x.shape != () and x.size and x.flags.writeable:
                        x[...] = x + 11
                        indep = indep and canon_pc(c) == cc
                out['copy_indep'] = bool(indep and not shares)
            elif not is_err(c):
                out['copy_indep'] = True
            return out
        if kind == 'getitem':
            p = attempt(lambda: mk_coord(case['p']))
            if is_err(p):
                return {'ctor': p}
            key = mk_key(case['key'], case['bare'])
            r = attempt(lambda: p[key])
            out['res'] = r if is_err(r) else canon_pc(r)
            # the same index applied with numpy to the (separately broadcast) x and y arrays
            if not p.isscalar:
                s = py_bshape(case['p']['x']['shape'], case['p']['y']['shape'])
                xb = np.broadcast_to(np.asarray(mk_arr(case['p']['x'])), s)
                yb = np.broadcast_to(np.asarray(mk_arr(case['p']['y'])), s)
                dx = attempt(lambda: xb[key])
                dy = attempt(lambda: yb[key])
                out['direct'] = [dx if is_err(dx) else [list(np.shape(dx)), canon_vals(dx), np.asarray(dx).dtype.kind],
                                 dy if is_err(dy) else [list(np.shape(dy)), canon_vals(dy), np.asarray(dy).dtype.kind]]
            return out
        if kind == 'arith':
            p = attempt(lambda: mk_coord(case['p']))
            if is_err(p):
                return {'ctor': p}
            if case['o'] is None:
                o = {'int': 3, 'float': 2.5, 'tuple': (1, 2), 'none': None, 'ndarray': np.array([1.0, 2.0]), 'str': 'x'}[case['nonpix']]
            else:
                o = attempt(lambda: mk_coord(case['o']))
                if is_err(o):
                    return {'ctor': o}
            def cp(f):
                r = attempt(f)
                return r if is_err(r) else canon_pc(r)
            out['add'] = cp(lambda: p + o)
            out['sub'] = cp(lambda: p - o)
            out['addsub'] = cp(lambda: (p + o) - o)
            out['subadd'] = cp(lambda: (p - o) + o)
            if case['o'] is not None:
                def sep(a, b):
                    r = attempt(lambda: a.separation(b))
                    return r if is_err(r) else [list(np.shape(r)), canon_vals(r), str(np.asarray(r).dtype)]
                out['sep'] = sep(p, o)
                out['sep_rev'] = sep(o, p)
            return out
        if kind == 'rotate':
            p = attempt(lambda: mk_coord(case['p']))
            ctr = attempt(lambda: mk_coord(case['center']))
            q = attempt(lambda: mk_coord(case['q']))
            if is_err(p) or is_err(ctr) or is_err(q):
                return {'ctor': p if is_err(p) else (ctr if is_err(ctr) else q)}
            a1, a2 = mk_angle(case['a1']), mk_angle(case['a2'])
            c1, s1 = cs_of(a1)
            c2, s2 = cs_of(a2)
            out['cs'] = [frac(c1), frac(s1), frac(c2), frac(s2)]
            def cp(f):
                r = attempt(f)
                return r if is_err(r) else canon_pc(r)
            def sepv(f):
                r = attempt(f)
                return r if is_err(r) else [list(np.shape(r)), canon_vals(r)]
            out['r1'] = cp(lambda: p.rotate(ctr, a1))
            out['r12'] = cp(lambda: p.rotate(ctr, a1).rotate(ctr, a2))
            out['rsum'] = cp(lambda: p.rotate(ctr, a1 + a2))
            out['back'] = cp(lambda: p.rotate(ctr, a1).rotate(ctr, -a1))
            out['ctr_rot'] = cp(lambda: ctr.rotate(ctr, a1))
            out['d0'] = sepv(lambda: p.separation(q))
            out['d1'] = sepv(lambda: p.rotate(ctr, a1).separation(q.rotate(ctr, a1)))
            out['dc0'] = sepv(lambda: p.separation(ctr))
            out['dc1'] = sepv(lambda: p.rotate(ctr, a1).separation(ctr))
            return out
        if kind == 'sky':
            p = attempt(lambda: mk_coord(case['p']))
            if is_err(p):
                return {'ctor': p}
            wcs = mk_wcs(case['wcs'])
            o, mode = case['origin'], case['mode']
            sky = attempt(lambda: p.to_sky(wcs, origin=o, mode=mode))
            if is_err(sky):
                return {'sky': sky}
            out['sky'] = [list(sky.shape), canon_vals(sky.data.lon.deg), canon_vals(sky.data.lat.deg), bool(sky.isscalar)]
            sky_in = sky.transform_to(mk_frame(case['sky_frame'])) if case.get('sky_frame') else sky
            back = attempt(lambda: PixCoord.from_sky(sky_in, wcs, origin=o, mode=mode))
            out['back'] = back if is_err(back) else canon_pc(back)
            out['start'] = canon_pc(p)
            return out
        raise ValueError(kind)

    # ================================================================ model
    @staticmethod
    def _jarr(a):
        return {'shape': a['shape'], 'data': a['data']}

    def _jc(self, c):
        return {'x': self._jarr(c['x']), 'y': self._jarr(c['y'])}

    @staticmethod
    def _jkey(key):
        out = []
        for k in key:
            if k['t'] == 'slice':
                out.append({'t': 'slice', 'a': k.get('a'), 'b': k.get('b'), 'c': k.get('c')})
            elif k['t'] in ('ia', 'ba'):
                out.append({'t': k['t'], 'shape': k['shape'], 'data': k['data']})
            else:
                out.append(dict(k))
        return out

    def _wcs_param(self, case):
        """evaluate the model's WCS parameters (p2w, w2p on FITS pixels) with real wcslib."""
        wcs = mk_wcs(case['wcs'])
        s = py_bshape(case['p']['x']['shape'], case['p']['y']['shape'])
        if s is None:
            return None
        xs = py_bvalues(case['p']['x']['shape'], [Fraction(v) for v in case['p']['x']['data']], s)
        ys = py_bvalues(case['p']['y']['shape'], [Fraction(v) for v in case['p']['y']['data']], s)
        sh = 1 - case['origin']
        fx = np.array([float(v + sh) for v in xs], dtype=float)
        fy = np.array([float(v + sh) for v in ys], dtype=float)
        lon, lat = wcs_fwd(wcs, case['wcs'], case['mode'], fx, fy)
        lon_w, lat_w = (lon, lat) if not case.get('sky_frame') else via_frame(case['wcs'], lon, lat, case['sky_frame'], case['wcs'])
        bx, by = wcs_inv(wcs, case['wcs'], case['mode'], lon_w, lat_w)
        return s, [frac(v) for v in fx], [frac(v) for v in fy], list(lon), list(lat), [frac(v) for v in bx], [frac(v) for v in by]

    def requests(self, case):
        k = case['kind']
        if k == 'history':
            return self._hist_requests(case)
        if k == 'iter':
            return self._iter_requests(case)
        if k == 'ctor':
            c = {'x': self._jarr(case['x']), 'y': self._jarr(case['y'])}
            return [dict(op='pc.ctor', **c)] + [{'op': op, 'p': c} for op in ('pc.len', 'pc.iter', 'pc.copy', 'pc.xy')]
        if k == 'getitem':
            return [{'op': 'pc.getitem', 'p': self._jc(case['p']), 'key': self._jkey(case['key'])}]
        if k == 'arith':
            p = self._jc(case['p'])
            o = None if case['o'] is None else self._jc(case['o'])
            ops = ['pc.add', 'pc.sub', 'pc.addsub', 'pc.subadd']
            reqs = [{'op': op, 'p': p, 'o': o} for op in ops]
            if o is not None:
                reqs.append({'op': 'pc.sep2', 'p': p, 'q': o})
                reqs.append({'op': 'pc.sep2', 'p': o, 'q': p})
            return reqs
        if k == 'rotate':
            p, c = self._jc(case['p']), self._jc(case['center'])
            a1, a2 = mk_angle(case['a1']), mk_angle(case['a2'])
            c1, s1 = cs_of(a1)
            c2, s2 = cs_of(a2)
            reqs = [{'op': 'pc.rotate', 'p': p, 'center': c, 'c': frac(c1), 's': frac(s1)},
                    {'op': 'pc.rotate2', 'p': p, 'center': c, 'c1': frac(c1), 's1': frac(s1), 'c2': frac(c2), 's2': frac(s2)},
                    {'op': 'pc.rotate', 'p': c, 'center': c, 'c': frac(c1), 's': frac(s1)}]
            if 'exact' in case:
                e = case['exact']
                reqs.append({'op': 'pc.rotate2', 'p': p, 'center': c, 'c1': e[0], 's1': e[1], 'c2': e[2], 's2': e[3]})
                reqs.append({'op': 'pc.ctor', 'x': p['x'], 'y': p['y']})
                reqs.append({'op': 'pc.rotate', 'p': p, 'center': c, 'c': e[0], 's': e[1]})
            return reqs
        if k == 'sky':
            p = self._jc(case['p'])
            reqs = [{'op': 'pc.to_fits', 'p': p, 'origin': case['origin'], 'all': case['mode'] == 'all'}]
            w = self._wcs_param(case)
            if w is not None:
                s, fx, fy, lon, lat, bx, by = w
                reqs.append({'op': 'pc.from_fits', 'shape': s, 'x': bx, 'y': by, 'origin': case['origin'],
                             'all': case['mode'] == 'all'})
            return reqs
        raise ValueError(k)

    def model(self, case, replies):
        for r in replies:
            if 'fail' in r:
                return {'fail': r['fail']}
        k = case['kind']
        if k == 'history':
            return self._hist_model(case, replies)
        if k == 'iter':
            return self._iter_model(case, replies)
        if k == 'ctor':
            c = dec_reply(replies[0])
            if is_err(c):
                return {'ctor': c}
            ln = replies[1]
            it = replies[2]
            xy = replies[4]['ok']
            return {'ctor': c,
                    'len': {'err': ln['err']} if 'err' in ln else int(ln['ok']),
                    'iter': {'err': it['err']} if 'err' in it else [dec_pc(j) for j in it['ok']],
                    'copy': dec_reply(replies[3]),
                    'xy': [[int(n) for n in xy[0]['shape']], xy[0]['data'], [int(n) for n in xy[1]['shape']], xy[1]['data']]}
        if k == 'getitem':
            r = replies[0]
            if r.get('at') == 'ctor':
                return {'ctor': {'err': r['err']}}
            return {'res': dec_reply(r)}
        if k == 'arith':
            if replies[0].get('at') == 'ctor':
                return {'ctor': {'err': replies[0]['err']}}
            out = {n: dec_reply(r) for n, r in zip(('add', 'sub', 'addsub', 'subadd'), replies)}
            if case['o'] is not None:
                f = lambda j: [[int(n) for n in j['shape']], j['data']]
                out['sep2'] = dec_reply(replies[4], f)
                out['sep2_rev'] = dec_reply(replies[5], f)
            return out
        if k == 'rotate':
            if replies[0].get('at') == 'ctor':
                return {'ctor': {'err': replies[0]['err']}}
            out = {'r1': dec_reply(replies[0]), 'r12': dec_reply(replies[1]['twice']),
                   'once': dec_reply(replies[1]['once']), 'back': dec_reply(replies[1]['back']),
                   'ctr_rot': dec_reply(replies[2])}
            if 'exact' in case:
                out['x_twice'] = dec_reply(replies[3]['twice'])
                out['x_once'] = dec_reply(replies[3]['once'])
                out['x_back'] = dec_reply(replies[3]['back'])
                out['x_start'] = dec_reply(replies[4])
                out['x_r1'] = dec_reply(replies[5])
            return out
        if k == 'sky':
            r = replies[0]
            if r.get('at') == 'ctor':
                return {'ctor': {'err': r['err']}}
            s, fx, fy, lon, lat, bx, by = self._wcs_param(case)
            fits = r['ok']
            # the FITS pixels the parameter was evaluated on must be exactly the model's shifted pixels
            consistent = ([int(n) for n in fits['shape']] == s and [Fraction(v) for v in fits['x']] == [Fraction(v) for v in fx]
                          and [Fraction(v) for v in fits['y']] == [Fraction(v) for v in fy])
            return {'consistent': consistent, 'shape': s, 'lon': lon, 'lat': lat, 'back': dec_reply(replies[1])}
        raise ValueError(k)

    # ================================================================ comparison
    def _sep_close(self, real, m2):
        """real separation (floats) vs the model's exact squared separation."""
        if is_err(real) or is_err(m2):
            return is_err(real) and is_err(m2) and real['err'] == m2['err']
        if real[0] != m2[0] or len(real[1]) != len(m2[1]):
            return False
        for d, q in zip(real[1], m2[1]):
            ex = fsqrt(q)
            if not (abs(float(num(d)) - ex) <= 1e-12 * ex):
                return False
        return True

    @staticmethod
    def _wrapped(real, model):
        """the model's exact + / - results as numpy stores them in the real result's integer dtype."""
        if is_err(real) or is_err(model) or 'fail' in model:
            return model
        m = dict(model)
        for k, dt in zip(('x', 'y'), real.get('dtypes', ['float64', 'float64'])):
            if np.dtype(dt).kind in 'iu' and not real['scalar']:
                m[k] = [frac(Fraction(wrap_int(Fraction(v), dt))) if Fraction(v).denominator == 1 else v for v in model[k]]
        return m

    def equal(self, case, real, model):
        if 'fail' in model:
            return False
        if case['kind'] == 'history':
            return self._hist_equal(case, real, model)
        if case['kind'] == 'iter':
            return self._iter_equal(case, real, model)
        if 'ctor' in real and is_err(real['ctor']):
            return 'ctor' in model and is_err(model['ctor']) and model['ctor']['err'] == real['ctor']['err']
        if 'ctor' in model and is_err(model['ctor']):
            return False
        k = case['kind']
        if k == 'ctor':
            if not same_pc(real['ctor'], model['ctor']):
                return False
            if is_err(real['len']) or is_err(model['len']):
                if not (is_err(real['len']) and is_err(model['len']) and real['len']['err'] == model['len']['err']):
                    return False
            elif real['len'] != model['len']:
                return False
            if is_err(real['iter']) or is_err(model['iter']):
                if not (is_err(real['iter']) and is_err(model['iter']) and real['iter']['err'] == model['iter']['err']):
                    return False
            else:
                if len(real['iter']) != len(model['iter']):
                    return False
                if not all(same_pc(a, b) for a, b in zip(real['iter'], model['iter'])):
                    return False
            return same_pc(real['copy'], model['copy']) and real['xy'] == model['xy']
        if k == 'getitem':
            return same_pc(real['res'], model['res'])
        if k == 'arith':
            for n in ('add', 'sub', 'addsub', 'subadd'):
                if not same_pc(real[n], self._wrapped(real[n], model[n])):
                    return False
            if case['o'] is not None:
                return self._sep_close(real['sep'], model['sep2']) and self._sep_close(real['sep_rev'], model['sep2_rev'])
            return True
        if k == 'rotate':
            scale = coord_scale(case['p'], case['center']) * 4
            if not close_pc(real['r1'], model['r1'], scale):
                return False
            if not close_pc(real['r12'], model['r12'], scale):
                return False
            if not close_pc(real['rsum'], model['once'], scale):
                return False
            if not close_pc(real['back'], model['back'], scale):
                return False
            if not close_pc(real['ctr_rot'], model['ctr_rot'], scale):
                return False
            if 'exact' in case:
                # exact unit vectors: in the model composition and inverse hold exactly, and the real code is close
                if not same_pc({k2: v for k2, v in model['x_twice'].items() if k2 != 'shape_y'}, model['x_once']):
                    return False
                if not is_err(model['x_back']):
                    st = model['x_start']
                    s = model['x_back']['shape']
                    bx = py_bvalues(st['shape'], st['x'], s)
                    by = py_bvalues(st['shape'], st['y'], s)
                    if [Fraction(v) for v in bx] != [Fraction(v) for v in model['x_back']['x']] or \
                       [Fraction(v) for v in by] != [Fraction(v) for v in model['x_back']['y']]:
                        return False
                if not close_pc(real['r1'], model['x_r1'], scale):
                    return False
                if not close_pc(real['r12'], model['x_twice'], scale):
                    return False
            return True
        if k == 'sky':
            if is_err(real.get('sky')):
                return False
            if not model['consistent']:
                return False
            shp, lon, lat, scal = real['sky']
            if shp != model['shape'] or scal != (shp == []):
                return False
            for a, b in zip(lon, model['lon']):
                d = abs(float(num(a)) - float(b)) % 360.0
                if not (min(d, 360.0 - d) <= 1e-9):
                    return False
            for a, b in zip(lat, model['lat']):
                if not (abs(float(num(a)) - float(b)) <= 1e-9):
                    return False
            if len(lon) != len(model['lon']):
                return False
            return close_pc(real['back'], model['back'], max(coord_scale(case['p']), rt_tol(case['wcs'], 'wcs') / Fraction(TOL)))
        return False

    # ================================================================ oracle (property, first principles)
    def oracle(self, case, real):
        V = []
        k = case['kind']
        if k == 'history':
            return self._hist_oracle(case, real)
        if k == 'iter':
            return self._iter_oracle(case, real)

        def bad(kind, detail, **kw):
            d = {'kind': kind, 'detail': f'{detail} :: {k}'}
            d.update(kw)
            V.append(d)

        def bvals(c):
            s = py_bshape(c['x']['shape'], c['y']['shape'])
            if s is None:
                return None, None, None
            return (s, py_bvalues(c['x']['shape'], [Fraction(v) for v in c['x']['data']], s),
                    py_bvalues(c['y']['shape'], [Fraction(v) for v in c['y']['data']], s))

        def fr(l):
            return [num(v) for v in l]

        def check_pc(name, got, s, xs, ys, tol=None):
            """got (canonical real coordinate) must have shape s and the given values."""
            if is_err(got):
                bad(name + '_raised', got)
                return False
            if got['shape'] != list(s) or 'shape_y' in got:
                bad(name + '_shape', f"{got['shape']} (y: {got.get('shape_y')}) expected {list(s)}")
                return False
            if got['scalar'] != (list(s) == []):
                bad(name + '_scalar_flag', f"isscalar={got['scalar']} for shape {list(s)}")
                return False
            gx, gy = fr(got['x']), fr(got['y'])
            if tol is None:
                ok = gx == list(xs) and gy == list(ys)
            else:
                ok = len(gx) == len(xs) and len(gy) == len(ys) and \
                    all(abs(a - b) <= tol for a, b in zip(gx, xs)) and all(abs(a - b) <= tol for a, b in zip(gy, ys))
            if not ok:
                bad(name + '_values', f'x={got["x"][:8]} y={got["y"][:8]} expected x={[frac(v) for v in list(xs)[:8]]} y={[frac(v) for v in list(ys)[:8]]}')
            return ok

        if 'ctor' in real and is_err(real['ctor']):
            # the constructor may fail only when the shapes do not broadcast, and then with ValueError
            cs = [case] if k == 'ctor' else [case[n] for n in ('p', 'o', 'center', 'q') if case.get(n)]
            if all(py_bshape(c['x']['shape'], c['y']['shape']) is not None for c in cs):
                bad('ctor_raised_on_broadcastable', real['ctor'])
            elif real['ctor']['err'] != 'ValueError':
                bad('ctor_wrong_exception', real['ctor'])
            return V

        if k == 'ctor':
            s, xs, ys = bvals(case)
            if s is None:
                bad('ctor_accepted_non_broadcastable', real['ctor'])
                return V
            c = real['ctor']
            check_pc('ctor', c, s, xs, ys)
            if c['kinds'] != [('i' if case['x']['dtype'] == 'int' else 'f'), ('i' if case['y']['dtype'] == 'int' else 'f')]:
                bad('ctor_dtype_changed', c['kinds'])
            if s == []:
                if not c['scalar'] or any(t not in ('int', 'float') for t in c.get('pytypes', ['?'])):
                    bad('scalar_pair_not_scalar', c)
                if not is_err(real['len']) or real['len']['err'] != 'TypeError':
                    bad('len_of_scalar', real['len'])
                if not is_err(real['iter']) or real['iter']['err'] != 'TypeError':
                    bad('iter_of_scalar', real['iter'])
            else:
                if real['len'] != s[0]:
                    bad('len_wrong', f"{real['len']} for shape {s}")
                it = real['iter']
                if is_err(it) or len(it) != s[0]:
                    bad('iter_count', f'{it if is_err(it) else len(it)} for shape {s}')
                else:
                    m = prod(s[1:])
                    for i, q in enumerate(it):
                        if not check_pc(f'iter_item', q, s[1:], xs[i * m:(i + 1) * m], ys[i * m:(i + 1) * m]):
                            break
            if real['xy'] != [c['shape'], c['x'], c['shape'], c['y']] or not real.get('xy_is_attrs'):
                bad('xy_wrong', real['xy'])
            if check_pc('copy', real['copy'], s, xs, ys):
                if not real.get('copy_indep', False):
                    bad('copy_not_independent', real.get('copy_mutate_err'))
                if prod(s) > 0 and s != [] and not real.get('copy_changed', False):
                    bad('copy_probe_vacuous', '')
            return V

        if k == 'getitem':
            s, xs, ys = bvals(case['p'])
            res = real['res']
            if s == []:
                if not is_err(res) or res['err'] != 'IndexError':
                    bad('scalar_indexable', res)
                return V
            dx, dy = real['direct']
            if is_err(dx) or is_err(dy):
                if not (is_err(dx) and is_err(dy) and dx['err'] == dy['err']):
                    bad('numpy_x_y_disagree', f'{dx} {dy}')
                elif not is_err(res) or res['err'] != dx['err']:
                    bad('getitem_exception_differs', f'coordinate: {res}; arrays: {dx}')
                return V
            if dx[0] != dy[0]:
                bad('numpy_x_y_shapes_differ', f'{dx[0]} {dy[0]}')
                return V
            if check_pc('getitem', res, dx[0], fr(dx[1]), fr(dy[1])):
                if res['kinds'] != [dx[2], dy[2]]:
                    bad('getitem_dtype_changed', res['kinds'])
            return V

        if k == 'arith':
            s, xs, ys = bvals(case['p'])
            if case['o'] is None:
                for n in ('add', 'sub'):
                    if not is_err(real[n]) or real[n]['err'] != 'TypeError':
                        bad(n + '_non_pixcoord', real[n])
                return V
            so, xo, yo = bvals(case['o'])
            S = py_bshape(s, so)
            if S is None:
                for n in ('add', 'sub', 'sep'):
                    if not is_err(real[n]) or real[n]['err'] != 'ValueError':
                        bad(n + '_non_broadcastable', real[n])
                return V
            X, Y = py_bvalues(s, xs, S), py_bvalues(s, ys, S)
            XO, YO = py_bvalues(so, xo, S), py_bvalues(so, yo, S)
            D = case.get('npdtype')
            # + and - are component-wise; in an integer array dtype numpy stores the exact result modulo the dtype
            # (numpy's semantics of + and -, see `assumptions`); Python numbers (scalar pairs) are exact
            isint = (D is not None and np.dtype(D).kind in 'iu') and S != []
            def st(vals):
                return [Fraction(wrap_int(v, D)) for v in vals] if isint else list(vals)
            n0 = len(V)
            check_pc('add', real['add'], S, st([a + b for a, b in zip(X, XO)]), st([a + b for a, b in zip(Y, YO)]))
            check_pc('sub', real['sub'], S, st([a - b for a, b in zip(X, XO)]), st([a - b for a, b in zip(Y, YO)]))
            check_pc('add_sub_inverse', real['addsub'], S, X, Y)
            check_pc('sub_add_inverse', real['subadd'], S, X, Y)
            for v in V[n0:]:
                v['detail'] += f' [dtype={D} range={case.get("vrange")} exp={case.get("exp")}]'
            if not is_err(real['add']):
                got = real['add']['dtypes']
                if D is not None and S != [] and got != [D, D]:
                    bad('add_dtype_changed', f'{got} for operands of dtype {D}')
                if D is None and all(c[n]['dtype'] == 'int' for c in (case['p'], case['o']) for n in ('x', 'y')) \
                        and real['add']['kinds'] != ['i', 'i']:
                    bad('add_dtype_changed', real['add']['kinds'])
            for n in ('sep', 'sep_rev'):
                d = real[n]
                if is_err(d):
                    bad(n + '_raised', d)
                    continue
                if d[0] != S:
                    bad(n + '_shape', f'{d[0]} expected {S}')
                    continue
                for i, v in enumerate(fr(d[1])):
                    # the exact Euclidean distance of the exact coordinate values (Python integers / rationals)
                    e2 = (XO[i] - X[i]) ** 2 + (YO[i] - Y[i]) ** 2
                    ex = fsqrt(e2)
                    if not (abs(float(v) - ex) <= 1e-12 * ex):
                        bad('separation_not_euclid', f'{float(v)} expected {ex} = sqrt({frac(e2)[:48]}) [dtype={D} range={case.get("vrange")} '
                            f'exp={case.get("exp")} result dtype={d[2]}] p=({frac(X[i])},{frac(Y[i])}) o=({frac(XO[i])},{frac(YO[i])})')
                        break
                    if (v == 0) != (e2 == 0):
                        bad('separation_zero_iff_equal', f'{float(v)} for squared distance {frac(e2)[:48]} [dtype={D} exp={case.get("exp")}]')
                        break
            if not is_err(real['sep']) and not is_err(real['sep_rev']) and real['sep'][:2] != real['sep_rev'][:2]:
                bad('separation_not_symmetric', f"{real['sep'][1][:4]} {real['sep_rev'][1][:4]} [dtype={D}]")
            return V

        if k == 'rotate':
            s, xs, ys = bvals(case['p'])
            sc, xc, yc = bvals(case['center'])
            S = py_bshape(s, sc)
            rank = len(S) if S is not None else None
            def rbad(kind, detail):
                bad(kind, f'{detail} [p.shape={s} center.shape={sc}]', rank=rank)
            if S is None:
                if not is_err(real['r1']) or real['r1']['err'] != 'ValueError':
                    rbad('rotate_non_broadcastable', real['r1'])
                return V
            scale = coord_scale(case['p'], case['center'], case['q']) * 4
            tol = Fraction(TOL) * scale
            c1, s1, c2, s2 = fr(real['cs'])
            X, Y = py_bvalues(s, xs, S), py_bvalues(s, ys, S)
            XC, YC = py_bvalues(sc, xc, S), py_bvalues(sc, yc, S)
            def rot(c, sn, X, Y):
                return ([cx + (c * (x - cx) - sn * (y - cy)) for x, y, cx, cy in zip(X, Y, XC, YC)],
                        [cy + (sn * (x - cx) + c * (y - cy)) for x, y, cx, cy in zip(X, Y, XC, YC)])
            for n in ('r1', 'r12', 'rsum', 'back', 'ctr_rot'):
                if is_err(real[n]):
                    rbad('rotate_raised', f'{n}: {real[n]}')
                    return V
            R1 = rot(c1, s1, X, Y)
            def chk(name, got, s_, xs_, ys_):
                n0 = len(V)
                check_pc(name, got, s_, xs_, ys_, tol)
                for v in V[n0:]:
                    v['rank'] = rank
                    v['detail'] += f' [p.shape={s} center.shape={sc}]'
            # the rotation itself (with the cos/sin the code used)
            chk('rotate', real['r1'], S, R1[0], R1[1])
            # composes additively in the angle: twice == by the sum; and both == rotation by the product vector
            R12 = rot(c2, s2, R1[0], R1[1])
            chk('rotate_twice', real['r12'], S, R12[0], R12[1])
            chk('rotate_compose', real['rsum'], S, fr(real['r12']['x']), fr(real['r12']['y']))
            # inverse
            chk('rotate_inverse', real['back'], S, X, Y)
            # fixes the centre
            chk('rotate_fixes_center', real['ctr_rot'], sc, xc, yc)
            # isometry: distances between p and q, and to the centre, are preserved
            for a, b, nm in (('d0', 'd1', 'rotate_not_isometry'), ('dc0', 'dc1', 'rotate_changes_center_distance')):
                if is_err(real[a]) or is_err(real[b]):
                    rbad('rotate_raised', f'{a}/{b}: {real[a]} {real[b]}')
                    continue
                va, vb = fr(real[a][1]), fr(real[b][1])
                sa, sb = real[a][0], real[b][0]
                if py_bshape(sa, sb) != sb:
                    rbad(nm + '_shape', f'{sa} {sb}')
                    continue
                va = py_bvalues(sa, va, sb)
                if any(not (abs(p_ - q_) <= tol) for p_, q_ in zip(va, vb)):
                    rbad(nm, f'{[float(v) for v in va[:4]]} -> {[float(v) for v in vb[:4]]}')
            return V

        if k == 'sky':
            if is_err(real.get('sky')):
                bad('to_sky_raised', real['sky'])
                return V
            st = real['start']
            if real['sky'][0] != st['shape'] or real['sky'][3] != st['scalar']:
                bad('to_sky_shape', f"{real['sky'][0]} scalar={real['sky'][3]} for {st['shape']}")
            else:
                # the sky position itself: wcslib on the FITS-convention pixels, axis order handled explicitly
                _, _, elon, elat = self._sky_eval(case['wcs'], case['mode'], case['origin'], fr(st['x']), fr(st['y']))
                for a, b_, c_, d_ in zip(real['sky'][1], elon, real['sky'][2], elat):
                    dl = abs(float(num(a)) - float(b_)) % 360.0
                    if not (min(dl, 360.0 - dl) <= 1e-9 and abs(float(num(c_)) - float(d_)) <= 1e-9):
                        bad('to_sky_position', f'({float(num(a))}, {float(num(c_))}) deg, expected ({float(b_)}, {float(d_)}) deg for '
                            f'ctype={case["wcs"]["ctype"]} origin={case["origin"]} mode={case["mode"]}')
                        break
            b = real['back']
            if is_err(b):
                bad('from_sky_raised', b)
                return V
            n0 = len(V)
            # independent expectation for from_sky: the positions transformed to the WCS frame by astropy, then wcslib
            par = self._wcs_param(case)
            sh = 1 - case['origin']
            check_pc('from_sky_position', b, st['shape'], [Fraction(v) - sh for v in par[5]], [Fraction(v) - sh for v in par[6]],
                     rt_tol(case['wcs'], case['mode']))
            check_pc('sky_roundtrip', b, st['shape'], fr(st['x']), fr(st['y']), rt_tol(case['wcs'], case['mode'], case.get('sky_frame')))
            for v in V[n0:]:
                v['detail'] += (f" [positions handed over in {case.get('sky_frame')}, WCS {case['wcs']['ctype']} radesys={case['wcs'].get('radesys')} "
                                f"equinox={case['wcs'].get('equinox')} cdelt={float(Fraction(case['wcs']['cdelt'][1])) * 3600:.3g} arcsec/px "
                                f"origin={case['origin']} mode={case['mode']}]")
            return V
        return V

    def finding_match(self, finding, v):
        return False      # no open findings: F201 is fixed, a fixed entry suppresses nothing

    def nontrivial(self, case, real):
        if 'ctor' in real and is_err(real['ctor']):
            return False
        c = case if case['kind'] == 'ctor' else case['p']
        s = py_bshape(c['x']['shape'], c['y']['shape'])
        return s is not None and prod(s) > 0

    def bucket(self, case, real):
        k = case['kind']
        if k == 'iter':
            s_ = py_bshape(case['p']['x']['shape'], case['p']['y']['shape'])
            return f"iter/{'nobroadcast' if s_ is None else ('scalar' if s_ == [] else 'len' + str(min(s_[0], 3)) + '/' + str(len(s_)) + 'd')}"
        if k == 'history':
            ops = [st['op'] for st in case['steps']]
            var = len({(st.get('wcs'), st['origin'], st['mode']) for st in case['steps'] if st['op'] == 'to_sky'})
            return f"history/{'scalar' if not case['p']['x']['shape'] and not case['p']['y']['shape'] else 'array'}/" \
                   f"{'edit' if 'edit' in ops else 'noedit'}/{min(var, 3)}conv"
        def sclass(c):
            s = py_bshape(c['x']['shape'], c['y']['shape'])
            if s is None:
                return 'nobroadcast'
            mixed = c['x']['shape'] != c['y']['shape']
            base = 'scalar' if s == [] else ('empty' if prod(s) == 0 else f'{len(s)}d')
            return base + ('-mixed' if mixed else '')
        if k == 'ctor':
            return f"ctor/{sclass(case)}/{case['x']['dtype']}-{case['y']['dtype']}"
        if k == 'getitem':
            r = real.get('res')
            types = '+'.join(sorted({i['t'] for i in case['key']})) or 'empty'
            return f"getitem/{sclass(case['p'])}/{types}/{'err:' + r['err'] if is_err(r) else 'ok'}"
        if k == 'arith':
            if case['o'] is None:
                return 'arith/non-pixcoord'
            r = real.get('add')
            return f"arith/{sclass(case['p'])}/{sclass(case['o'])}/{'err' if is_err(r) else 'ok'}"
        if k == 'rotate':
            r = real.get('r1')
            return f"rotate/{sclass(case['p'])}/center-{sclass(case['center'])}/{'exact' if 'exact' in case else case['a1']['unit']}/{'err' if is_err(r) else 'ok'}"
        if k == 'sky':
            return f"sky/{sclass(case['p'])}/{case['wcs']['ctype'][0]}/origin{case['origin']}/{case['mode']}"
        return k
