"""
Shared machinery of the checks: Lean build / audit, driver client, canonical
number exchange, evidence writer, known-findings matcher, result protocol.

Nothing here knows about a particular property.
"""
import fcntl
import json
import os
import random
import re
import subprocess
import sys
import time
from fractions import Fraction

VERIF = os.path.dirname(os.path.dirname(os.path.abspath(__file__)))
LEAN_DIR = os.path.join(VERIF, 'lean')
REPO = os.environ.get('REGIONS_SRC', '/repo')
ALLOWED_AXIOMS = {'propext', 'Classical.choice', 'Quot.sound'}
FORBIDDEN = re.compile(r'\b(sorry|admit|native_decide|bv_decide|implemented_by)\b|^\s*axiom\s|unsafe\s|maxHeartbeats\s+0\b')

TRUSTED_BASE = [
    'Lean 4.33.0 kernel + elaborator',
    'Mathlib v4.33.0 as installed (compiled .olean files)',
    'axioms: propext, Classical.choice, Quot.sound only (audited with collectAxioms on every run)',
    'no sorry/admit/native_decide/bv_decide/implemented_by/own axioms (grep + audit on every run)',
    'hand-written Impl model tied to the code by the correspondence run of this check '
    '(real code vs `lake env lean --run Driver/Main.lean` on the same inputs) '
    'and, where listed, by the translators (py2lean, maskglue, compoundglue, rotateglue, convglue, inlineglue, c14_extract, c13_effects, instantiate) + bridge lemmas',
    'Spec layer = my reading of the property text',
]


# ---------------------------------------------------------------- numbers

def frac(x):
    """exact rational string of a python/numpy number."""
    if isinstance(x, Fraction):
        f = x
    elif isinstance(x, int):
        return str(x)
    else:
        f = Fraction(float(x))
    return str(f.numerator) if f.denominator == 1 else f'{f.numerator}/{f.denominator}'


def unfrac(s):
    if isinstance(s, (int, float)):
        return Fraction(s)
    return Fraction(s)


# ---------------------------------------------------------------- lean

class LeanError(Exception):
    pass


def _lock():
    os.makedirs(os.path.join(LEAN_DIR, '.lake'), exist_ok=True)
    f = open(os.path.join(LEAN_DIR, '.lake', 'verif.lock'), 'w')
    fcntl.flock(f, fcntl.LOCK_EX)
    return f


def lake_build(targets, timeout=3000):
    """Build the given lake targets.  Returns (ok, log)."""
    lk = _lock()
    try:
        p = subprocess.run(['lake', 'build'] + list(targets), cwd=LEAN_DIR,
                           capture_output=True, text=True, timeout=timeout)
        return p.returncode == 0, p.stdout + p.stderr
    finally:
        lk.close()


def first_error(log):
    for line in log.splitlines():
        if line.startswith('error:') or ': error:' in line:
            return line.strip()
    return log.strip().splitlines()[-1] if log.strip() else 'unknown'


def audit(namespaces, modules, tag):
    """#print-axioms audit of every theorem in the namespaces.
    Returns dict name -> [axioms]."""
    os.makedirs(os.path.join(LEAN_DIR, '.audit'), exist_ok=True)
    path = os.path.join(LEAN_DIR, '.audit', f'{tag}_{os.getpid()}.lean')
    with open(path, 'w') as f:
        f.write('import RegionsVerif.AuditTool\n')
        for m in modules:
            f.write(f'import {m}\n')
        f.write('#audit_namespaces ' + ' '.join(namespaces) + '\n')
    try:
        p = subprocess.run(['lake', 'env', 'lean', path], cwd=LEAN_DIR,
                           capture_output=True, text=True, timeout=1200)
    finally:
        os.unlink(path)
    if p.returncode != 0:
        raise LeanError('audit failed: ' + p.stdout[-2000:] + p.stderr[-2000:])
    res = {}
    for m in re.finditer(r'AUDIT (\S+) ::([^\n]*)', p.stdout):
        res[m.group(1)] = m.group(2).split()
    return res


def strip_comments(src):
    # remove /- ... -/ (nested not handled beyond one level) and -- comments
    out = []
    i = 0
    depth = 0
    n = len(src)
    while i < n:
        if src.startswith('/-', i):
            depth += 1
            i += 2
        elif depth and src.startswith('-/', i):
            depth -= 1
            i += 2
        elif depth:
            i += 1
        elif src.startswith('--', i):
            while i < n and src[i] != '\n':
                i += 1
        else:
            out.append(src[i])
            i += 1
    return ''.join(out)


def import_closure(modules):
    """project files (RegionsVerif.*, Driver.*) transitively imported by the given modules."""
    seen = {}
    todo = list(modules)
    while todo:
        m = todo.pop()
        if m in seen:
            continue
        p = os.path.join(LEAN_DIR, *m.split('.')) + '.lean'
        if not os.path.exists(p):
            continue
        src = open(p).read()
        seen[m] = (p, src)
        for mm in re.findall(r'^\s*import\s+((?:RegionsVerif|Driver)\.[\w.]+)', src, flags=re.M):
            todo.append(mm)
    return seen


def grep_forbidden(modules=None):
    """scan the .lean files the given modules depend on (comments stripped) for forbidden constructs."""
    hits = []
    if modules is None:
        files = []
        for root, dirs, fns in os.walk(LEAN_DIR):
            dirs[:] = [d for d in dirs if d not in ('.lake', '.audit')]
            files += [os.path.join(root, fn) for fn in fns if fn.endswith('.lean')]
        items = [(p, open(p).read()) for p in files]
    else:
        items = list(import_closure(modules).values())
    for p, raw in sorted(items):
        src = strip_comments(raw)
        for ln, line in enumerate(src.splitlines(), 1):
            if FORBIDDEN.search(line):
                hits.append(f'{os.path.relpath(p, LEAN_DIR)}:{ln}: {line.strip()[:100]}')
    return hits


def run_driver(requests, main='Driver/Main.lean', timeout=3000):
    """Send request dicts to the Lean model driver; returns list of reply dicts."""
    if not requests:
        return []
    inp = '\n'.join(json.dumps(r, separators=(',', ':')) for r in requests) + '\n'
    p = subprocess.run(['lake', 'env', 'lean', '--run', main], cwd=LEAN_DIR,
                       input=inp, capture_output=True, text=True, timeout=timeout)
    if p.returncode != 0:
        raise LeanError('driver failed: ' + p.stderr[-3000:] + p.stdout[-1000:])
    lines = [l for l in p.stdout.split('\n') if l.strip()]
    if len(lines) != len(requests):
        raise LeanError(f'driver returned {len(lines)} lines for {len(requests)} requests')
    return [json.loads(l) for l in lines]


# ---------------------------------------------------------------- findings

def load_findings():
    """known findings: one committed file per property under known_findings/ (read-only at run time)."""
    d = os.path.join(VERIF, 'known_findings')
    out = []
    if os.path.isdir(d):
        for fn in sorted(os.listdir(d)):
            if fn.endswith('.json'):
                out.extend(json.load(open(os.path.join(d, fn)))['findings'])
    return out


# ---------------------------------------------------------------- misc

def seed_from_env():
    try:
        return int(os.environ.get('VERIF_SEED', '0'))
    except ValueError:
        return 0


def subseed(rng):
    return rng.randrange(1 << 62)


def jsonable(x):
    """best-effort conversion for evidence samples."""
    import numpy as np
    if isinstance(x, dict):
        return {str(k): jsonable(v) for k, v in x.items()}
    if isinstance(x, (list, tuple)):
        return [jsonable(v) for v in x]
    if isinstance(x, (np.integer,)):
        return int(x)
    if isinstance(x, (np.floating,)):
        return float(x)
    if isinstance(x, np.ndarray):
        return x.tolist()
    if isinstance(x, Fraction):
        return frac(x)
    if isinstance(x, (str, int, float, bool)) or x is None:
        return x
    return repr(x)
