"""C16 — regions are values: copies are equal and independent, equality sees every field.

A case is a small *program* over named roots (build / copy / deepcopy / eq / in-place mutation /
Regions slicing and list edits).  The real side runs it on real `regions` objects and walks the
resulting object graphs (values + identities); the Lean model (`Impl/Value.lean`) interprets the
same program on its heap model; canonical graphs and per-step answers are compared exactly.
`oracle()` checks the property clauses directly on the real objects.
"""
import copy as _copy
import json
import math
import operator
from fractions import Fraction

import numpy as np

from .common import frac
from .runner import PropertyCheck

RTOL = Fraction(1e-5)       # exact value of the double np.allclose uses
ATOL = Fraction(1e-8)
UNIT_FACTOR = {'deg': Fraction(1), 'arcmin': Fraction(1, 60), 'arcsec': Fraction(1, 3600),
               'rad': Fraction(57.29577951308232), 'mas': Fraction(1, 3600000), 'hourangle': Fraction(15)}
FRAGILE = Fraction(1, 10 ** 9)

PIX = {
    'CirclePixelRegion': [('center', 'pix'), ('radius', 'pos')],
    'EllipsePixelRegion': [('center', 'pix'), ('width', 'pos'), ('height', 'pos'), ('angle', 'ang')],
    'RectanglePixelRegion': [('center', 'pix'), ('width', 'pos'), ('height', 'pos'), ('angle', 'ang')],
    'PolygonPixelRegion': [('vertices', 'pixarr')],
    'RegularPolygonPixelRegion': [('center', 'pix'), ('nvertices', 'nvert'), ('radius', 'pos'), ('angle', 'ang')],
    'CircleAnnulusPixelRegion': [('center', 'pix'), ('inner_radius', 'pos'), ('outer_radius', 'pos')],
    'EllipseAnnulusPixelRegion': [('center', 'pix'), ('inner_width', 'pos'), ('outer_width', 'pos'),
                                  ('inner_height', 'pos'), ('outer_height', 'pos'), ('angle', 'ang')],
    'RectangleAnnulusPixelRegion': [('center', 'pix'), ('inner_width', 'pos'), ('outer_width', 'pos'),
                                    ('inner_height', 'pos'), ('outer_height', 'pos'), ('angle', 'ang')],
    'LinePixelRegion': [('start', 'pix'), ('end', 'pix')],
    'PointPixelRegion': [('center', 'pix')],
    'TextPixelRegion': [('center', 'pix'), ('text', 'str')],
    'CompoundPixelRegion': [('region1', 'pixreg'), ('region2', 'pixreg'), ('operator', 'fn')],
}
SKY = {
    'CircleSkyRegion': [('center', 'sky'), ('radius', 'posang')],
    'EllipseSkyRegion': [('center', 'sky'), ('width', 'posang'), ('height', 'posang'), ('angle', 'ang')],
    'RectangleSkyRegion': [('center', 'sky'), ('width', 'posang'), ('height', 'posang'), ('angle', 'ang')],
    'PolygonSkyRegion': [('vertices', 'skyarr')],
    'CircleAnnulusSkyRegion': [('center', 'sky'), ('inner_radius', 'posang'), ('outer_radius', 'posang')],
    'EllipseAnnulusSkyRegion': [('center', 'sky'), ('inner_width', 'posang'), ('outer_width', 'posang'),
                                ('inner_height', 'posang'), ('outer_height', 'posang'), ('angle', 'ang')],
    'RectangleAnnulusSkyRegion': [('center', 'sky'), ('inner_width', 'posang'), ('outer_width', 'posang'),
                                  ('inner_height', 'posang'), ('outer_height', 'posang'), ('angle', 'ang')],
    'LineSkyRegion': [('start', 'sky'), ('end', 'sky')],
    'PointSkyRegion': [('center', 'sky')],
    'TextSkyRegion': [('center', 'sky'), ('text', 'str')],
    'CompoundSkyRegion': [('region1', 'skyreg'), ('region2', 'skyreg'), ('operator', 'fn')],
}
ALL = dict(PIX, **SKY)
SIBLING = {'EllipsePixelRegion': 'RectanglePixelRegion', 'RectanglePixelRegion': 'EllipsePixelRegion',
           'EllipseSkyRegion': 'RectangleSkyRegion', 'RectangleSkyRegion': 'EllipseSkyRegion',
           'EllipseAnnulusPixelRegion': 'RectangleAnnulusPixelRegion',
           'RectangleAnnulusPixelRegion': 'EllipseAnnulusPixelRegion',
           'EllipseAnnulusSkyRegion': 'RectangleAnnulusSkyRegion',
           'RectangleAnnulusSkyRegion': 'EllipseAnnulusSkyRegion',
           'CompoundPixelRegion': None, 'CompoundSkyRegion': None}
ELIDED_RP = {'_vertices': 'pix', 'vertices': 'pix', 'exterior_angle': 'qty', 'interior_angle': 'qty',
             'inradius': 'atom', 'perimeter': 'atom', 'side_length': 'atom'}
META_KEYS = ['label', 'comment', 'name', 'include', 'tag', 'text', 'source', 'frame']
VIS_KEYS = ['color', 'linewidth', 'fontsize', 'fill', 'symbol', 'marker', 'dashlist', 'fontname']
FRAME_ATTRS = [('fk5', 'equinox', 'J1975'), ('fk5', 'equinox', 'J2015.5'), ('fk4', 'equinox', 'B1900'),
               ('fk4', 'obstime', 'B1960'), ('geocentrictrueecliptic', 'equinox', 'J2010'),
               ('geocentrictrueecliptic', 'obstime', 'J2010'), ('barycentricmeanecliptic', 'equinox', 'J1990'),
               ('heliocentrictrueecliptic', 'obstime', 'J1995')]
EXTRA_ATTRS = [('icrs', 'obstime', 'J2010'), ('galactic', 'obstime', 'J2010'), ('icrs', 'equinox', 'J1975'),
               ('fk5', 'obstime', 'J2010'), ('galactic', 'equinox', 'B1950'), ('icrs', 'obstime', 'B1960')]
CARRIERS = ['pyint', 'pyfloat', 'int64', 'int32', 'uint8', 'float64', 'float32']
QCARRIERS = ['py', 'np64', 'f32', 'arr0', 'int']
DS9_SYMBOLS = ['circle', 'box', 'diamond', 'x', 'cross', 'arrow', 'boxcircle']
WORDS = ['a', 'bb', 'Crab', 'src 1', 'x_y', 'green', 'red', '', 'Zeta', 'tick']


# ------------------------------------------------------------------ numbers in specs

def fl(x):
    """float -> replayable spec (hex)."""
    return float(x).hex()


def unfl(s):
    if isinstance(s, (int,)):
        return s
    return float.fromhex(s)


def numj(x):
    """python/numpy number -> model atom."""
    if isinstance(x, (bool, np.bool_)):
        return {'b': bool(x)}
    if isinstance(x, (int, np.integer)):
        return {'n': str(int(x))}
    x = float(x)
    if math.isnan(x):
        return {'n': 'nan'}
    if math.isinf(x):
        raise ValueError('inf is outside the model')
    return {'n': frac(Fraction(x))}


# ------------------------------------------------------------------ building real objects from specs

def build(spec, world=None):
    import astropy.units as u
    from astropy.coordinates import SkyCoord
    import regions
    from regions import PixCoord, RegionMeta, RegionVisual
    if spec is None:
        return None
    if isinstance(spec, dict) and 'ref' in spec:
        return resolve_real(world, spec['ref'])
    t = spec['t']
    if t == 'num':
        return unfl(spec['v'])
    if t == 'int':
        return int(spec['v'])
    if t == 'np':
        return getattr(np, spec['dtype'])(spec['v'])
    if t == 'str':
        return spec['v']
    if t == 'bool':
        return bool(spec['v'])
    if t == 'fn':
        return getattr(operator, spec['v'])
    if t == 'ds9sym':
        from regions.io.ds9.core import ds9_valid_symbols
        return ds9_valid_symbols[spec['v']]
    if t == 'pix':
        return PixCoord(unfl(spec['x']), unfl(spec['y']))
    if t == 'pixarr':
        return PixCoord(np.array([unfl(v) for v in spec['x']], dtype=float),
                        np.array([unfl(v) for v in spec['y']], dtype=float))
    if t == 'qty':
        car = spec.get('carrier')
        if car == 'np64':
            return np.float64(unfl(spec['v'])) * u.Unit(spec['unit'])
        if car == 'f32':
            return u.Quantity(np.float32(unfl(spec['v'])), u.Unit(spec['unit']), dtype=np.float32)
        if car == 'arr0':
            return u.Quantity(np.array(unfl(spec['v'])), u.Unit(spec['unit']))
        if car == 'int':
            return u.Quantity(int(unfl(spec['v'])), u.Unit(spec['unit']))
        return unfl(spec['v']) * u.Unit(spec['unit'])
    if t == 'sky':
        fattrs = dict(spec.get('fattrs') or {})
        fattrs.update(spec.get('xattrs') or {})       # attributes the frame does not have: kept by the SkyCoord
        frame = spec['frame']
        style = spec.get('fstyle')
        if style in ('cls', 'explicit', 'time'):
            # the same frame written differently: a frame object / its default attributes spelled out
            import astropy.coordinates as coords
            from astropy.time import Time
            fcls = coords.frame_transform_graph.lookup_name(frame)
            inst = fcls(**fattrs)        # defaults may depend on the given attributes (FK4: obstime follows equinox)
            dflt = {k: getattr(inst, k) for k in fcls.frame_attributes if getattr(inst, k) is not None}
            if style == 'cls':
                frame = fcls(**fattrs)
                fattrs = {}
            elif style == 'explicit':
                fattrs = dict(dflt, **fattrs)
            else:
                fattrs = {k: (Time(v) if isinstance(v, (str, Time)) else v) for k, v in dict(dflt, **fattrs).items()}
        if spec['scalar']:
            return SkyCoord(unfl(spec['lon'][0]), unfl(spec['lat'][0]), unit='deg', frame=frame, **fattrs)
        return SkyCoord([unfl(v) for v in spec['lon']], [unfl(v) for v in spec['lat']], unit='deg',
                        frame=frame, **fattrs)
    if t == 'list':
        return [build(v, world) for v in spec['v']]
    if t in ('rmeta', 'rvisual', 'dict'):
        d = {k: build(v, world) for k, v in spec['v']}
        return RegionMeta(d) if t == 'rmeta' else RegionVisual(d) if t == 'rvisual' else d
    if t == 'region':
        cls = getattr(regions, spec['cls'])
        kw = {k: build(v, world) for k, v in spec['params']}
        if spec.get('meta') is not None:
            kw['meta'] = build(spec['meta'], world)
        if spec.get('visual') is not None:
            kw['visual'] = build(spec['visual'], world)
        if spec.get('origin') is not None:
            kw['origin'] = build(spec['origin'], world)      # PolygonPixelRegion(vertices, origin=...)
        return cls(**kw)
    if t == 'regions':
        return regions.Regions([])
    if t == 'parsed':
        return regions.Regions.parse(spec['text'], format='ds9')
    raise ValueError(f'bad spec {spec}')


class Unresolved(Exception):
    pass


def resolve_real(world, ref):
    try:
        return _resolve_real(world, ref)
    except (LookupError, AttributeError, TypeError) as e:
        raise Unresolved(str(e))


def _resolve_real(world, ref):
    from astropy.coordinates import SkyCoord
    o = world[ref['root']]
    for p in ref['path']:
        if p.startswith('#'):
            o = o[int(p[1:])]
        elif isinstance(o, dict):
            o = o[p]
        elif isinstance(o, SkyCoord) and p in ('lon', 'lat'):
            o = getattr(o.data, p)
        else:
            o = getattr(o, p)
    return o


# ------------------------------------------------------------------ walking real objects

def frame_str(sc):
    fr = sc.frame
    return fr.name + '|' + ','.join(f'{k}={getattr(fr, k)}' for k in sorted(fr.frame_attributes))


class Walker:
    """real object graph -> model value JSON; ids are first-visit numbers of `id(obj)`."""

    def __init__(self):
        self.ids = {}
        self.keep = []

    def oid(self, o):
        k = id(o)
        if k not in self.ids:
            self.ids[k] = len(self.ids)
            self.keep.append(o)
        return self.ids[k]

    def node(self, o, kind, fields):
        return {'id': self.oid(o), 'k': kind, 'f': fields}

    def walk(self, o, elide=None):
        import astropy.units as u
        from astropy.coordinates import SkyCoord
        from regions import PixCoord, Region, RegionMeta, RegionVisual, Regions
        if o is None:
            return None
        if isinstance(o, (bool, np.bool_)):
            return {'b': bool(o)}
        if isinstance(o, str):
            return {'s': o}
        if isinstance(o, u.Quantity):
            if elide:
                return self.node(o, 'quantity', [['value', {'e': 0}]])
            if o.shape != ():
                raise ValueError('array Quantity is outside the model')
            un = o.unit.to_string()
            return self.node(o, 'quantity', [['value', numj(o.value)], ['unit', {'s': un}],
                                             ['factor', {'n': frac(UNIT_FACTOR[un])}]])
        if isinstance(o, (int, float, np.integer, np.floating)):
            return {'e': 0} if elide else numj(o)
        if callable(o) and not isinstance(o, Region):
            return {'fn': getattr(o, '__name__', repr(o))}
        if type(o).__module__.startswith('matplotlib') or type(o).__name__ == '_DS9MarkerPath':
            # a matplotlib Path (the DS9 point symbols boxcircle / arrow) has no `__eq__`: it is compared
            # by identity, like a function object.  The DS9 constants are named; any other Path object
            # (e.g. a deep copy of a constant) is a different identity.
            from regions.io.ds9.core import ds9_valid_symbols
            for nm, c in ds9_valid_symbols.items():
                if o is c:
                    return {'fn': 'ds9marker:' + nm}
            self.paths = getattr(self, 'paths', {})
            k = self.paths.setdefault(id(o), len(self.paths))
            self.keep.append(o)
            return {'fn': f'other-path-object-{k}'}
        if isinstance(o, np.ndarray):
            if elide:
                return self.node(o, 'array', [])
            if o.ndim != 1:
                raise ValueError('only 1-D arrays are in the model')
            return self.node(o, 'array', [['', numj(v)] for v in o.tolist()])
        if isinstance(o, PixCoord):
            return self.node(o, 'pixcoord', [['x', self.walk(o.x, elide)], ['y', self.walk(o.y, elide)]])
        if isinstance(o, SkyCoord):
            lon, lat = o.data.lon, o.data.lat
            if lon.unit != u.deg or lat.unit != u.deg:
                raise ValueError('sky coordinates are generated in degrees')
            lo = np.atleast_1d(lon.value).tolist()
            la = np.atleast_1d(lat.value).tolist()
            return self.node(o, 'skycoord', [
                ['frame', {'s': frame_str(o)}],
                ['lon', self.node(lon, 'array', [['', numj(v)] for v in lo])],
                ['lat', self.node(lat, 'array', [['', numj(v)] for v in la])],
                ['scalar', {'b': bool(o.isscalar)}],
                ['extra', {'s': ','.join(f'{k}={getattr(o, k)}' for k in sorted(o._extra_frameattr_names))}]])
        if isinstance(o, dict):
            kind = 'rmeta' if isinstance(o, RegionMeta) else 'rvisual' if isinstance(o, RegionVisual) else 'dict'
            return self.node(o, kind, [[str(k), self.walk(v)] for k, v in o.items()])
        if isinstance(o, (list, tuple)):
            return self.node(o, 'list', [['', self.walk(v)] for v in o])
        if isinstance(o, Regions):
            return self.node(o, 'regions', [['regions', self.walk(o.regions)]])
        if isinstance(o, Region):
            cls = type(o).__name__
            names = list(o._params) + ['meta', 'visual']
            fields = [[p, self.walk(getattr(o, p))] for p in names]
            covered = set(names) | {'_operator'}
            for k in sorted(o.__dict__):
                if k in covered:
                    continue
                el = ELIDED_RP.get(k) if cls == 'RegularPolygonPixelRegion' else None
                fields.append([k, self.walk(o.__dict__[k], elide=el)])
            return self.node(o, 'region:' + cls, fields)
        raise ValueError(f'unmodelled object {type(o).__name__}')


def walk_world(world):
    w = Walker()
    return [[name, w.walk(obj)] for name, obj in world.items()]


def canon(roots):
    """renumber object ids by first visit (values + sharing pattern, no addresses)."""
    m = {}

    def go(v):
        if isinstance(v, dict) and 'id' in v:
            if v['id'] not in m:
                m[v['id']] = len(m)
            fs = v['f']
            if v['k'].startswith('region:'):
                # attributes other than _params/meta/visual have no intrinsic order: sort them by name
                names = [k for k, _ in fs]
                cut = names.index('visual') + 1 if 'visual' in names else len(fs)
                fs = fs[:cut] + sorted(fs[cut:], key=lambda kv: kv[0])
            return {'id': m[v['id']], 'k': v['k'], 'f': [[k, go(x)] for k, x in fs]}
        if isinstance(v, dict) and 'n' in v and v['n'] != 'nan':
            return {'n': frac(Fraction(v['n']))}
        return v
    return [[name, go(v)] for name, v in roots]


def ids_of(v, acc=None):
    acc = set() if acc is None else acc
    if isinstance(v, dict) and 'id' in v:
        acc.add(v['id'])
        for _, x in v['f']:
            ids_of(x, acc)
    return acc


def erase(v, dk=False):
    """content without identities (dk: also forget which dict class holds the entries)."""
    if isinstance(v, dict) and 'id' in v:
        kind = 'dict' if dk and v['k'] in ('rmeta', 'rvisual') else v['k']
        return {'k': kind, 'f': [[k, erase(x, dk)] for k, x in v['f']]}
    return v


# ------------------------------------------------------------------ independent aliasing walk (oracle)

def reach(obj):
    """ids of every mutable container reachable from obj: dicts, lists, ndarrays (incl. the .base
    chain), PixCoord / SkyCoord objects and their frame / representation objects, regions."""
    from astropy.coordinates import BaseCoordinateFrame, BaseRepresentation, SkyCoord
    from regions import PixCoord, Region, Regions
    seen = {}
    stack = [obj]
    while stack:
        o = stack.pop()
        if o is None or isinstance(o, (str, bool, int, float, np.generic)) or callable(o) and not isinstance(o, Region):
            continue
        if id(o) in seen:
            continue
        if isinstance(o, np.ndarray):
            seen[id(o)] = o
            if o.base is not None:
                stack.append(o.base)
            if o.dtype == object:
                stack.extend(o.ravel().tolist())
        elif isinstance(o, dict):
            seen[id(o)] = o
            stack.extend(o.values())
        elif isinstance(o, (list, tuple)):
            if isinstance(o, list):
                seen[id(o)] = o
            stack.extend(o)
        elif isinstance(o, SkyCoord):
            seen[id(o)] = o
            stack.append(o._sky_coord_frame)
        elif isinstance(o, BaseCoordinateFrame):
            seen[id(o)] = o
            stack.append(o._data)            # frame attributes / caches are astropy's own shared state
        elif isinstance(o, BaseRepresentation):
            seen[id(o)] = o
            stack.extend(getattr(o, '_' + c, None) for c in o.components)
            stack.extend(getattr(o, '_differentials', {}).values())
        elif isinstance(o, (PixCoord, Region, Regions)):
            seen[id(o)] = o
            stack.extend(getattr(o, '__dict__', {}).values())
    return seen


# ------------------------------------------------------------------ running a program on real objects

def exc_name(e):
    return type(e).__name__


def run_real(case):
    import astropy.units as u
    from astropy.coordinates import SkyCoord
    from regions import PixCoord, Region, Regions
    world = {}
    out = []
    extra = {}          # oracle material (not compared with the model)
    def lists_state():
        return {name: (id(o), id(o.regions), tuple(id(x) for x in o.regions))
                for name, o in world.items() if isinstance(o, Regions)}

    for si, st in enumerate(case['prog']):
        do = st['do']
        before = lists_state() if case['kind'] in ('regions', 'lists') else None
        try:
            if do == 'new':
                world[st['dst']] = build(st['val'], world)
                out.append('ok')
            elif do == 'copy':
                src = resolve_real(world, st['src'])
                ch = {k: build(v, world) for k, v in st['changes']}
                world[st['dst']] = src.copy(**ch)
                out.append('ok')
            elif do == 'deepcopy':
                world[st['dst']] = _copy.deepcopy(resolve_real(world, st['src']))
                out.append('ok')
            elif do in ('eq', 'ne'):
                a = resolve_real(world, st['a'])
                b = resolve_real(world, st['b'])
                r = (a == b) if do == 'eq' else (a != b)
                if not isinstance(r, (bool, np.bool_)):
                    raise AssertionError(f'== returned {type(r).__name__}')
                out.append(bool(r))
                w = Walker()
                if fragile_pair(w.walk(a), w.walk(b)):
                    extra.setdefault('fragile', []).append(si)
            elif do == 'mut':
                tgt = resolve_real(world, st['at'])
                op = st['op']
                if op == 'set':
                    v = build(st['val'], world)
                    if isinstance(tgt, dict):
                        tgt[st['key']] = v
                    elif isinstance(tgt, u.Quantity):
                        tgt[...] = v * tgt.unit          # in-place write of the scalar value
                    else:
                        setattr(tgt, st['key'], v)
                elif op == 'del':
                    del tgt[st['key']]
                elif op in ('update', 'ior'):
                    kw = {k: build(v, world) for k, v in st.get('items', [])}
                    if 'src' in st:
                        arg = resolve_real(world, st['src'])        # the other side's meta / visual OBJECT
                    elif 'plain' in st:
                        arg = {k: build(v, world) for k, v in st['plain']}
                    else:
                        arg = None
                    arg_before = None if arg is None else (list(arg.keys()), [id(v) for v in arg.values()])
                    try:
                        if op == 'ior':
                            tgt |= arg
                        elif arg is None:
                            tgt.update(**kw)
                        else:
                            tgt.update(arg, **kw)
                    finally:
                        if arg is not None and tgt is not arg and \
                                arg_before != (list(arg.keys()), [id(v) for v in arg.values()]):
                            extra.setdefault('arg_changed', []).append(
                                f'step {si}: {op} changed its ARGUMENT {st.get("src") or "plain dict"}')
                elif op == 'setdefault':
                    tgt.setdefault(st['key'], build(st['val'], world))
                elif op == 'clear':
                    tgt.clear()
                elif op == 'setidx':
                    tgt[st['idx']] = build(st['val'], world)
                elif op == 'setslice':
                    tgt[st['start']:st['start'] + len(st['vals'])] = [build(v, world) for v in st['vals']]
                elif op == 'skyset':
                    tgt[st['idx']] = SkyCoord(unfl(st['lon']), unfl(st['lat']), unit='deg', frame=tgt.frame)
                elif op == 'append':
                    tgt.append(build(st['val'], world))
                elif op == 'extend':
                    tgt.extend([build(v, world) for v in st['vals']])
                elif op == 'extendfrom':
                    tgt.extend(resolve_real(world, st['src']))
                elif op == 'iadd':
                    tgt += resolve_real(world, st['src'])
                elif op == 'setitem':
                    tgt[st['idx']] = build(st['val'], world)
                elif op == 'delitem':
                    del tgt[st['idx']]
                elif op == 'insert':
                    tgt.insert(st['idx'], build(st['val'], world))
                elif op == 'pop':
                    tgt.pop(st['idx'])
                elif op == 'reverse':
                    tgt.reverse()
                else:
                    raise AssertionError(op)
                out.append('ok')
            elif do == 'rebuild':
                src = resolve_real(world, st['src'])
                world[st['dst']] = type(src)(**{p: getattr(src, p) for p in src._params})
                out.append('ok')
            elif do == 'rnew':
                how = st['how']
                items = [build(v, world) for v in st.get('items', [])]
                if how == 'list':
                    world[st['dst']] = Regions(list(items))
                elif how == 'tuple':
                    world[st['dst']] = Regions(tuple(items))
                elif how == 'regions':
                    world[st['dst']] = Regions(resolve_real(world, st['src']))
                elif how == 'emptylist':
                    world[st['dst']] = Regions([])
                elif how == 'emptytuple':
                    world[st['dst']] = Regions(())
                elif how == 'noarg':
                    world[st['dst']] = Regions()
                else:
                    raise AssertionError(how)
                out.append('ok')
            elif do == 'slice':
                src = resolve_real(world, st['src'])
                world[st['dst']] = src[slice(st.get('start'), st.get('stop'), st.get('step'))]
                out.append('ok')
            elif do == 'rcopy':
                world[st['dst']] = resolve_real(world, st['src']).copy()
                out.append('ok')
            elif do == 'item':
                world[st['dst']] = resolve_real(world, st['src'])[st['idx']]
                out.append('ok')
            elif do == 'snap':
                out.append(canon(walk_world(world)))
                if 'tag' in st and case['kind'] == 'indep':
                    # membership answers of every pixel region at a few fixed points
                    from regions import PixelRegion
                    ans = {}
                    for name, o in world.items():
                        if isinstance(o, PixelRegion):
                            try:
                                bb = o.bounding_box
                                cx, cy = (bb.ixmin + bb.ixmax) / 2.0, (bb.iymin + bb.iymax) / 2.0
                                pts = PixCoord([cx, cx + 0.5, bb.ixmin - 3.0, cx], [cy, cy - 0.5, cy, bb.iymax + 3.0])
                                ans[name] = [bool(v) for v in np.atleast_1d(o.contains(pts)).tolist()]
                            except Exception as e:
                                ans[name] = type(e).__name__
                    extra.setdefault('contains', {})[st['tag']] = ans
                if 'tag' in st:
                    extra[st['tag']] = {name: sorted(reach(o)) for name, o in world.items()}
                    b = world.get('b')
                    if st['tag'] == 'after_copy' and type(b).__name__ == 'RegularPolygonPixelRegion':
                        fresh = type(b)(b.center, b.nvertices, b.radius, b.angle)
                        extra['rp_vertices_ok'] = bool(np.array_equal(fresh.vertices.x, b.vertices.x)
                                                       and np.array_equal(fresh.vertices.y, b.vertices.y))
            else:
                raise AssertionError(do)
        except AssertionError:
            raise
        except Unresolved:
            out.append('Unresolved')
        except Exception as e:
            out.append(exc_name(e))
        if before is not None:
            # identity-level independence of every live Regions object, after EVERY step
            after = lists_state()
            touched = st['at']['root'] if do == 'mut' else None
            tid = after[touched][0] if touched in after else None
            for name, (oid, lid, items) in after.items():
                if name in before and before[name][0] == oid and oid != tid and before[name][2] != items:
                    extra.setdefault('leaks', []).append(
                        f'step {si} {do}/{st.get("op", "")} on {touched}: list {name} changed '
                        f'{len(before[name][2])} -> {len(items)} items')
            seen = {}
            for name, (oid, lid, items) in after.items():
                if lid in seen and seen[lid][0] != oid:
                    extra.setdefault('shared', []).append(
                        f'after step {si} {do}/{st.get("op", "")}: {seen[lid][1]}.regions is {name}.regions')
                seen.setdefault(lid, (oid, name))
    return world, out, extra


# ------------------------------------------------------------------ real step -> model steps

def model_val(spec):
    """spec of a fresh value -> model template (local ids from 0)."""
    w = Walker()
    return w.walk(build(spec, {}))


def to_model_steps(st, real_out):
    do = st['do']
    if do in ('new',):
        return [{'do': 'new', 'dst': st['dst'], 'val': model_val(st['val'])}]
    if do == 'copy':
        return [{'do': 'copy', 'src': st['src'], 'dst': st['dst'],
                 'changes': [[k, v if (isinstance(v, dict) and 'ref' in v) else model_val(v)]
                             for k, v in st['changes']]}]
    if do == 'rnew':
        empty = {'do': 'new', 'dst': st['dst'], 'val': model_val({'t': 'regions'})}
        at = {'root': st['dst'], 'path': ['regions']}
        if st['how'] in ('list', 'tuple'):
            return [empty, {'do': 'mut', 'at': at, 'op': 'extend', 'vals': st['items']}]
        if st['how'] == 'regions':
            # Regions(other): a new object around a new list of the same regions
            return [{'do': 'rcopy', 'src': st['src'], 'dst': st['dst']}]
        return [empty]
    if do in ('deepcopy', 'eq', 'ne', 'slice', 'rcopy', 'item', 'snap', 'rebuild'):
        return [{k: v for k, v in st.items() if k != 'tag'}]
    if do == 'mut':
        at = st['at']
        if st.get('api') == 'regions':
            at = {'root': at['root'], 'path': at['path'] + ['regions']}
        op = st['op']
        m = {'do': 'mut', 'at': at, 'op': op}
        if op == 'extendfrom':
            return [dict(m, src=st['src'])]
        if op == 'setslice':
            return [{'do': 'mut', 'at': at, 'op': 'setidx', 'idx': st['start'] + k, 'val': model_val(v)}
                    for k, v in enumerate(st['vals'])]
        if op in ('update', 'ior'):
            m = {'do': 'mut', 'at': at, 'op': 'update',
                 'items': [[k, model_val(v)] for k, v in list(st.get('plain', [])) + list(st.get('items', []))]}
            if 'src' in st:
                m['src'] = st['src']
            return [m]
        if op in ('iadd', 'setitem', 'delitem'):
            # list-protocol operations on the Regions OBJECT itself (not on its list)
            tgt = st['at']
            if op == 'iadd':
                return [{'do': 'mut', 'at': tgt, 'op': 'extend', 'vals': []}]
            if op == 'setitem':
                return [{'do': 'mut', 'at': tgt, 'op': 'setidx', 'idx': abs(st['idx']), 'val': st['val']}]
            return [{'do': 'mut', 'at': tgt, 'op': 'pop', 'idx': st['idx']}]
        if op == 'skyset':
            return [{'do': 'mut', 'at': {'root': at['root'], 'path': at['path'] + ['lon']}, 'op': 'setidx',
                     'idx': st['idx'], 'val': numj(unfl(st['lon']))},
                    {'do': 'mut', 'at': {'root': at['root'], 'path': at['path'] + ['lat']}, 'op': 'setidx',
                     'idx': st['idx'], 'val': numj(unfl(st['lat']))}]
        for k in ('key', 'idx'):
            if k in st:
                m[k] = st[k]
        if 'val' in st:
            v = st['val']
            m['val'] = v if (isinstance(v, dict) and 'ref' in v) else model_val(v)
        if 'vals' in st:
            m['vals'] = [v if (isinstance(v, dict) and 'ref' in v) else model_val(v) for v in st['vals']]
        return [m]
    raise AssertionError(do)


# ------------------------------------------------------------------ fragility of an equality answer

def fragile_pair(va, vb):
    """True when some comparison made by `==` on these two (walked) values has an exact margin
    inside the rounding zone (DESIGN §3), so the code's float answer need not be the exact one."""
    if not (isinstance(va, dict) and isinstance(vb, dict) and 'id' in va and 'id' in vb):
        return False
    ka, kb = va['k'], vb['k']
    fa, fb = dict(va['f']), dict(vb['f'])
    if ka == 'pixcoord' and kb == 'pixcoord':
        for c in ('x', 'y'):
            xa, xb = fa[c], fb[c]
            la = [xa] if 'n' in xa else [e for _, e in xa['f']]
            lb = [xb] if 'n' in xb else [e for _, e in xb['f']]
            if len(la) != len(lb):
                if len(la) == 1:
                    la = la * len(lb)
                elif len(lb) == 1:
                    lb = lb * len(la)
                else:
                    return False
            for a, b in zip(la, lb):
                if a['n'] == 'nan' or b['n'] == 'nan':
                    continue
                a, b = Fraction(a['n']), Fraction(b['n'])
                for (p, q) in ((a, b), (b, a)):
                    tol = ATOL + RTOL * abs(q)
                    if abs(abs(p - q) - tol) <= FRAGILE * tol:
                        return True
        return False
    if ka == 'quantity' and kb == 'quantity':
        if 'e' in fa['value'] or 'e' in fb['value'] or fa['value']['n'] == 'nan' or fb['value']['n'] == 'nan':
            return False
        a = Fraction(fa['value']['n']) * Fraction(fa['factor']['n'])
        b = Fraction(fb['value']['n']) * Fraction(fb['factor']['n'])
        if fa['unit'] == fb['unit']:
            return False
        scale = max(abs(a), abs(b))
        if a == b:
            # exactly equal across units: robust only if both float conversions are exact
            import astropy.units as u
            qa = float(Fraction(fa['value']['n'])) * u.Unit(fa['unit']['s'])
            qb = float(Fraction(fb['value']['n'])) * u.Unit(fb['unit']['s'])
            ok = (Fraction(float(qb.to_value(qa.unit))) == Fraction(fa['value']['n'])
                  and Fraction(float(qa.to_value(qb.unit))) == Fraction(fb['value']['n']))
            return not ok
        return abs(a - b) <= Fraction(1, 10 ** 9) * scale
    if ka.startswith('region:') and kb.startswith('region:'):
        return any(fragile_pair(fa[k], fb[k]) for k in fa if k in fb)
    return False


# ------------------------------------------------------------------ generators

class Gen:
    def __init__(self, rng):
        self.rng = rng

    def coord(self):
        r = self.rng
        k = r.random()
        if k < 0.25:
            return float(r.randint(-50, 200))
        if k < 0.5:
            return r.randint(-4000, 4000) / 8.0
        if k < 0.85:
            return r.uniform(-1000, 1000)
        if k < 0.9:
            return 0.0
        if k < 0.95:
            return r.uniform(-1, 1) * 1e-7
        return r.uniform(-1, 1) * 1e6

    def pos(self):
        r = self.rng
        return r.choice([1.0, 2.5, 3.0, 10.0, r.randint(1, 400) / 8.0, r.uniform(0.01, 500)])

    def angval(self):
        r = self.rng
        return r.choice([0.0, 30.0, 45.0, -15.0, 90.0, r.randint(-720, 720) / 4.0, r.uniform(-360, 360)])

    def unit(self):
        return self.rng.choice(['deg', 'deg', 'arcmin', 'arcsec', 'rad'])

    def word(self):
        return self.rng.choice(WORDS)

    def value(self, kind, depth=0):
        r = self.rng
        if kind == 'pix':
            if r.random() < 0.2:
                return {'t': 'pix', 'x': r.randint(-20, 90), 'y': r.randint(-20, 90)}     # Python ints
            return {'t': 'pix', 'x': fl(self.coord()), 'y': fl(self.coord())}
        if kind == 'pixarr':
            n = r.choice([3, 3, 4, 5, 6])
            return {'t': 'pixarr', 'x': [fl(self.coord()) for _ in range(n)], 'y': [fl(self.coord()) for _ in range(n)]}
        if kind == 'pos':
            return {'t': 'num', 'v': fl(self.pos())} if r.random() < 0.8 else {'t': 'int', 'v': r.randint(1, 40)}
        if kind == 'ang':
            un = self.unit()
            v = self.angval()
            if un == 'rad':
                v = math.radians(v)
            elif un == 'arcmin':
                v = v * 60
            elif un == 'arcsec':
                v = v * 3600
            return {'t': 'qty', 'v': fl(v), 'unit': un}
        if kind == 'posang':
            un = self.unit()
            v = self.pos() / 8
            if un == 'rad':
                v = math.radians(v)
            elif un == 'arcmin':
                v = v * 60
            elif un == 'arcsec':
                v = v * 3600
            return {'t': 'qty', 'v': fl(v), 'unit': un}
        if kind == 'sky':
            return {'t': 'sky', 'frame': r.choice(['icrs', 'icrs', 'fk5', 'galactic']), 'scalar': True,
                    'lon': [fl(r.choice([r.uniform(0, 359.9), r.randint(0, 2870) / 8.0]))],
                    'lat': [fl(r.choice([r.uniform(-89, 89), r.randint(-700, 700) / 8.0]))]}
        if kind == 'skyarr':
            n = r.choice([3, 3, 4, 5])
            return {'t': 'sky', 'frame': r.choice(['icrs', 'icrs', 'fk5', 'galactic']), 'scalar': False,
                    'lon': [fl(r.uniform(0, 359.9)) for _ in range(n)],
                    'lat': [fl(r.uniform(-89, 89)) for _ in range(n)]}
        if kind == 'str':
            return {'t': 'str', 'v': self.word()}
        if kind == 'nvert':
            return {'t': 'int', 'v': r.randint(3, 8)}
        if kind == 'fn':
            return {'t': 'fn', 'v': r.choice(['or_', 'and_', 'xor'])}
        if kind in ('pixreg', 'skyreg'):
            table = PIX if kind == 'pixreg' else SKY
            names = [c for c in table if not c.startswith('Compound')]
            if depth < 2 and r.random() < 0.25:
                names = [c for c in table if c.startswith('Compound')]
            return self.region(r.choice(names), depth + 1)
        raise ValueError(kind)

    def metaval(self, key):
        r = self.rng
        if key in ('include', 'fill'):
            return {'t': 'bool', 'v': r.random() < 0.5}
        if key == 'tag':
            return {'t': 'list', 'v': [{'t': 'str', 'v': self.word()} for _ in range(r.randint(1, 3))]}
        if key == 'dashlist':
            return {'t': 'list', 'v': [{'t': 'int', 'v': r.randint(1, 9)} for _ in range(2)]}
        if key == 'marker':
            return {'t': 'ds9sym', 'v': r.choice(DS9_SYMBOLS)}
        if key in ('linewidth', 'fontsize'):
            return r.choice([{'t': 'int', 'v': r.randint(1, 12)}, {'t': 'num', 'v': fl(r.randint(1, 40) / 4.0)}])
        return {'t': 'str', 'v': self.word()}

    def meta(self, kind):
        r = self.rng
        keys = META_KEYS if kind == 'rmeta' else VIS_KEYS
        n = r.choice([0, 1, 2, 2, 3])
        ks = r.sample(keys, n)
        return {'t': kind, 'v': [[k, self.metaval(k)] for k in ks]}

    def region(self, cls, depth=0):
        params = [[name, self.value(kind, depth)] for name, kind in ALL[cls]]
        # annuli: the constructors require inner < outer
        pd = dict((k, v) for k, v in params)
        for name, v in params:
            if name.startswith('outer_'):
                inner = pd['inner_' + name[6:]]
                if inner['t'] == 'qty':
                    v.clear()
                    v.update({'t': 'qty', 'v': fl(unfl(inner['v']) * self.rng.choice([1.5, 2.0, 3.25])), 'unit': inner['unit']})
                else:
                    v.clear()
                    v.update({'t': 'num', 'v': fl(float(unfl(inner['v'])) * self.rng.choice([1.5, 2.0, 3.25]))})
        spec = {'t': 'region', 'cls': cls, 'params': params}
        if cls == 'PolygonPixelRegion' and self.rng.random() < 0.5:
            # vertices given relative to a non-zero origin (the region stores absolute vertices)
            spec['origin'] = {'t': 'pix', 'x': self.rng.choice([10, -7, 250]), 'y': self.rng.choice([20, -3, 1000])} \
                if self.rng.random() < 0.5 else \
                {'t': 'pix', 'x': fl(self.rng.randint(-4000, 4000) / 8.0), 'y': fl(self.rng.randint(-4000, 4000) / 8.0)}
        if cls.startswith('Compound'):
            # meta/visual default to region1's objects (aliasing inside the compound)
            if self.rng.random() < 0.4 and cls == 'CompoundPixelRegion':
                spec['meta'] = self.meta('rmeta')
                spec['visual'] = self.meta('rvisual')
            return spec
        spec['meta'] = self.meta('rmeta')
        spec['visual'] = self.meta('rvisual')
        return spec

    def fresh_like(self, kind):
        """a fresh value of the same kind for an attribute assignment / a change."""
        return self.value(kind, depth=2)


def kinds_of(cls):
    return dict(ALL[cls])


def get_param(spec, name):
    for k, v in spec['params']:
        if k == name:
            return v
    raise KeyError(name)


def set_param(spec, name, val):
    spec['params'] = [[k, (val if k == name else v)] for k, v in spec['params']]


def targets(spec, path=()):
    """mutable places inside a region built from spec: (path, kind, info)."""
    out = [(list(path), 'region', spec)]
    cls = spec['cls']
    for name, v in spec['params']:
        p = list(path) + [name]
        t = v['t']
        if t == 'pix':
            out.append((p, 'pix', v))
        elif t == 'pixarr':
            out.append((p + ['x'], 'arr', len(v['x'])))
            out.append((p + ['y'], 'arr', len(v['y'])))
        elif t == 'qty':
            out.append((p, 'qty', v))
        elif t == 'sky' and not v['scalar']:
            out.append((p, 'skyarr', len(v['lon'])))
        elif t == 'region':
            out.extend(targets(v, p))
    has_own = spec.get('meta') is not None
    if has_own:
        for which in ('meta', 'visual'):
            d = spec[which]
            out.append((list(path) + [which], d['t'], d))
            for k, v in d['v']:
                if v['t'] == 'list':
                    out.append((list(path) + [which, k], 'list', v))
    return out


# ------------------------------------------------------------------ the check

class Check(PropertyCheck):
    id = 'C16'
    lean_targets = ['RegionsVerif.Props.C16', 'RegionsVerif.Bridge.InlineGlueC16']
    namespaces = ['RegionsVerif.Props.C16', 'RegionsVerif.Bridge.InlineGlueC16']

    def _inline_glue(self):
        # tie T: normal forms of the glue methods (tools/inlineglue.py, group C16)
        import importlib.util, os
        from .common import VERIF
        spec = importlib.util.spec_from_file_location('inlineglue', os.path.join(VERIF, 'tools', 'inlineglue.py'))
        mod = importlib.util.module_from_spec(spec)
        spec.loader.exec_module(mod)
        return mod.main(['C16'])

    def translate(self):
        return self._inline_glue()
    rule = ('all 23 concrete region classes (12 pixel incl. regular polygon / annuli / text / point / line / compound, '
            '11 sky) x random parameters (Python ints, dyadics, reals, zeros, tiny and 1e6 magnitudes; angles in '
            'deg/arcmin/arcsec/rad; icrs/fk5/galactic) x {copy, deepcopy, copy(**changes) with 1-3 named fields, plain-dict '
            'meta, unexpected keyword} x 1-8 in-place mutations of the copy or of the original (attribute assignment, '
            'meta/visual set/del/clear/invalid key/mapped key, nested tag-list edits, coordinate-array element writes incl. '
            'out of range, in-place Quantity writes, SkyCoord item assignment, nested compound operands); SYSTEMATIC '
            'single-field perturbations: every shape parameter x every mode of its kind (relative 1e-7..1e-3; exactly '
            'inside / outside / in the asymmetric part of the allclose band; vertex count +-1 and 1-vs-n broadcast; frame; '
            'unit change with perturbation), every meta / visual key (changed value, removed, added), class swap, unit '
            're-expression, identical rebuild (also with reordered meta keys), NaN parameter; nested-operand perturbations '
            'for compounds; UNIT FAMILY: the same physical angles written in every ordered pair of units from {deg, arcmin, '
            'arcsec, mas, rad, hourangle} as integer multiples 1..5000 exact in both units (one quantity at a time and all '
            'at once; must compare equal both ways, and astropy\'s answer for the bare quantities is recorded to tell its '
            'own rounding from the regions code); Regions lists (0-6 regions) x slices (None / negative / out-of-range / step incl. 0) or copy() x '
            '1-8 append/extend/insert/pop/reverse/item edits on either list; and programs over up to 8 Regions objects '
            'created in every way (Regions(list / tuple / [] / () / no argument / another Regions), Regions.parse, copy(), '
            'whole / partial / EMPTY slices) with 5-18 operations append / extend(list) / extend(Regions, also itself, '
            'also into an empty receiver) / insert / pop / reverse / += / item assignment / item deletion (the last three: '
            'TypeError) / slicing-then-edit, where after EVERY step every other live Regions object must be '
            'identity-for-identity unchanged and no two objects may share their .regions list. Non-trivial = the '
            'program ran to its final snapshot.')
    assumptions = [
        'numpy allclose / broadcasting of a length-1 axis, astropy Quantity unit conversion and SkyCoord comparison '
        '(TypeError for non-equivalent frames, ValueError for shapes that do not broadcast) behave as the formulas in '
        'Impl/Value.lean, evaluated in exact arithmetic; answers whose exact margin is within 1e-9 relative of a '
        'tolerance boundary, and cross-unit equalities whose float conversion is inexact (always the case for rad), '
        'are counted as boundary-excepted in the MODEL comparison (the oracle still requires mathematically equal '
        'unit-family pairs to compare equal: see finding F15u)',
        'copy.deepcopy is an isomorphic copy of the reachable object graph onto fresh objects (sharing inside one '
        'call is preserved by its memo); immutable scalars (float, int, str, bool, None, functions) have no identity',
        'the tolerance of PixCoord equality is numpy\'s allclose rule |a-b| <= atol + rtol*|b| with rtol = 1e-5, '
        'atol = 1e-8 (exact values of those doubles), tested both ways round; "differs" for a pixel position '
        'means outside that band relative to both operands, "same" inside it relative to both (in between the '
        'oracle makes no claim beyond symmetry)',
        'meta / visual values are scalars or flat lists of scalars and contain no NaN',
        'regular-polygon vertices and derived floats are not computed by the model (elided); the oracle checks them '
        'against a fresh construction',
        'descriptor validation (PositiveScalar, annulus order, ...) is C17\'s subject: generated values are valid, '
        'and a value the real constructor refuses makes the case "unconstructible", not a disagreement',
    ]
    validated_only = [
        'which attributes of a real region / PixCoord / SkyCoord / Quantity are mutable objects (the object-graph '
        'walk) is the harness\'s reading; the independent reach() walk over dict / list / ndarray (.base chain) / '
        'PixCoord / SkyCoord / frame / representation / region objects is dynamic validation, not a theorem',
        'SkyCoord is modelled as frame descriptor + longitude / latitude arrays; astropy\'s caches and frame '
        'attribute objects are covered only by the dynamic aliasing walk',
        'float rounding of cross-unit Quantity comparison (eq_unit_insensitive is a theorem of exact arithmetic)',
        'values of RegularPolygonPixelRegion.vertices after copy / copy(radius=...) (trigonometry is not modelled)',
        'that Regions.append/extend/insert/pop/reverse are the list operations of the model, and Python slice '
        'semantics of sliceIdx (both by correspondence on every generated slice)',
        'copy_changes_exact for PolygonPixelRegion with changes (only copy_eq_polygon, i.e. changes = {}, is a theorem)',
    ]
    parallel = True

    # ---------------------------------------------------------------- generation
    def generate(self, rng, tier):
        g = Gen(rng)
        cases = []
        classes = list(ALL)
        n_copy = 12 if tier == 'quick' else 80
        rounds = 2 if tier == 'quick' else 12
        modes = {'pix': ['rel', 'rel', 'inside', 'outside', 'band'],
                 'pixarr': ['rel', 'inside', 'outside', 'band', 'count', 'count'],
                 'sky': ['rel', 'frame'], 'skyarr': ['rel', 'frame', 'count', 'count']}
        for cls in classes:
            for _ in range(n_copy):
                cases.append(self.gen_copy(g, cls))
            for _ in range(rounds):
                # every shape parameter x every perturbation mode of its kind
                for name, kind in ALL[cls]:
                    for m in modes.get(kind, [None, None]):
                        cases.append(self.gen_eq(g, cls, 'param', name, m, descend=False))
                # every meta / visual entry: changed value, removed key, added key
                for which in ('meta', 'visual'):
                    for m in ('value', 'removed', 'added'):
                        cases.append(self.gen_eq(g, cls, which, None, m, descend=False))
                for what in ('class', 'unit', 'unit', 'same', 'same', 'nan', 'refl'):
                    cases.append(self.gen_eq(g, cls, what, descend=False))
                # carrier types of every scalar parameter (Python int / float, numpy integer / float types;
                # Quantity values as Python float, numpy scalar, float32, 0-d array, int)
                for nm_, k_ in ALL[cls]:
                    if k_ in ('pos', 'nvert', 'ang', 'posang'):
                        cs_ = QCARRIERS if k_ in ('ang', 'posang') else CARRIERS
                        pairs_ = [(x, y) for x in cs_[:2] for y in cs_] + [(y, x) for x in cs_[:2] for y in cs_[2:]]
                        pairs_ += [(rng.choice(cs_), rng.choice(cs_)) for _ in range(4)]
                        for (x, y) in pairs_:
                            cases.append(self.gen_eq(g, cls, 'carrier', nm_, ('same', x, y), descend=False))
                        for _ in range(3):
                            cases.append(self.gen_eq(g, cls, 'carrier', nm_,
                                                     ('diff', rng.choice(cs_), rng.choice(cs_)), descend=False))
                # frame attributes of every sky position (equinox, obstime), and equivalent spellings
                for nm_, k_ in ALL[cls]:
                    if k_ in ('sky', 'skyarr'):
                        for fa_ in FRAME_ATTRS:
                            cases.append(self.gen_eq(g, cls, 'frameattr', nm_, ('differ', fa_, None), descend=False))
                        for st_ in ('cls', 'explicit', 'time'):
                            cases.append(self.gen_eq(g, cls, 'frameattr', nm_,
                                                     ('equiv', rng.choice(FRAME_ATTRS), st_), descend=False))
                for nm_, k_ in ALL[cls]:
                    if k_ in ('sky', 'skyarr'):
                        for xa_ in EXTRA_ATTRS:
                            cases.append(self.gen_eq(g, cls, 'xattr', nm_, ('differ', xa_), descend=False))
                        cases.append(self.gen_eq(g, cls, 'xattr', nm_, ('equiv', rng.choice(EXTRA_ATTRS)), descend=False))
                if cls == 'CompoundSkyRegion':
                    for xa_ in EXTRA_ATTRS:
                        cases.append(self.gen_eq(g, cls, 'xattr', None, ('differ', xa_)))
                    cases.append(self.gen_eq(g, cls, 'xattr', None, ('equiv', rng.choice(EXTRA_ATTRS))))
                    for fa_ in FRAME_ATTRS:            # inside an operand, at any depth
                        cases.append(self.gen_eq(g, cls, 'frameattr', None, ('differ', fa_, None)))
                        cases.append(self.gen_eq(g, cls, 'frameattr', None, ('equiv', fa_, rng.choice(['cls', 'explicit', 'time']))))
                # DS9 point symbols (incl. the two matplotlib Path constants) in `visual`
                for sym in DS9_SYMBOLS:
                    cases.append(self.gen_copy(g, cls, marker=sym))
                    cases.append(self.gen_eq(g, cls, 'marker', None, (sym, None), descend=False))
                    cases.append(self.gen_eq(g, cls, 'marker', None,
                                             (sym, rng.choice([x for x in DS9_SYMBOLS if x != sym])), descend=False))
                # unit-variation family: every ordered pair of units x integer multiples, one quantity
                # at a time and all at once
                qfields = [nm for nm, k in ALL[cls] if k in ('ang', 'posang')]
                if qfields:
                    units = ['deg', 'arcmin', 'arcsec', 'mas', 'rad', 'hourangle']
                    for ua in units:
                        for ub in units:
                            if ua != ub:
                                for _ in range(2):
                                    nn = rng.choice([rng.randint(1, 120), rng.randint(1, 120), rng.randint(1, 5000)])
                                    cases.append(self.gen_eq(g, cls, 'unitsweep', rng.choice(qfields + [None]),
                                                             (ua, ub, nn), descend=False))
                if cls in ('PolygonPixelRegion', 'CompoundPixelRegion'):
                    for _ in range(12):
                        cases.append(self.gen_inplace(g, cls))
                if cls.startswith('Compound'):
                    for _ in range(6):
                        cases.append(self.gen_copy(g, cls, plain=True))
                for _ in range(3):
                    cases.append(self.gen_indep(g, cls))
                if cls.startswith('Compound'):
                    # perturbations of a field of a nested operand (any depth)
                    for _ in range(12):
                        cases.append(self.gen_eq(g, cls))
        import regions as _rg
        pairs = [(A, B) for A in ALL for B in ALL
                 if A != B and issubclass(getattr(_rg, B), getattr(_rg, A))]
        for _ in range(8 if tier == 'quick' else 120):
            for (A, B) in pairs:
                for swap in (False, True):
                    cases.append(self.gen_subclass(g, A, B, swap))
        for _ in range(2 if tier == 'quick' else 20):
            for sym in DS9_SYMBOLS:
                cases.append(self.gen_parsed_copy(g, sym))
        for _ in range(150 if tier == 'quick' else 4000):
            cases.append(self.gen_regions(g))
        for _ in range(250 if tier == 'quick' else 6000):
            cases.append(self.gen_lists(g))
        return cases

    # -- copy + mutation programs
    def gen_mut(self, g, root, spec, changed=(), dead=(), other=None):
        r = g.rng
        # `dead`: operand attributes that an earlier step replaced by another region (whose shape the
        # spec no longer describes): nothing below them is targeted any more
        tl = [t for t in targets(spec) if not (t[0] and t[0][0] in changed)
              and not any(t[0][:len(d)] == d and len(t[0]) > len(d) for d in dead)]
        path, kind, info = r.choice(tl)
        at = {'root': root, 'path': path}
        if kind == 'region':
            cls = info['cls']
            name, k = r.choice(ALL[cls])
            if cls == 'RegularPolygonPixelRegion' and name == 'nvertices':
                name, k = 'radius', 'pos'
            if k == 'fn':                       # `operator` is a read-only property
                name, k = ALL[cls][0]
            if name.startswith(('inner_', 'outer_')):
                old = get_param(info, name)
                fac = 0.5 if name.startswith('inner_') else 2.0          # keeps inner < outer at all times
                v = ({'t': 'qty', 'v': fl(unfl(old['v']) * fac), 'unit': old['unit']} if old['t'] == 'qty'
                     else {'t': 'num', 'v': fl(float(unfl(old['v'])) * fac)})
                return {'do': 'mut', 'at': at, 'op': 'set', 'key': name, 'val': v}
            if k in ('pixreg', 'skyreg'):
                return {'do': 'mut', 'at': at, 'op': 'set', 'key': name, 'val': g.value(k, depth=2)}
            if r.random() < 0.25 and not cls.startswith('Compound'):
                which = r.choice(['meta', 'visual'])
                return {'do': 'mut', 'at': at, 'op': 'set', 'key': which,
                        'val': g.meta('rmeta' if which == 'meta' else 'rvisual')}
            return {'do': 'mut', 'at': at, 'op': 'set', 'key': name, 'val': g.fresh_like(k)}
        if kind == 'pix':
            return {'do': 'mut', 'at': at, 'op': 'set', 'key': r.choice(['x', 'y']),
                    'val': {'t': 'num', 'v': fl(g.coord())}}
        if kind == 'arr':
            i = r.randrange(info) if r.random() < 0.9 else info + 2       # out of range -> IndexError
            return {'do': 'mut', 'at': at, 'op': 'setidx', 'idx': i, 'val': {'t': 'num', 'v': fl(g.coord())}}
        if kind == 'qty':
            name = path[-1]
            if name.startswith(('inner_', 'outer_')):
                # in-place writes bypass the validators; keep inner < outer anyway so that later
                # assignments stay valid whether or not the annulus order is validated on assignment
                v = unfl(info['v']) * (0.75 if name.startswith('inner_') else 1.5)
            else:
                v = abs(g.angval()) + 1.0
            return {'do': 'mut', 'at': at, 'op': 'set', 'key': 'value', 'val': {'t': 'num', 'v': fl(v)}}
        if kind == 'skyarr':
            return {'do': 'mut', 'at': at, 'op': 'skyset', 'idx': r.randrange(info),
                    'lon': fl(r.randint(0, 2800) / 8.0), 'lat': fl(r.randint(-700, 700) / 8.0)}
        if kind in ('rmeta', 'rvisual', 'dict'):
            keys = META_KEYS if path[-1] == 'meta' else VIS_KEYS
            have = [k for k, _ in info['v']]
            c = r.random()
            if c < 0.35:
                # update / |= / setdefault, also with the OTHER side's meta / visual object as argument
                kw = [[k, g.metaval(k)] for k in r.sample(keys, r.randint(0, 2))]
                if r.random() < 0.06:
                    kw.append(['bogus', {'t': 'str', 'v': 'x'}])          # rejected as a whole: KeyError
                c2 = r.random()
                if other is not None and c2 < 0.4:
                    return {'do': 'mut', 'at': at, 'op': 'update', 'src': {'root': other, 'path': path}, 'items': kw}
                if other is not None and c2 < 0.55:
                    return {'do': 'mut', 'at': at, 'op': 'ior', 'src': {'root': other, 'path': path}}
                if c2 < 0.7:
                    return {'do': 'mut', 'at': at, 'op': 'update', 'items': kw,
                            'plain': [[k, g.metaval(k)] for k in r.sample(keys, r.randint(0, 2))]}
                if c2 < 0.82:
                    return {'do': 'mut', 'at': at, 'op': 'update', 'items': kw}
                k = r.choice((have or keys) + keys + (['width', 'point'] if path[-1] == 'visual' else []) + ['bogus'])
                kk = {'point': 'symbol', 'width': 'linewidth', 'bogus': 'label'}.get(k, k)
                return {'do': 'mut', 'at': at, 'op': 'setdefault', 'key': k, 'val': g.metaval(kk)}
            if c < 0.6:
                k = r.choice(keys + (['point', 'width'] if kind == 'rvisual' else []))
                kk = {'point': 'symbol', 'width': 'linewidth'}.get(k, k)
                return {'do': 'mut', 'at': at, 'op': 'set', 'key': k, 'val': g.metaval(kk)}
            if c < 0.75:
                k = r.choice(have) if have and r.random() < 0.8 else r.choice(keys)
                return {'do': 'mut', 'at': at, 'op': 'del', 'key': k}
            if c < 0.85:
                return {'do': 'mut', 'at': at, 'op': 'clear'}
            return {'do': 'mut', 'at': at, 'op': 'set', 'key': r.choice(['bogus', 'Label', 'colour']),
                    'val': {'t': 'str', 'v': 'x'}}
        if kind == 'list':
            c = r.random()
            if c < 0.5:
                return {'do': 'mut', 'at': at, 'op': 'append', 'val': {'t': 'str', 'v': g.word()}}
            if c < 0.7:
                return {'do': 'mut', 'at': at, 'op': 'reverse'}
            if c < 0.85:
                return {'do': 'mut', 'at': at, 'op': 'pop', 'idx': r.choice([-1, 0, 7])}
            return {'do': 'mut', 'at': at, 'op': 'setidx', 'idx': 0, 'val': {'t': 'str', 'v': g.word()}}
        raise AssertionError(kind)

    def gen_copy(self, g, cls, marker=None, plain=False):
        r = g.rng
        spec = g.region(cls)
        if plain:
            # compounds keep a plain dict exactly as given: nested lists inside must still be copied
            spec['meta'] = {'t': 'dict', 'v': [['tag', {'t': 'list', 'v': [{'t': 'str', 'v': g.word()} for _ in range(r.randint(1, 3))]}],
                                               ['label', {'t': 'str', 'v': g.word()}]]}
            spec['visual'] = {'t': 'dict', 'v': [['dashlist', {'t': 'list', 'v': [{'t': 'int', 'v': r.randint(1, 9)} for _ in range(2)]}],
                                                 ['color', {'t': 'str', 'v': g.word()}]]}
        if marker is not None:
            tgt = spec
            if spec.get('visual') is None:              # compound with default visual: use region1's
                while tgt.get('visual') is None:
                    tgt = get_param(tgt, 'region1')
            tgt['visual']['v'] = [kv for kv in tgt['visual']['v'] if kv[0] != 'marker'] + \
                [['marker', {'t': 'ds9sym', 'v': marker}]]
        how = r.choice(['copy', 'copy', 'deepcopy', 'changes', 'changes'])
        prog = [{'do': 'new', 'dst': 'a', 'val': spec}]
        changes = []
        if how == 'deepcopy':
            prog.append({'do': 'deepcopy', 'src': {'root': 'a', 'path': []}, 'dst': 'b'})
        else:
            if how == 'changes':
                fields = [n for n, _ in ALL[cls]] + ['meta', 'visual']
                kinds = dict(ALL[cls], meta='rmeta', visual='rvisual')
                for f in r.sample(fields, r.randint(1, min(3, len(fields)))):
                    k = kinds[f]
                    if k in ('rmeta', 'rvisual'):
                        v = g.meta(k)
                        if r.random() < 0.3:
                            v = dict(v, t='dict')            # plain dict: converted by the descriptor
                    elif f.startswith(('inner_', 'outer_')):
                        old = get_param(spec, f)
                        fac = 0.5 if f.startswith('inner_') else 2.0     # keeps inner < outer
                        v = ({'t': 'qty', 'v': fl(unfl(old['v']) * fac), 'unit': old['unit']} if old['t'] == 'qty'
                             else {'t': 'num', 'v': fl(float(unfl(old['v'])) * fac)})
                    else:
                        v = g.fresh_like(k)
                    changes.append([f, v])
                if r.random() < 0.05:
                    changes.append(['bogus', {'t': 'num', 'v': fl(1.0)}])   # malformed: unexpected keyword
            prog.append({'do': 'copy', 'src': {'root': 'a', 'path': []}, 'dst': 'b', 'changes': changes})
        prog += [{'do': 'eq', 'a': {'root': 'a', 'path': []}, 'b': {'root': 'b', 'path': []}},
                 {'do': 'eq', 'a': {'root': 'b', 'path': []}, 'b': {'root': 'a', 'path': []}},
                 {'do': 'ne', 'a': {'root': 'a', 'path': []}, 'b': {'root': 'b', 'path': []}},
                 {'do': 'snap', 'tag': 'after_copy'}]
        bogus = any(k == 'bogus' for k, _ in changes)
        if not bogus:
            # the spec of the copy, for choosing mutation targets
            sb = json.loads(json.dumps(spec))
            changed = []
            for k, v in changes:
                changed.append(k)
            side = r.choice(['b', 'b', 'b', 'a'])
            if plain:
                side = r.choice(['a', 'b'])
                if 'meta' not in changed:
                    prog.append({'do': 'mut', 'at': {'root': side, 'path': ['meta', 'tag']}, 'op': r.choice(['append', 'setidx']),
                                 'idx': 0, 'val': {'t': 'str', 'v': 'nested edit'}})
                if 'visual' not in changed:
                    prog.append({'do': 'mut', 'at': {'root': side, 'path': ['visual', 'dashlist']}, 'op': r.choice(['append', 'setidx']),
                                 'idx': 1, 'val': {'t': 'int', 'v': 77}})
            dead = []
            for _ in range(r.randint(1, 8)):
                m = self.gen_mut(g, side, sb, changed=changed if side == 'b' else (), dead=dead,
                                 other=None if how == 'changes' else ('a' if side == 'b' else 'b'))
                if m.get('op') == 'set' and isinstance(m.get('val'), dict) and m['val'].get('t') == 'region':
                    dead.append(m['at']['path'] + [m['key']])
                if 'src' in m:
                    # the values of the other side's dict are now shared ON PURPOSE: no nested edits below
                    dead.append(m['at']['path'])
                prog.append(m)
            prog.append({'do': 'snap', 'tag': 'after_mut'})
            prog.append({'do': 'eq', 'a': {'root': 'a', 'path': []}, 'b': {'root': 'b', 'path': []}})
        return {'kind': 'copy', 'how': how, 'cls': cls, 'side': None if bogus else side, 'prog': prog,
                'changed': [k for k, _ in changes]}

    # -- equality must follow the CURRENT values after any history of comparisons and in-place writes
    def gen_inplace(self, g, cls):
        r = g.rng
        if cls == 'CompoundPixelRegion':
            spec = g.region(cls)
            which = r.choice(['region1', 'region2'])
            set_param(spec, which, g.region('PolygonPixelRegion'))
            prefix = [which]
            n = len(get_param(get_param(spec, which), 'vertices')['x'])
        else:
            spec = g.region(cls)
            prefix = []
            n = len(get_param(spec, 'vertices')['x'])
        ra, rb = {'root': 'a', 'path': []}, {'root': 'b', 'path': []}
        prog = [{'do': 'new', 'dst': 'a', 'val': spec}]
        if r.random() < 0.5:
            prog.append({'do': 'eq', 'a': ra, 'b': ra})          # an earlier comparison of the original
        prog.append(r.choice([{'do': 'copy', 'src': ra, 'dst': 'b', 'changes': []},
                              {'do': 'deepcopy', 'src': ra, 'dst': 'b'}]))
        expect = {}
        edits = {'a': {}, 'b': {}}

        def compare():
            same = edits['a'] == edits['b']
            for st in ({'do': 'eq', 'a': ra, 'b': rb}, {'do': 'eq', 'a': rb, 'b': ra}, {'do': 'ne', 'a': ra, 'b': rb}):
                expect[len(prog)] = same if st['do'] == 'eq' else (not same)
                prog.append(st)
        compare()
        for _ in range(r.randint(2, 6)):
            side = r.choice(['a', 'b'])
            other = 'b' if side == 'a' else 'a'
            c = r.choice(['x', 'y'])
            at = {'root': side, 'path': prefix + ['vertices', c]}
            if edits[other] != edits[side] and r.random() < 0.4:
                # bring the two sides back together: replay on this side what the other one has
                for (cc, i), v in sorted(edits[other].items()):
                    if edits[side].get((cc, i)) != v:
                        prog.append({'do': 'mut', 'at': {'root': side, 'path': prefix + ['vertices', cc]},
                                     'op': 'setidx', 'idx': i, 'val': {'t': 'num', 'v': fl(v)}})
                        edits[side][(cc, i)] = v
                for key in [k for k in edits[side] if k not in edits[other]]:
                    cc, i = key
                    prog.append({'do': 'mut', 'at': {'root': other, 'path': prefix + ['vertices', cc]},
                                 'op': 'setidx', 'idx': i, 'val': {'t': 'num', 'v': fl(edits[side][key])}})
                    edits[other][key] = edits[side][key]
            elif r.random() < 0.3 and n >= 2:
                i = r.randrange(n - 1)
                vals = [5e7 + r.randint(0, 10 ** 6), 5e7 + r.randint(0, 10 ** 6)]
                prog.append({'do': 'mut', 'at': at, 'op': 'setslice', 'start': i,
                             'vals': [{'t': 'num', 'v': fl(v)} for v in vals]})
                edits[side][(c, i)] = vals[0]
                edits[side][(c, i + 1)] = vals[1]
            else:
                i = r.randrange(n)
                v = 5e7 + r.randint(0, 10 ** 6)        # far from every generated coordinate
                prog.append({'do': 'mut', 'at': at, 'op': 'setidx', 'idx': i, 'val': {'t': 'num', 'v': fl(v)}})
                edits[side][(c, i)] = v
            compare()
        prog.append({'do': 'snap', 'tag': 'end'})
        return {'kind': 'inplace', 'how': 'origin' if (spec.get('origin') or any(
                    isinstance(v, dict) and v.get('origin') for _, v in spec['params'])) else 'plain',
                'cls': cls, 'side': '-', 'prog': prog, 'expect': {str(k): v for k, v in expect.items()}}

    # -- a region against a region of a derived class that agrees on every shared parameter
    def gen_subclass(self, g, base, derived, swap):
        d = g.region(derived)
        names = [n for n, _ in ALL[base]]
        dn = [n for n, _ in ALL[derived]]
        if all(n in dn for n in names):
            params = [[n, json.loads(json.dumps(get_param(d, n)))] for n in names]
        elif base == 'PolygonPixelRegion':
            real = build(d, {})                       # the vertices the derived class computed
            params = [['vertices', {'t': 'pixarr', 'x': [fl(v) for v in real.vertices.x.tolist()],
                                    'y': [fl(v) for v in real.vertices.y.tolist()]}]]
        else:
            raise AssertionError((base, derived))
        b = {'t': 'region', 'cls': base, 'params': params,
             'meta': json.loads(json.dumps(d.get('meta'))), 'visual': json.loads(json.dumps(d.get('visual')))}
        x, y = (b, d) if swap else (d, b)
        ra, rb = {'root': 'a', 'path': []}, {'root': 'b', 'path': []}
        prog = [{'do': 'new', 'dst': 'a', 'val': x}, {'do': 'new', 'dst': 'b', 'val': y},
                {'do': 'eq', 'a': ra, 'b': rb}, {'do': 'eq', 'a': rb, 'b': ra},
                {'do': 'ne', 'a': ra, 'b': rb}, {'do': 'ne', 'a': rb, 'b': ra},
                {'do': 'eq', 'a': ra, 'b': ra}, {'do': 'eq', 'a': rb, 'b': rb}, {'do': 'snap'}]
        return {'kind': 'eq', 'cls': x['cls'], 'prog': prog,
                'info': {'what': 'subclass', 'path': [], 'tcls': y['cls'], 'mode': f'{base}<{derived}'}}

    # -- instances built WITHOUT meta / visual must not share the defaults
    def gen_indep(self, g, cls):
        r = g.rng
        spec = g.region(cls)
        spec['meta'] = None
        spec['visual'] = None
        if cls.startswith('Compound'):
            # the operands' own meta stay; the compound's default meta IS region1.meta (by design)
            pass
        n = r.choice([2, 3])
        names = ['a', 'b', 'c'][:n]
        prog = []
        for i, nm in enumerate(names):
            if i > 0 and r.random() < 0.3 and not cls.startswith('Compound'):
                # reconstruction from the parameters of `a` (the parameter objects are shared on purpose)
                prog.append({'do': 'rebuild', 'src': {'root': 'a', 'path': []}, 'dst': nm})
            else:
                prog.append({'do': 'new', 'dst': nm, 'val': json.loads(json.dumps(spec))})
        ref = lambda nm: {'root': nm, 'path': []}
        prog += [{'do': 'eq', 'a': ref('a'), 'b': ref('b')}, {'do': 'eq', 'a': ref(names[-1]), 'b': ref('b')},
                 {'do': 'snap', 'tag': 'before'}]
        victim = r.choice(names)
        for _ in range(r.randint(1, 5)):
            which = r.choice(['meta', 'visual'])
            at = {'root': victim, 'path': [which]}
            keys = META_KEYS if which == 'meta' else VIS_KEYS
            c = r.random()
            if c < 0.4:
                k = 'include' if which == 'meta' and r.random() < 0.5 else r.choice(keys)
                v = {'t': 'bool', 'v': False} if k == 'include' else g.metaval(k)
                prog.append({'do': 'mut', 'at': at, 'op': 'set', 'key': k, 'val': v})
            elif c < 0.65:
                ks = r.sample(keys, 2)
                prog.append({'do': 'mut', 'at': at, 'op': 'update', 'items': [[k, g.metaval(k)] for k in ks]})
            elif c < 0.85:
                prog.append({'do': 'mut', 'at': at, 'op': 'del', 'key': r.choice(keys)})
            else:
                prog.append({'do': 'mut', 'at': at, 'op': 'clear'})
        others = [nm for nm in names if nm != victim]
        prog += [{'do': 'snap', 'tag': 'after'},
                 {'do': 'eq', 'a': ref(others[0]), 'b': ref(others[-1])}]
        return {'kind': 'indep', 'how': f'{n}', 'cls': cls, 'side': victim, 'prog': prog, 'names': names}

    # -- regions that come out of the DS9 reader, one per point symbol
    def gen_parsed_copy(self, g, sym):
        r = g.rng
        text = f'image\npoint({r.randint(1, 90)},{r.randint(1, 90)}) # point={sym}'
        if r.random() < 0.5:
            text += f' color={r.choice(["red", "green", "blue"])} text={{{r.choice(["a", "src 1"])}}}'
        how = r.choice(['copy', 'copy', 'deepcopy', 'changes'])
        ra, rb = {'root': 'a', 'path': []}, {'root': 'b', 'path': []}
        prog = [{'do': 'new', 'dst': 'P', 'val': {'t': 'parsed', 'text': text}},
                {'do': 'item', 'src': {'root': 'P', 'path': []}, 'idx': 0, 'dst': 'a'}]
        changes = []
        if how == 'deepcopy':
            prog.append({'do': 'deepcopy', 'src': ra, 'dst': 'b'})
        else:
            if how == 'changes':
                changes = [r.choice([['center', g.fresh_like('pix')], ['meta', g.meta('rmeta')]])]
            prog.append({'do': 'copy', 'src': ra, 'dst': 'b', 'changes': changes})
        prog += [{'do': 'eq', 'a': ra, 'b': rb}, {'do': 'eq', 'a': rb, 'b': ra}, {'do': 'ne', 'a': ra, 'b': rb},
                 {'do': 'snap', 'tag': 'after_copy'}]
        vis = {'root': 'b', 'path': ['visual']}
        for _ in range(r.randint(1, 4)):
            c = r.random()
            if c < 0.4:
                prog.append({'do': 'mut', 'at': vis, 'op': 'set', 'key': 'marker',
                             'val': {'t': 'ds9sym', 'v': r.choice(DS9_SYMBOLS)}})
            elif c < 0.6:
                prog.append({'do': 'mut', 'at': vis, 'op': 'del', 'key': 'marker'})
            elif c < 0.8:
                prog.append({'do': 'mut', 'at': vis, 'op': 'set', 'key': 'color', 'val': {'t': 'str', 'v': g.word()}})
            else:
                prog.append({'do': 'mut', 'at': vis, 'op': 'clear'})
        prog += [{'do': 'snap', 'tag': 'after_mut'}, {'do': 'eq', 'a': ra, 'b': rb}]
        return {'kind': 'copy', 'how': how, 'cls': 'PointPixelRegion', 'side': 'b', 'prog': prog,
                'changed': [k for k, _ in changes], 'parsed': sym}

    # -- equality under single-field perturbations
    def perturb_num(self, g, x, mode):
        """-> (new float, info) ; x a float."""
        r = g.rng
        X = Fraction(x)
        if mode == 'rel':
            eps = r.choice([1e-7, 1e-6, 5e-6, 9.9e-6, 1.01e-5, 2e-5, 1e-4, 1e-3])
            s = r.choice([-1, 1])
            y = x * (1 + s * eps) if x != 0 else s * eps
            if y == x:
                y = math.nextafter(x, math.inf)
            return y
        tol = ATOL + RTOL * abs(X)
        if mode == 'inside':
            d = tol * (1 - Fraction(1, 10 ** 4))
        elif mode == 'outside':
            d = (ATOL + RTOL * (abs(X) + tol)) * (1 + Fraction(1, 10 ** 4))
        elif mode == 'band':          # atol + rtol|x| < d <= atol + rtol|y|, y farther from 0 than x
            d = tol * (1 + RTOL / 2)
        else:
            raise AssertionError(mode)
        s = 1 if X >= 0 else -1
        return float(X + s * d)

    def gen_eq(self, g, cls, what=None, field=None, fmode=None, descend=True):
        r = g.rng
        a = g.region(cls)
        b = json.loads(json.dumps(a))
        kinds = dict(ALL[cls])
        options = ['same', 'unit', 'param', 'param', 'param', 'param', 'meta', 'visual', 'class', 'nan', 'refl']
        what = what or r.choice(options)
        info = {'what': what}

        def leaf_region(spec):
            # descend into compound operands at random: perturb a field of a nested region
            path = []
            while descend and spec['cls'].startswith('Compound') and r.random() < 0.7:
                which = r.choice(['region1', 'region2'])
                path.append(which)
                spec = get_param(spec, which)
            return spec, path

        tgt, path = leaf_region(b)
        tcls = tgt['cls']
        tk = dict(ALL[tcls])
        info['path'] = path
        info['tcls'] = tcls
        if what == 'unit':
            qs = [n for n, k in ALL[tcls] if k in ('ang', 'posang')]
            if not qs:
                what = info['what'] = 'same'
            else:
                for n in qs:
                    q = get_param(tgt, n)
                    v = unfl(q['v'])
                    un2 = r.choice([x for x in ['deg', 'arcmin', 'arcsec', 'rad'] if x != q['unit']])
                    exact = Fraction(v) * UNIT_FACTOR[q['unit']] / UNIT_FACTOR[un2]
                    set_param(tgt, n, {'t': 'qty', 'v': fl(float(exact)), 'unit': un2})
        if what == 'frameattr':
            # identical numbers, same frame class; only a frame ATTRIBUTE differs (mode 'differ'), or the
            # same frame is written differently (mode 'equiv')
            mode, (fname, attr, val), style = fmode
            while tgt['cls'].startswith('Compound'):         # down to a leaf operand
                which = r.choice(['region1', 'region2'])
                path.append(which)
                tgt = get_param(tgt, which)
            tcls = info['tcls'] = tgt['cls']
            sks = [nm for nm, k in ALL[tcls] if k in ('sky', 'skyarr')]
            nm = field if field in sks else r.choice(sks)
            ta = a
            for pth in path:
                ta = get_param(ta, pth)
            va = dict(get_param(ta, nm), frame=fname)
            va.pop('fattrs', None)
            va.pop('fstyle', None)
            if fname.endswith('ecliptic'):
                va['lat'] = [fl(max(-80.0, min(80.0, unfl(x)))) for x in va['lat']]
            vb = json.loads(json.dumps(va))
            if mode == 'differ':
                vb['fattrs'] = {attr: val}
                if r.random() < 0.5:
                    va['fattrs'] = {attr: r.choice(['J2000.5', 'B1950.5'])} if attr == 'obstime' else None
                    if va['fattrs'] is None:
                        va.pop('fattrs')
            else:
                if r.random() < 0.5:          # a non-default attribute on both sides, written differently
                    va['fattrs'] = {attr: val}
                    vb['fattrs'] = {attr: val}
                vb['fstyle'] = style
            set_param(ta, nm, va)
            set_param(tgt, nm, vb)
            info.update(mode=mode, field=nm, frame=fname, attr=attr, style=style)
        if what == 'xattr':
            # an EXTRA frame attribute (one the frame class does not have) on one side only, on both
            # sides with different values ('differ'), or the same on both sides ('equiv')
            mode, (fname, attr, val) = fmode
            while tgt['cls'].startswith('Compound'):
                which = r.choice(['region1', 'region2'])
                path.append(which)
                tgt = get_param(tgt, which)
            tcls = info['tcls'] = tgt['cls']
            sks = [nm for nm, k in ALL[tcls] if k in ('sky', 'skyarr')]
            nm = field if field in sks else r.choice(sks)
            ta = a
            for pth in path:
                ta = get_param(ta, pth)
            va = dict(get_param(ta, nm), frame=fname)
            for k_ in ('fattrs', 'fstyle', 'xattrs'):
                va.pop(k_, None)
            vb = json.loads(json.dumps(va))
            if mode == 'equiv':
                va['xattrs'] = {attr: val}
                vb['xattrs'] = {attr: val}
            else:
                vb['xattrs'] = {attr: val}
                c_ = r.random()
                if c_ < 0.3:
                    va['xattrs'] = {attr: 'J2000.5'}
                if c_ > 0.7:
                    va, vb = vb, va
            set_param(ta, nm, va)
            set_param(tgt, nm, vb)
            info.update(mode=mode, field=nm, frame=fname, attr=attr)
        if what == 'carrier':
            # the same NUMBER carried by different Python / numpy types on the two sides
            mode, ca, cb = fmode
            nm = field
            k = tk[nm]
            ta = a
            for pth in path:
                ta = get_param(ta, pth)
            base = 2 if nm.startswith('inner_') else 6 if nm.startswith('outer_') else 5
            vals = (base, base if mode == 'same' else base + 1)

            def carried(c, v):
                if k in ('ang', 'posang'):
                    return {'t': 'qty', 'v': fl(float(v)), 'unit': 'deg', 'carrier': c}
                if c == 'pyint':
                    return {'t': 'int', 'v': v}
                if c == 'pyfloat':
                    return {'t': 'num', 'v': fl(float(v))}
                return {'t': 'np', 'dtype': c, 'v': v}
            set_param(ta, nm, carried(ca, vals[0]))
            set_param(tgt, nm, carried(cb, vals[1]))
            info.update(mode=mode, field=nm, carriers=[ca, cb])
        if what == 'marker':
            sa, sb = fmode
            info.update(mode='same' if sb is None else 'value', key='marker', syms=[sa, sb])

            def setm(spec, sym):
                t2 = spec
                while t2.get('visual') is None:
                    t2 = get_param(t2, 'region1')
                t2['visual']['v'] = [kv for kv in t2['visual']['v'] if kv[0] != 'marker'] + \
                    [['marker', {'t': 'ds9sym', 'v': sym}]]
            setm(a, sa)
            setm(b, sa if sb is None else sb)
        if what == 'unitsweep':
            # the SAME physical angle written in two units (fmode = (unit_a, unit_b, n)): integer
            # multiples, exact in binary floating point in both units (except for rad)
            ua, ub, n = fmode
            qs = [nm for nm, k in ALL[tcls] if k in ('ang', 'posang')]
            if field in qs:
                qs = [field]
            ta = a
            for pth in path:
                ta = get_param(ta, pth)
            info.update(units=[ua, ub], n=n, fields=qs, exact='rad' not in (ua, ub))
            for k_, nm in enumerate(qs):
                m = n + k_                      # a different multiple for each quantity
                if 'rad' in (ua, ub):
                    other = ub if ua == 'rad' else ua
                    vo = float(m)
                    vr = float(Fraction(vo) * UNIT_FACTOR[other] / UNIT_FACTOR['rad'])
                    va, vb = (vr, vo) if ua == 'rad' else (vo, vr)
                else:
                    big, small = (ua, ub) if UNIT_FACTOR[ua] >= UNIT_FACTOR[ub] else (ub, ua)
                    ratio = UNIT_FACTOR[big] / UNIT_FACTOR[small]
                    assert ratio.denominator == 1
                    vbig, vsmall = float(m), float(m * ratio)
                    va, vb = (vbig, vsmall) if ua == big else (vsmall, vbig)
                set_param(ta, nm, {'t': 'qty', 'v': fl(va), 'unit': ua})
                set_param(tgt, nm, {'t': 'qty', 'v': fl(vb), 'unit': ub})
        if what == 'param':
            n, k = (field, tk[field]) if field in tk else r.choice(ALL[tcls])
            info['field'] = n
            info['fkind'] = k
            v = get_param(tgt, n)
            if k == 'pix':
                c = r.choice(['x', 'y'])
                mode = fmode or r.choice(['rel', 'rel', 'inside', 'outside', 'band'])
                x = float(unfl(v[c]))
                y = self.perturb_num(g, x, mode)
                nv = dict(v, **{c: fl(y)})
                if isinstance(v['x' if c == 'y' else 'y'], int):
                    nv['x' if c == 'y' else 'y'] = v['x' if c == 'y' else 'y']
                set_param(tgt, n, nv)
                info.update(mode=mode, a=frac(Fraction(x)), b=frac(Fraction(y)))
            elif k == 'pixarr':
                ta_ = a
                for pth in path:
                    ta_ = get_param(ta_, pth)
                ta_.pop('origin', None)          # the tolerance arithmetic below is on the compared numbers
                tgt.pop('origin', None)
                c = r.choice(['x', 'y'])
                mode = fmode or r.choice(['rel', 'inside', 'outside', 'band', 'count', 'count'])
                if mode == 'count':
                    nv = json.loads(json.dumps(v))
                    if r.random() < 0.3:
                        # a single vertex against several copies of it (numpy broadcasting)
                        nv['x'] = [v['x'][0]]
                        nv['y'] = [v['y'][0]]
                        av = {'t': 'pixarr', 'x': [v['x'][0]] * len(v['x']), 'y': [v['y'][0]] * len(v['y'])}
                        ta, _ = (a, None)
                        for pth in path:
                            ta = get_param(ta, pth)
                        set_param(ta, n, av)
                        info['bcast'] = True
                    elif r.random() < 0.5:
                        nv['x'] = v['x'] + [fl(g.coord())]
                        nv['y'] = v['y'] + [fl(g.coord())]
                    else:
                        nv['x'] = v['x'][:-1]
                        nv['y'] = v['y'][:-1]
                    set_param(tgt, n, nv)
                    info.update(mode='count', na=len(v['x']), nb=len(nv['x']))
                else:
                    i = r.randrange(len(v[c]))
                    x = unfl(v[c][i])
                    y = self.perturb_num(g, x, mode)
                    nv = json.loads(json.dumps(v))
                    nv[c][i] = fl(y)
                    set_param(tgt, n, nv)
                    info.update(mode=mode, a=frac(Fraction(x)), b=frac(Fraction(y)))
            elif k in ('pos', 'nvert'):
                if v['t'] == 'int' and not n.startswith(('inner_', 'outer_')):
                    set_param(tgt, n, {'t': 'int', 'v': v['v'] + 1})
                    info.update(mode='int')
                else:
                    x = float(unfl(v['v']))
                    y = self.perturb_num(g, x, 'rel')
                    set_param(tgt, n, {'t': 'num', 'v': fl(y)})
                    info.update(mode='rel', a=frac(Fraction(x)), b=frac(Fraction(y)))
            elif k in ('ang', 'posang'):
                x = unfl(v['v'])
                y = self.perturb_num(g, x, 'rel')
                un2 = v['unit']
                if r.random() < 0.5:
                    un2 = r.choice(['deg', 'arcmin', 'arcsec', 'rad'])
                    y = float(Fraction(y) * UNIT_FACTOR[v['unit']] / UNIT_FACTOR[un2])
                if k == 'posang' and y <= 0:
                    y = abs(y) + 1.0
                set_param(tgt, n, {'t': 'qty', 'v': fl(y), 'unit': un2})
                info.update(mode='rel')
            elif k in ('sky', 'skyarr'):
                mode = fmode or r.choice(['rel', 'rel', 'frame', 'count' if k == 'skyarr' else 'rel'])
                nv = json.loads(json.dumps(v))
                if mode == 'frame':
                    nv['frame'] = r.choice([f for f in ['icrs', 'fk5', 'galactic'] if f != v['frame']])
                elif mode == 'count':
                    if r.random() < 0.3:
                        nv['lon'] = [v['lon'][0]]
                        nv['lat'] = [v['lat'][0]]
                        ta = a
                        for pth in path:
                            ta = get_param(ta, pth)
                        set_param(ta, n, dict(v, lon=[v['lon'][0]] * len(v['lon']), lat=[v['lat'][0]] * len(v['lat'])))
                        info['bcast'] = True
                    else:
                        nv['lon'] = v['lon'] + [fl(10.0)]
                        nv['lat'] = v['lat'] + [fl(10.0)]
                    info.update(na=len(v['lon']), nb=len(nv['lon']))
                else:
                    c = r.choice(['lon', 'lat'])
                    i = r.randrange(len(v[c]))
                    x = unfl(v[c][i])
                    y = self.perturb_num(g, x, 'rel')
                    if c == 'lat':
                        y = max(-90.0, min(90.0, y))
                    else:
                        y = min(max(y, 0.0), 359.99)
                    if y == x:
                        y = x / 2 + 1.0
                    nv[c][i] = fl(y)
                set_param(tgt, n, nv)
                info.update(mode=mode)
            elif k == 'str':
                set_param(tgt, n, {'t': 'str', 'v': v['v'] + r.choice(['x', ' ', 'A'])})
                info.update(mode='str')
            elif k == 'fn':
                set_param(tgt, n, {'t': 'fn', 'v': r.choice([f for f in ['or_', 'and_', 'xor'] if f != v['v']])})
                info.update(mode='fn')
            elif k in ('pixreg', 'skyreg'):
                # replace the operand by a different fresh region of another class
                nv = g.value(k, depth=2)
                while nv['cls'] == v['cls']:
                    nv = g.value(k, depth=2)
                set_param(tgt, n, nv)
                info.update(mode='operand')
        if what in ('meta', 'visual'):
            if tgt.get(what) is None:
                what = info['what'] = 'same'
            else:
                d = tgt[what]
                keys = META_KEYS if what == 'meta' else VIS_KEYS
                have = [k for k, _ in d['v']]
                c = {'value': 0.0, 'removed': 0.5, 'added': 0.9}.get(fmode, r.random())
                if have and c < 0.45:
                    k = r.choice(have)
                    old = dict((kk, vv) for kk, vv in d['v'])[k]
                    nv = g.metaval(k)
                    tries = 0
                    while build(nv) == build(old) and tries < 20:
                        nv = g.metaval(k)
                        tries += 1
                    if build(nv) == build(old):
                        nv = {'t': 'str', 'v': 'another value'}
                    d['v'] = [[kk, (nv if kk == k else vv)] for kk, vv in d['v']]
                    info.update(mode='value', key=k)
                elif have and c < 0.7:
                    k = r.choice(have)
                    d['v'] = [[kk, vv] for kk, vv in d['v'] if kk != k]
                    info.update(mode='removed', key=k)
                else:
                    k = r.choice([k for k in keys if k not in have])
                    d['v'] = d['v'] + [[k, g.metaval(k)]]
                    info.update(mode='added', key=k)
        if what == 'class':
            sib = SIBLING.get(tcls)
            if sib:
                tgt['cls'] = sib
                info['sib'] = sib
            else:
                what = info['what'] = 'same'
        if what == 'nan':
            n, k = r.choice(ALL[tcls])
            v = get_param(tgt, n)
            nanv = None
            if k == 'pix':
                nanv = dict(v, x=fl(float('nan')))
            elif k == 'pixarr':
                nanv = dict(v, x=[fl(float('nan'))] + v['x'][1:])
            elif k == 'pos' and v['t'] == 'num':
                nanv = {'t': 'num', 'v': fl(float('nan'))}
            elif k == 'ang':
                nanv = dict(v, v=fl(float('nan')))
            if nanv is None:
                what = info['what'] = 'same'
            else:
                set_param(tgt, n, nanv)
                ta = a
                for pth in path:
                    ta = get_param(ta, pth)
                set_param(ta, n, json.loads(json.dumps(nanv)))
                info['field'] = n
        if what == 'same' and r.random() < 0.3 and tgt.get('meta') is not None:
            # same content, different insertion order of the meta keys
            tgt['meta']['v'] = list(reversed(tgt['meta']['v']))
            info['reordered'] = True
        ra, rb = {'root': 'a', 'path': []}, {'root': 'b', 'path': []}
        prog = [{'do': 'new', 'dst': 'a', 'val': a}, {'do': 'new', 'dst': 'b', 'val': b},
                {'do': 'eq', 'a': ra, 'b': rb}, {'do': 'eq', 'a': rb, 'b': ra},
                {'do': 'ne', 'a': ra, 'b': rb}, {'do': 'ne', 'a': rb, 'b': ra},
                {'do': 'eq', 'a': ra, 'b': ra}, {'do': 'eq', 'a': rb, 'b': rb},
                {'do': 'snap'}]
        return {'kind': 'eq', 'cls': cls, 'info': info, 'prog': prog}

    # -- Regions lists
    def gen_regions(self, g):
        r = g.rng
        n = r.randint(0, 6)
        simple = ['CirclePixelRegion', 'PointPixelRegion', 'CircleSkyRegion', 'TextPixelRegion', 'LinePixelRegion']
        prog = []
        pool = []
        for i in range(n + 3):
            prog.append({'do': 'new', 'dst': f'r{i}', 'val': g.region(r.choice(simple))})
            pool.append({'ref': {'root': f'r{i}', 'path': []}})
        S = {'root': 'S', 'path': []}
        prog.append({'do': 'new', 'dst': 'S', 'val': {'t': 'regions'}})
        prog.append({'do': 'mut', 'api': 'regions', 'at': S, 'op': 'extend', 'vals': pool[:n]})
        how = r.choice(['slice', 'slice', 'slice', 'copy'])
        if how == 'copy':
            prog.append({'do': 'rcopy', 'src': S, 'dst': 'T'})
        else:
            def idx():
                return r.choice([None, None, r.randint(-n - 2, n + 2)])
            step = r.choice([None, None, None, 1, 2, -1, -2, 3, 0 if r.random() < 0.2 else -3])
            prog.append({'do': 'slice', 'src': S, 'dst': 'T', 'start': idx(), 'stop': idx(), 'step': step})
            if step == 0:
                prog.append({'do': 'rcopy', 'src': S, 'dst': 'T'})
        prog.append({'do': 'snap', 'tag': 'after_slice'})
        T = {'root': 'T', 'path': []}
        side = r.choice(['T', 'T', 'S', 'both'])
        for _ in range(r.randint(1, 8)):
            at = T if side == 'T' else S if side == 'S' else r.choice([S, T])
            c = r.random()
            if c < 0.25:
                prog.append({'do': 'mut', 'api': 'regions', 'at': at, 'op': 'append', 'val': r.choice(pool)})
            elif c < 0.4:
                prog.append({'do': 'mut', 'api': 'regions', 'at': at, 'op': 'extend',
                             'vals': [r.choice(pool) for _ in range(r.randint(0, 3))]})
            elif c < 0.6:
                prog.append({'do': 'mut', 'api': 'regions', 'at': at, 'op': 'insert',
                             'idx': r.randint(-n - 2, n + 2), 'val': r.choice(pool)})
            elif c < 0.8:
                prog.append({'do': 'mut', 'api': 'regions', 'at': at, 'op': 'pop',
                             'idx': r.choice([-1, -1, 0, r.randint(-n - 2, n + 2)])})
            elif c < 0.93:
                prog.append({'do': 'mut', 'api': 'regions', 'at': at, 'op': 'reverse'})
            else:
                prog.append({'do': 'item', 'src': at, 'idx': r.randint(-n - 1, n + 1), 'dst': 'it'})
        prog.append({'do': 'snap', 'tag': 'after_edit'})
        return {'kind': 'regions', 'how': how, 'side': side, 'n': n, 'prog': prog}

    # -- many Regions objects, created in every way, long edit sequences
    def gen_lists(self, g):
        r = g.rng
        simple = ['CirclePixelRegion', 'PointPixelRegion', 'CircleSkyRegion', 'TextPixelRegion', 'LinePixelRegion']
        prog = []
        pool = []
        for i in range(6):
            prog.append({'do': 'new', 'dst': f'r{i}', 'val': g.region(r.choice(simple))})
            pool.append({'ref': {'root': f'r{i}', 'path': []}})
        live = []          # names of the Regions objects created so far

        def ref(name):
            return {'root': name, 'path': []}

        def fresh():
            return f'L{len(live)}'

        def create(empty=None):
            """one more Regions object; empty=True forces an empty one."""
            name = fresh()
            ways = ['list', 'tuple', 'emptylist', 'emptytuple', 'noarg', 'parsed']
            if live:
                ways += ['regions', 'slice', 'slice', 'emptyslice', 'whole', 'copy']
            if empty:
                ways = ['emptylist', 'emptytuple', 'noarg', 'list0'] + (['emptyslice', 'emptyslice'] if live else [])
            how = r.choice(ways)
            if how in ('list', 'tuple'):
                prog.append({'do': 'rnew', 'dst': name, 'how': how,
                             'items': [r.choice(pool) for _ in range(r.randint(0, 4))]})
            elif how == 'list0':
                prog.append({'do': 'rnew', 'dst': name, 'how': 'list', 'items': []})
            elif how in ('emptylist', 'emptytuple', 'noarg'):
                prog.append({'do': 'rnew', 'dst': name, 'how': how})
            elif how == 'parsed':
                prog.append({'do': 'new', 'dst': name, 'val': {'t': 'parsed', 'text': r.choice([
                    'image\ncircle(1,2,3)\nbox(4,5,6,7,0)', 'image\npoint(1,2)', 'image\n'])}})
            elif how == 'regions':
                prog.append({'do': 'rnew', 'dst': name, 'how': 'regions', 'src': ref(r.choice(live))})
            elif how == 'copy':
                prog.append({'do': 'rcopy', 'src': ref(r.choice(live)), 'dst': name})
            elif how == 'whole':
                prog.append({'do': 'slice', 'src': ref(r.choice(live)), 'dst': name,
                             'start': None, 'stop': None, 'step': r.choice([None, 1])})
            elif how == 'emptyslice':
                k = r.choice([0, 0, 1, 2, 5, -1])
                prog.append({'do': 'slice', 'src': ref(r.choice(live)), 'dst': name,
                             'start': k, 'stop': k, 'step': None})
            else:
                prog.append({'do': 'slice', 'src': ref(r.choice(live)), 'dst': name,
                             'start': r.choice([None, r.randint(-4, 4)]), 'stop': r.choice([None, r.randint(-4, 4)]),
                             'step': r.choice([None, None, 1, 2, -1])})
            live.append(name)
            return name

        def edit(tname):
            at = ref(tname)
            c = r.random()
            mk = lambda **kw: dict({'do': 'mut', 'api': 'regions', 'at': at}, **kw)
            if c < 0.18:
                return mk(op='append', val=r.choice(pool))
            if c < 0.30:
                return mk(op='extend', vals=[r.choice(pool) for _ in range(r.randint(0, 3))])
            if c < 0.50:
                return mk(op='extendfrom', src=ref(r.choice(live)))          # another object, or itself
            if c < 0.64:
                return mk(op='insert', idx=r.randint(-5, 5), val=r.choice(pool))
            if c < 0.78:
                return mk(op='pop', idx=r.choice([-1, -1, 0, r.randint(-5, 5)]))
            if c < 0.88:
                return mk(op='reverse')
            if c < 0.92:
                return mk(op='iadd', src=ref(r.choice(live)))                # unsupported: TypeError
            if c < 0.96:
                return mk(op='setitem', idx=r.randint(-2, 2), val=r.choice(pool))
            return mk(op='delitem', idx=r.randint(-2, 2))

        for _ in range(r.randint(1, 3)):
            create()
        scenario = r.random() < 0.6
        if scenario:
            # an EMPTY receiver extended with a Regions object, then edited
            e = create(empty=True)
            src = r.choice([n for n in live if n != e])
            prog.append({'do': 'mut', 'api': 'regions', 'at': ref(e), 'op': 'extendfrom', 'src': ref(src)})
            for _ in range(r.randint(1, 4)):
                prog.append(edit(e))
        for _ in range(r.randint(4, 14)):
            if r.random() < 0.2 and len(live) < 8:
                create(empty=r.random() < 0.4)
            else:
                prog.append(edit(r.choice(live)))
        prog.append({'do': 'snap', 'tag': 'end'})
        return {'kind': 'lists', 'how': 'scenario' if scenario else 'free', 'side': '-', 'prog': prog}

    # ---------------------------------------------------------------- real
    def real(self, case):
        world, out, extra = run_real(case)
        res = {'out': out, 'roots': canon(walk_world(world))}
        # fragility of each eq/ne answer (exact analysis of the two operands as they are at the end;
        # eq cases never mutate, copy cases use exact copies)
        res['fragile'] = extra.get('fragile', [])
        res['oracle'] = self.observe(case, world, out, extra)
        return res

    def observe(self, case, world, out, extra):
        """first-principles observations on the real objects for oracle()."""
        obs = {}
        if case['kind'] == 'copy' and 'b' in world and 'a' in world:
            a, b = world['a'], world['b']
            snaps = [o for o, st in zip(out, case['prog']) if st['do'] == 'snap']
            obs['shared_after_copy'] = None
            ra = extra.get('after_copy', {}).get('a')
            rb = extra.get('after_copy', {}).get('b')
            if ra is not None and rb is not None:
                obs['shared_after_copy'] = len(set(ra) & set(rb))
                obs['n_reach'] = [len(ra), len(rb)]
            obs['arg_changed'] = extra.get('arg_changed', [])[:5]
            if len(snaps) >= 2:
                s0 = dict(snaps[0])
                s1 = dict(snaps[1])
                obs['a_unchanged'] = erase(s0['a']) == erase(s1['a'])
                obs['b_unchanged'] = erase(s0['b']) == erase(s1['b'])
            if snaps:
                s0 = dict(snaps[0])
                fa, fb = dict(s0['a']['f']), dict(s0['b']['f'])
                names = [k for k, _ in ALL[case['cls']]] + ['meta', 'visual']
                obs['field_same'] = {k: erase(fa[k]) == erase(fb[k]) for k in names}
                if case['how'] == 'changes':
                    given = {}
                    for st in case['prog']:
                        if st['do'] == 'copy':
                            for k, v in st['changes']:
                                w = Walker()
                                want = w.walk(build(v, {}))
                                given[k] = erase(want, True) == erase(fb[k], True) if k in fb else None
                    obs['given_ok'] = given
                if 'rp_vertices_ok' in extra:
                    obs['rp_vertices_ok'] = extra['rp_vertices_ok']
        if case['kind'] == 'eq' and case['info'].get('what') == 'unitsweep' and 'a' in world and 'b' in world:
            # what astropy itself answers for the bare quantities (separates astropy's own rounding
            # from anything the regions code adds)
            qa = [getattr(world['a'], f) for f in case['info']['fields']]
            qb = [getattr(world['b'], f) for f in case['info']['fields']]
            obs['bare_ab'] = all(bool(x == y) for x, y in zip(qa, qb))
            obs['bare_ba'] = all(bool(y == x) for x, y in zip(qa, qb))
        if case['kind'] == 'indep':
            snaps = {st['tag']: o for o, st in zip(out, case['prog']) if st['do'] == 'snap' and isinstance(o, list)}
            obs['contains'] = extra.get('contains', {})
            if 'before' in snaps and 'after' in snaps:
                s0, s1 = dict(snaps['before']), dict(snaps['after'])
                obs['unchanged'] = {nm: erase(s0[nm]) == erase(s1[nm]) for nm in case['names'] if nm in s0 and nm in s1}
                # the meta / visual OBJECTS of different instances must be different objects
                mv = {}
                for nm in case['names']:
                    if nm in s0:
                        f = dict(s0[nm]['f'])
                        mv[nm] = (f['meta']['id'], f['visual']['id'])
                obs['meta_ids'] = mv
        if case['kind'] in ('regions', 'lists'):
            obs['leaks'] = extra.get('leaks', [])[:5]
            obs['shared'] = extra.get('shared', [])[:5]
        return obs

    # ---------------------------------------------------------------- model
    def requests(self, case):
        prog = []
        spans = []
        case.pop('_skip', None)
        for st in case['prog']:
            try:
                ms = to_model_steps(st, None)
            except (ValueError, TypeError) as e:
                # the real constructor refuses this value: nothing for the model to interpret
                case['_skip'] = f'{type(e).__name__}'
                return []
            spans.append((len(prog), len(prog) + len(ms)))
            prog.extend(ms)
        case['_spans'] = spans
        return [{'op': 'c16.run', 'roots': [], 'tol': [frac(RTOL), frac(ATOL)], 'prog': prog}]

    def model(self, case, replies):
        if case.pop('_skip', None):
            return {'skip': True}
        r = replies[0]
        if 'fail' in r:
            return {'fail': r['fail']}
        spans = case.pop('_spans')
        outs = []
        for (a, b) in spans:
            o = r['out'][a:b]
            # several model steps for one real step: first non-ok answer
            v = next((x for x in o if x != 'ok'), o[-1])
            if isinstance(v, list):
                v = canon(v)
            outs.append(v)
        return {'out': outs, 'roots': canon(r['roots'])}

    def equal(self, case, real, model):
        if model.get('skip'):
            return any(isinstance(o, str) and o not in ('ok',) for o in real['out'][:2])
        if 'fail' in model:
            return False
        if len(real['out']) != len(model['out']):
            return False
        for i, (x, y) in enumerate(zip(real['out'], model['out'])):
            if i in real['fragile']:
                continue
            if x != y:
                return False
        return real['roots'] == model['roots']

    # ---------------------------------------------------------------- oracle: the property clauses
    def oracle(self, case, real):
        V = []
        out = real['out']
        prog = case['prog']
        obs = real['oracle']

        def bad(kind, detail, **kw):
            V.append(dict({'kind': kind, 'detail': f'{detail} :: {case["kind"]} {case.get("cls", "")} '
                                                   f'{json.dumps(case.get("info", case.get("how")))}',
                           'cls': case.get('cls')}, **kw))
        eqs = [(i, st, out[i]) for i, st in enumerate(prog) if st['do'] in ('eq', 'ne')]
        if case['kind'] == 'copy':
            ci = next(i for i, st in enumerate(prog) if st['do'] in ('copy', 'deepcopy'))
            if any(isinstance(o, str) and o != 'ok' for o in out[:ci]):
                return V       # construction refused
            if out[ci] != 'ok':
                if 'bogus' in case['changed'] and out[ci] == 'TypeError':
                    return V
                bad('copy_raises', out[ci])
                return V
            a_eq_b, b_eq_a, a_ne_b = out[ci + 1], out[ci + 2], out[ci + 3]
            same_expected = case['how'] != 'changes'
            if isinstance(a_eq_b, bool) and isinstance(b_eq_a, bool) and a_eq_b != b_eq_a and (ci + 1) not in real['fragile']:
                bad('eq_asymmetric', f'a==b {a_eq_b} but b==a {b_eq_a} (copy with changes)')
            if isinstance(a_eq_b, bool) and a_ne_b != (not a_eq_b):
                bad('ne_not_negation', f'a==b {a_eq_b} a!=b {a_ne_b}')
            if same_expected:
                if a_eq_b is not True or b_eq_a is not True or a_ne_b is not False:
                    bad('copy_not_equal', f'a==b {a_eq_b}, b==a {b_eq_a}, a!=b {a_ne_b}',
                        nonempty_meta=self._compound_has_meta(out, prog))
            if obs.get('shared_after_copy'):
                bad('copy_shares_state', f'{obs["shared_after_copy"]} mutable objects reachable from both')
            side = case['side']
            if side == 'b' and obs.get('a_unchanged') is False:
                bad('mutating_copy_changed_original', 'snapshot of the original differs after mutating the copy')
            if side == 'a' and obs.get('b_unchanged') is False:
                bad('mutating_original_changed_copy', 'snapshot of the copy differs after mutating the original')
            fs = obs.get('field_same', {})
            for k, same in fs.items():
                if k in case['changed']:
                    ok = obs.get('given_ok', {}).get(k)
                    if ok is False:
                        bad('copy_field_mismatch', f'field {k} of the copy is not the value passed to copy()', field=k)
                elif not same:
                    bad('copy_field_mismatch', f'field {k} of the copy differs from the original', field=k,
                        nonempty_meta=self._compound_has_meta(out, prog))
            for msg in obs.get('arg_changed', []):
                bad('update_changed_argument', msg)
            if obs.get('rp_vertices_ok') is False:
                bad('regular_polygon_vertices', 'copy.vertices differ from a fresh construction')
        elif case['kind'] == 'eq':
            info = case['info']
            if any(isinstance(o, str) and o != 'ok' for o in out[:2]):
                return V       # construction refused (e.g. NaN size after a validation fix): nothing to compare
            ab, ba, nab, nba, aa, bb = out[2:8]
            frag = bool(real['fragile'])
            what = info['what']
            nanish = what == 'nan'
            for nm, v in (('a==b', ab), ('b==a', ba), ('a!=b', nab), ('b!=a', nba), ('a==a', aa), ('b==b', bb)):
                if isinstance(v, str):
                    bad('eq_raises', f'{nm} raised {v}', exc=v, mode=info.get('mode'), na=info.get('na'), nb=info.get('nb'))
            if any(isinstance(v, str) for v in (ab, ba, nab, nba, aa, bb)):
                return V
            if not nanish:
                if aa is not True or bb is not True:
                    bad('eq_not_reflexive', f'a==a {aa} b==b {bb}')
            else:
                if aa is not True or bb is not True or ab is not True:
                    bad('eq_not_reflexive', f'NaN parameter {info.get("field")}: a==a {aa} b==b {bb} a==b {ab}', nan=True)
                return V
            if nab != (not ab) or nba != (not ba):
                bad('ne_not_negation', f'a==b {ab} a!=b {nab} b==a {ba} b!=a {nba}')
            if what == 'unitsweep':
                if info.get('exact') and (ab is not True or ba is not True):
                    bad('eq_unit_sensitive', f'the same angles in {info["units"][0]} and {info["units"][1]} '
                        f'(multiple {info["n"]}, fields {info["fields"]}): a==b {ab}, b==a {ba}; bare astropy '
                        f'quantities: {obs.get("bare_ab")}, {obs.get("bare_ba")}', units=info['units'], n=info['n'],
                        ab=ab, ba=ba, bare_ab=obs.get('bare_ab'), bare_ba=obs.get('bare_ba'))
                return V
            if ab != ba and not frag:
                bad('eq_asymmetric', f'a==b {ab} but b==a {ba}', a=info.get('a'), b=info.get('b'), mode=info.get('mode'))
                return V
            if frag:
                return V
            expect = None
            if what in ('same', 'unit', 'refl') or (what == 'marker' and info['mode'] == 'same') \
                    or (what in ('frameattr', 'xattr') and info['mode'] == 'equiv') \
                    or (what == 'carrier' and info['mode'] == 'same'):
                expect = True
            elif what in ('frameattr', 'xattr', 'carrier'):
                expect = False
            elif what == 'marker':
                expect = False
            elif what in ('meta', 'visual', 'class', 'subclass'):
                expect = False
            elif what == 'param':
                mode = info.get('mode')
                if mode in ('inside',):
                    expect = True
                elif mode == 'band':
                    expect = None     # asymmetric by construction; reported above
                elif mode == 'rel' and info.get('fkind') in ('pix', 'pixarr'):
                    A, B = Fraction(info['a']), Fraction(info['b'])
                    d = abs(A - B)
                    in_ab = d <= ATOL + RTOL * abs(B)
                    in_ba = d <= ATOL + RTOL * abs(A)
                    expect = True if (in_ab and in_ba) else False if (not in_ab and not in_ba) else None
                else:
                    expect = False
            if expect is True and ab is not True:
                bad('eq_false_on_equal', f'{what}: expected equal, a==b {ab}')
            if expect is False and ab is not False:
                bad('eq_misses_difference', f'{what}/{info.get("mode")}/{info.get("field", info.get("key"))}: '
                    f'expected unequal, a==b {ab}', mode=info.get('mode'), na=info.get('na'), nb=info.get('nb'))
        if case['kind'] == 'inplace':
            for k, want in case['expect'].items():
                got = out[int(k)]
                if got != want:
                    st = prog[int(k)]
                    bad('eq_stale', f'step {k}: {st["do"]} {st["a"]["root"]},{st["b"]["root"]} answered {got}, but the '
                        f'current values of the two regions are {"the same" if want == (st["do"] == "eq") else "different"} '
                        f'(after in-place writes into the vertex arrays)')
        if case['kind'] == 'indep':
            victim = case['side']
            for nm, same in obs.get('unchanged', {}).items():
                if nm != victim and not same:
                    bad('default_state_shared', f'editing {victim}.meta/.visual changed the independently built {nm}')
            mv = obs.get('meta_ids', {})
            if not case['cls'].startswith('Compound'):
                for x in mv:
                    for y in mv:
                        if x < y and (mv[x][0] == mv[y][0] or mv[x][1] == mv[y][1]):
                            bad('default_state_shared', f'{x}.meta is {y}.meta (or visual): instances share a default object')
            cb, ca = obs.get('contains', {}).get('before', {}), obs.get('contains', {}).get('after', {})
            for nm in cb:
                if nm != victim and nm in ca and cb[nm] != ca[nm]:
                    bad('default_state_shared', f'contains() of {nm} changed {cb[nm]} -> {ca[nm]} after editing {victim}')
            e0 = out[len(case['names']) + 1]            # names[-1] == b before the edits
            if case['side'] not in (case['names'][-1], 'b') and isinstance(out[-1], bool) and e0 is True and out[-1] is not True:
                bad('default_state_shared', 'two untouched instances stopped being equal')
        if case['kind'] in ('regions', 'lists'):
            for msg in obs.get('leaks', []):
                bad('list_edit_leaked', 'an edit of one Regions object changed another: ' + msg)
            for msg in obs.get('shared', []):
                bad('list_shared', 'two Regions objects share their underlying list: ' + msg)
        if case['kind'] == 'regions':
            snaps = [(st.get('tag'), o) for o, st in zip(out, prog) if st['do'] == 'snap']
            if len(snaps) == 2 and isinstance(snaps[0][1], list) and isinstance(snaps[1][1], list):
                s0, s1 = dict(snaps[0][1]), dict(snaps[1][1])
                if 'T' in s0:
                    # region identities in the lists: the canonical ids are stable because the pool roots
                    # r0.. are walked first in both snapshots
                    def items(s, name):
                        return [e['id'] for _, e in dict(s[name]['f'])['regions']['f']]
                    if case['side'] == 'T' and items(s0, 'S') != items(s1, 'S'):
                        bad('list_edit_leaked', f'editing the slice/copy changed the source list '
                            f'{items(s0, "S")} -> {items(s1, "S")}')
                    if case['side'] == 'S' and items(s0, 'T') != items(s1, 'T'):
                        bad('list_edit_leaked', f'editing the source changed the slice/copy '
                            f'{items(s0, "T")} -> {items(s1, "T")}')
                    sl = next((st for st in prog if st['do'] == 'slice'), None)
                    if sl is not None and sl.get('step') != 0:
                        want = items(s0, 'S')[slice(sl.get('start'), sl.get('stop'), sl.get('step'))]
                        if items(s0, 'T') != want:
                            bad('slice_content', f'S[{sl.get("start")}:{sl.get("stop")}:{sl.get("step")}] holds '
                                f'{items(s0, "T")}, expected {want}')
                    elif items(s0, 'T') != items(s0, 'S'):
                        bad('slice_content', f'copy holds {items(s0, "T")}, source {items(s0, "S")}')
                    ls = dict(s0['S']['f'])['regions']['id']
                    lt = dict(s0['T']['f'])['regions']['id']
                    if ls == lt or s0['S']['id'] == s0['T']['id']:
                        bad('list_shared', 'slice/copy shares the list object with its source')
        return V

    @staticmethod
    def _compound_has_meta(out, prog):
        for o, st in zip(out, prog):
            if st['do'] == 'snap' and isinstance(o, list):
                a = dict(o).get('a')
                if a and a['k'] == 'region:CompoundSkyRegion':
                    f = dict(a['f'])
                    return bool(f['meta']['f']) or bool(f['visual']['f'])
        return False

    # ---------------------------------------------------------------- findings
    def finding_match(self, finding, v):
        kind = v.get('kind')
        fid = finding.get('id')
        if fid == 'F15':
            if kind != 'eq_asymmetric' or v.get('a') is None:
                return False
            A, B = Fraction(v['a']), Fraction(v['b'])
            d = abs(A - B)
            lo, hi = sorted([ATOL + RTOL * abs(A), ATOL + RTOL * abs(B)])
            return lo < d <= hi
        if fid == 'F22':
            return (kind == 'eq_raises' and v.get('exc') == 'ValueError' and v.get('mode') == 'count'
                    and v.get('na') != v.get('nb'))
        if fid == 'F22b':
            return (kind == 'eq_misses_difference' and v.get('mode') == 'count'
                    and v.get('na') != v.get('nb') and 1 in (v.get('na'), v.get('nb')))
        if fid == 'F2c':
            return (kind in ('copy_not_equal', 'copy_field_mismatch') and v.get('cls') == 'CompoundSkyRegion'
                    and (v.get('nonempty_meta') or v.get('field') in ('meta', 'visual')))
        if fid == 'F15u':
            # only when astropy's own Quantity comparison of the bare values already gives that answer
            return (kind == 'eq_unit_sensitive' and v.get('bare_ab') is not None
                    and v.get('ab') == v.get('bare_ab') and v.get('ba') == v.get('bare_ba')
                    and not (v.get('bare_ab') and v.get('bare_ba')))
        if fid == 'F11c':
            return kind == 'eq_not_reflexive' and v.get('nan') is True
        return False

    def nontrivial(self, case, real):
        return isinstance(real['out'][-1], (list, bool)) or real['out'][-1] == 'ok'

    def bucket(self, case, real):
        if case['kind'] == 'eq' and case['info'].get('what') == 'unitsweep':
            return 'eq/unitsweep/' + '-'.join(case['info']['units'])
        if case['kind'] == 'copy':
            return f"copy/{case['how']}/{case['cls']}"
        if case['kind'] == 'eq':
            i = case['info']
            return f"eq/{i['what']}/{i.get('mode', '-')}/{'sky' if case['cls'].endswith('SkyRegion') else 'pix'}"
        return f"{case['kind']}/{case['how']}/{case['side']}"

    # ---------------------------------------------------------------- whole-run checks
    def extra_checks(self, rng, tier):
        """the class table of Impl/Value.lean against the live package (`_params`, base classes)."""
        import re
        import regions
        from .common import LEAN_DIR
        import os
        src = open(os.path.join(LEAN_DIR, 'RegionsVerif', 'Impl', 'Value.lean')).read()
        viol = []
        rows = re.findall(r'⟨"(\w+)",\s*\[([^\]]*)\],\s*\[([^\]]*)\],\s*\.(\w+),\s*\.(\w+)⟩', src)
        table = {n: ([s.strip().strip('"') for s in p.split(',') if s.strip()],
                     [s.strip().strip('"') for s in b.split(',') if s.strip()]) for n, p, b, _, _ in rows}
        concrete = [n for n in dir(regions) if n.endswith('Region') and hasattr(getattr(regions, n), '_params')
                    and getattr(regions, n)._params and not n.startswith(('Asymmetric', 'Annulus'))]
        n = 0
        for name in concrete:
            cls = getattr(regions, name)
            n += 1
            if name not in table:
                viol.append({'kind': 'class_table', 'detail': f'{name} missing from the model class table'})
                continue
            if list(cls._params) != table[name][0]:
                viol.append({'kind': 'class_table', 'detail': f'{name}._params {cls._params} != model {table[name][0]}'})
            bases = sorted(b.__name__ for b in cls.__mro__[1:] if b.__name__ in table)
            if bases != sorted(table[name][1]):
                viol.append({'kind': 'class_table', 'detail': f'{name} bases {bases} != model {table[name][1]}'})
        from regions import RegionMeta, RegionVisual
        mk = re.search(r'def metaValidKeys[^\[]*\[([^\]]*)\]', src).group(1)
        vk = re.search(r'def visualValidKeys[^\[]*\[([^\]]*)\]', src).group(1)
        if [s.strip().strip('"') for s in mk.split(',')] != list(RegionMeta.valid_keys):
            viol.append({'kind': 'class_table', 'detail': 'RegionMeta.valid_keys differ from the model'})
        if [s.strip().strip('"') for s in vk.split(',')] != list(RegionVisual.valid_keys):
            viol.append({'kind': 'class_table', 'detail': 'RegionVisual.valid_keys differ from the model'})
        if RegionVisual.key_mapping != {'point': 'symbol', 'width': 'linewidth'} or RegionMeta.key_mapping != {}:
            viol.append({'kind': 'class_table', 'detail': 'key_mapping differs from the model'})
        return n + 3, viol, {'class_table_rows': len(table)}
