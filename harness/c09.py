"""C09 — DS9 serialise -> parse round trip, fixed point, determinism, skip independence.

Model: lean/RegionsVerif/Impl/{Decimal,Ds9,Ds9Text}.lean (driver ops ds9.serialize / ds9.parse).
Per case (a list of 1..8 region specs + a precision):

  real:   t1 = Regions(rs).serialize('ds9', precision=p); r1 = Regions.parse(t1);
          t2 = r1.serialize(...); r2 = Regions.parse(t2); t0 = serialize without the inexpressible regions
  model:  serialize(canon(rs)) -> text, exact parameter values;  parse(t1), serialize(canon(r1)), parse(t2)
  equal:  model text vs real text line by line (strings; numbers astropy formats by value),
          model parse vs real parse structurally, both stages
  oracle: the property on the real results only (Fractions; independent of the model)
"""
import json
import math
import os
import random
import re
import subprocess
import sys
import warnings
from fractions import Fraction

from .common import VERIF, frac
from .runner import PropertyCheck

PIX_SHAPES = ['circle', 'ellipse', 'rectangle', 'polygon', 'regularpolygon', 'circleannulus',
              'ellipseannulus', 'rectangleannulus', 'line', 'point', 'text']
SKY_SHAPES = [s for s in PIX_SHAPES if s != 'regularpolygon']
FRAMES = ['image', 'icrs', 'fk5', 'fk4', 'galactic', 'ecliptic']
BAD_FRAMES = ['supergalactic', 'geocentrictrueecliptic', 'heliocentrictrueecliptic', 'cirs']
ASTROPY_FRAME = {'ecliptic': 'barycentricmeanecliptic'}
DS9_FRAME_WORD = {'image': 'image', 'icrs': 'icrs', 'fk5': 'j2000', 'fk4': 'b1950', 'galactic': 'galactic',
                  'ecliptic': 'ecliptic'}
UNITS = ['deg', 'deg', 'arcmin', 'arcsec', 'rad']

TEXTS = ['M31', 'a b', 'semi;colon', 'hash # tag', 'k=v', 'x = y ; z # w', 'a{b', "it's", 'say "hi"', ' padded ',
         'text={nested', 'circle(1,2,3)', 'global color=red', 'UPPER lower', 'tag={t}'.replace('}', ''), 'e', 'α β',
         'fk5; circle', '-', '#', ';', '=', '1 2', 'v1.0', '']
NUMERIC_TEXTS = ['42', '007', '1e3', '-2.50', 'nan', 'inf', '1_0', ' 12 ', '0', '1', '.5', 'Infinity']
# characters that Python's str.splitlines() (but not split('\n')) treats as line ends, plus the other
# Unicode white space: legal inside text={...} / tag={...}; a DS9 region occupies one '\n'-terminated line
SEP_CHARS = ['\r', '\x0b', '\x0c', '\x1c', '\x1d', '\x1e', '\x1f', '\x85', '\u2028', '\u2029', '\t', '\xa0']
SEP_TEXTS = [f(c) for c in SEP_CHARS for f in (
    lambda c: c + 'ab', lambda c: 'a' + c + 'b', lambda c: 'ab' + c, lambda c: c, lambda c: c + c + 'x' + c,
    lambda c: 'p;' + c + '# q=' + c + 'r')] + ['\r\x0b\x0c', 'a\u2028b\u2029c\x85', '\x1c\x1d\x1e\x1f']
TAGS = ['t1', 'group 2', 'a=b', 'x#y', 'Tag', 'sources', '1', '2.5', 'it\'s', 'q"r']
COLORS = ['red', 'green', 'blue', 'cyan', 'magenta', 'yellow', 'white', 'black', '#ff0000', '#00FF7f', '#abc', 'Orange']
FONTNAMES = ['helvetica', 'times', 'courier']
FONTWEIGHTS = ['normal', 'bold']
FONTSTYLES = ['normal', 'roman', 'italic']
MARKERS = ['o', 's', 'D', 'x', '+', '@arrow', '@boxcircle', '^']
BINARY_META = ['select', 'highlite', 'fixed', 'edit', 'move', 'rotate', 'delete', 'source', 'background']


# ---------------------------------------------------------------------------- python values <-> JSON PyVal

def _markers():
    from regions.io.ds9.core import ds9_valid_symbols
    return {'arrow': ds9_valid_symbols['arrow'], 'boxcircle': ds9_valid_symbols['boxcircle']}


def to_py(v):
    """JSON PyVal -> python object (as a user would put it into meta/visual)."""
    (k, x), = v.items()
    if k == 'int':
        return int(x)
    if k == 'bool':
        return bool(x)
    if k == 'flt':
        return float(Fraction(x[0]))
    if k == 'special':
        return float(x)
    if k == 'str':
        return x
    if k == 'strs':
        return list(x)
    if k == 'dashes':
        return (int(x[0]), tuple(int(i) for i in x[1]))
    if k == 'marker':
        return _markers()[x]
    raise ValueError(v)


def pyval(v):
    """python object -> JSON PyVal (canonical form sent to / compared with the model)."""
    import numpy as np
    if isinstance(v, (bool, np.bool_)):
        return {'bool': bool(v)}
    if isinstance(v, (int, np.integer)):
        return {'int': str(int(v))}
    if isinstance(v, (float, np.floating)):
        v = float(v)
        if math.isnan(v) or math.isinf(v):
            return {'special': repr(v)}
        return {'flt': [frac(Fraction(v)), repr(v)]}
    if isinstance(v, str):
        return {'str': v}
    if isinstance(v, list) and all(isinstance(i, str) for i in v):
        return {'strs': list(v)}
    if isinstance(v, tuple) and len(v) == 2 and isinstance(v[1], tuple):
        return {'dashes': [str(int(v[0])), [str(int(i)) for i in v[1]]]}
    for name, obj in _markers().items():
        if v is obj:
            return {'marker': name}
    return {'str': '<' + type(v).__name__ + ':' + repr(v)[:40] + '>'}


# ---------------------------------------------------------------------------- specs -> real regions

def _q(s):
    return float(Fraction(s))


def build(spec):
    """region spec (JSON) -> real region object."""
    import astropy.units as u
    from astropy.coordinates import SkyCoord
    import regions as R
    cls = spec['cls']
    if cls == 'compound':
        a, b = build(spec['a']), build(spec['b'])
        op = spec['op']
        return (a & b) if op == 'and' else (a | b) if op == 'or' else (a ^ b)
    meta = R.RegionMeta({k: to_py(v) for k, v in spec['meta']})
    visual = R.RegionVisual({k: to_py(v) for k, v in spec['visual']})
    frame = spec['frame']
    pix = frame == 'image'
    if pix:
        # the Python / NumPy type the user gives pixel numbers in (the model sees only the exact value)
        K = num_kind(spec.get('numkind', 'float'))
        KS = num_kind('float' if spec.get('numkind') == 'arr0' else spec.get('numkind', 'float'))

        def co(c):
            return R.PixCoord(K(_q(c[0])), K(_q(c[1])))

        def cos(cs):
            return R.PixCoord([K(_q(c[0])) for c in cs], [K(_q(c[1])) for c in cs])

        def sz(i):
            return KS(_q(spec['nums'][i]))
    else:
        fr = frame_instance(frame, spec.get('attrs'))

        def co(c):
            return SkyCoord(_q(c[0]), _q(c[1]), unit='deg', frame=fr)

        def cos(cs):
            return SkyCoord([_q(c[0]) for c in cs], [_q(c[1]) for c in cs], unit='deg', frame=fr)

        def sz(i):
            return u.Quantity(_q(spec['nums'][i]), spec['units'][i])

    def ang(i):
        import astropy.coordinates as ac
        q = u.Quantity(_q(spec['nums'][i]), spec['units'][i])
        return ac.Angle(q) if spec.get('angle_cls') == 'Angle' else q
    S = 'PixelRegion' if pix else 'SkyRegion'
    c = spec['coords']
    kw = dict(meta=meta, visual=visual)
    if cls == 'circle':
        return getattr(R, 'Circle' + S)(co(c[0]), sz(0), **kw)
    if cls == 'ellipse':
        return getattr(R, 'Ellipse' + S)(co(c[0]), sz(0), sz(1), angle=ang(2), **kw)
    if cls == 'rectangle':
        return getattr(R, 'Rectangle' + S)(co(c[0]), sz(0), sz(1), angle=ang(2), **kw)
    if cls == 'polygon':
        return getattr(R, 'Polygon' + S)(cos(c), **kw)
    if cls == 'regularpolygon':
        return R.RegularPolygonPixelRegion(co(c[0]), int(spec['nvertices']), sz(0), angle=ang(1), **kw)
    if cls == 'circleannulus':
        return getattr(R, 'CircleAnnulus' + S)(co(c[0]), sz(0), sz(1), **kw)
    if cls == 'ellipseannulus':
        return getattr(R, 'EllipseAnnulus' + S)(co(c[0]), sz(0), sz(1), sz(2), sz(3), angle=ang(4), **kw)
    if cls == 'rectangleannulus':
        return getattr(R, 'RectangleAnnulus' + S)(co(c[0]), sz(0), sz(1), sz(2), sz(3), angle=ang(4), **kw)
    if cls == 'line':
        return getattr(R, 'Line' + S)(co(c[0]), co(c[1]), **kw)
    if cls == 'point':
        return getattr(R, 'Point' + S)(co(c[0]), **kw)
    if cls == 'text':
        return getattr(R, 'Text' + S)(co(c[0]), spec['text'], **kw)
    raise ValueError(cls)


NUM_KINDS = ['float', 'float', 'float', 'int', 'f64', 'f32', 'i64', 'i32', 'i16', 'arr0']
INT_KINDS = {'int': 2 ** 40, 'i64': 2 ** 40, 'i32': 2 ** 30, 'i16': 30000}


def num_kind(name):
    import numpy as np
    return {'float': float, 'int': lambda v: int(v), 'f64': np.float64, 'f32': np.float32,
            'i64': lambda v: np.int64(int(v)), 'i32': lambda v: np.int32(int(v)), 'i16': lambda v: np.int16(int(v)),
            'arr0': lambda v: np.array(float(v))}[name]      # 0-d array: accepted for coordinates only


def frame_instance(frame, attrs):
    """astropy frame (name, or an instance carrying non-default equinox / obstime)."""
    name = ASTROPY_FRAME.get(frame, frame)
    if not attrs:
        return name
    import astropy.coordinates as ac
    cls = {'fk5': ac.FK5, 'fk4': ac.FK4, 'barycentricmeanecliptic': ac.BarycentricMeanEcliptic}[name]
    return cls(**attrs)


def expressible(spec):
    return spec['cls'] != 'compound' and spec['frame'] in FRAMES


# ---------------------------------------------------------------------------- real regions -> canonical JSON

def canon(region):
    """real region -> the Region JSON of Driver/C09Ops.lean (exact rationals, degrees)."""
    import astropy.units as u
    import regions as R
    name = type(region).__name__
    if name.startswith('Compound'):
        fr = 'image' if isinstance(region, R.PixelRegion) else 'sky'
        return {'shape': 'compound', 'frame': fr, 'coords': [], 'nums': [], 'text': None, 'meta': [], 'visual': []}
    shape = name.lower().replace('skyregion', '').replace('pixelregion', '')
    pix = isinstance(region, R.PixelRegion)

    def co_list(v):
        import numpy as np
        if pix:
            xs, ys = np.atleast_1d(v.x), np.atleast_1d(v.y)
        else:
            xs = np.atleast_1d(v.spherical.lon.to_value(u.deg))
            ys = np.atleast_1d(v.spherical.lat.to_value(u.deg))
        return [[frac(Fraction(float(x))), frac(Fraction(float(y)))] for x, y in zip(xs, ys)]
    if pix:
        frame = 'image'
    else:
        for pn in ('center', 'vertices', 'start'):
            if pn in region._params:
                frame = getattr(region, pn).frame.name
                break
        frame = {v: k for k, v in ASTROPY_FRAME.items()}.get(frame, frame)
    coords, nums, text = [], [], None
    std = []
    nondefault = False

    def std_list(v):
        """positions in the frame with its DEFAULT attributes, computed on a fresh SkyCoord (independent of
        the writer): SkyCoord(lon, lat, frame=<same attributes>).transform_to(FrameClass(), merge_attributes=False)"""
        nonlocal nondefault
        import numpy as np
        from astropy.coordinates import SkyCoord
        cls = type(v.frame)
        if v.frame.is_equivalent_frame(cls()):
            return co_list(v)
        nondefault = True
        fresh = SkyCoord(np.atleast_1d(v.spherical.lon.to_value(u.deg)) * u.deg,
                         np.atleast_1d(v.spherical.lat.to_value(u.deg)) * u.deg,
                         frame=v.frame.replicate_without_data())
        t = fresh.transform_to(cls(), merge_attributes=False)
        return [[frac(Fraction(float(x))), frac(Fraction(float(y)))]
                for x, y in zip(t.spherical.lon.to_value(u.deg), t.spherical.lat.to_value(u.deg))]
    src = region
    if shape == 'regularpolygon':
        # the writer works on region.to_polygon() (vertices and deep-copied meta/visual: a Path marker
        # object is no longer the DS9 one after the copy)
        src = region.to_polygon()
        coords = co_list(src.vertices)
    else:
        for pn in region._params:
            v = getattr(region, pn)
            if pn == 'text':
                text = pyval(v)
            elif pn in ('center', 'vertices', 'start', 'end'):
                coords += co_list(v)
                if not pix:
                    std += std_list(v)
            elif isinstance(v, u.Quantity):
                nums.append(frac(Fraction(float(v.to_value(u.deg)))))
            else:
                nums.append(frac(Fraction(float(v))))
    out = {'shape': shape, 'frame': frame, 'coords': coords, 'nums': nums, 'text': text,
           'meta': [[k, pyval(v)] for k, v in dict.items(src.meta)],
           'visual': [[k, pyval(v)] for k, v in dict.items(src.visual)]}
    if nondefault:
        out['std'] = std        # where the region is in the frame the DS9 word names (F35)
    return out


# ---------------------------------------------------------------------------- text helpers (harness side)

NUM_RE = re.compile(r'^[+-]?(\d+\.?\d*|\.\d+)([eE][+-]?\d+)?$')
SHAPE_LINE = re.compile(r'^(?:(\w+); )?(\w+)\(([^)]*)\)(.*)$', re.S)


def global_key_order(text):
    """keys of the `global` line in the order the real writer put them (hash order parameter)."""
    for line in text.split('\n'):
        if line.startswith('global '):
            s, keys, i = line[7:], [], 0
            while i < len(s):
                m = re.compile(r'([a-zA-Z]+)=').match(s, i)
                if not m:
                    i += 1
                    continue
                keys.append(m.group(1))
                i = m.end()
                if i < len(s) and s[i] in '{"':
                    close = '}' if s[i] == '{' else '"'
                    j = s.find(close, i + 1)
                    i = len(s) if j < 0 else j + 1
                else:
                    # value up to the next ' key=' (values may contain spaces: dashlist, point)
                    m2 = re.compile(r' [a-zA-Z]+=').search(s, i)
                    i = len(s) if not m2 else m2.start() + 1
            return keys
    return []


def split_shape_line(line):
    m = SHAPE_LINE.match(line)
    if not m:
        return None
    return m.group(1), m.group(2), m.group(3).split(',') if m.group(3) else [], m.group(4)


def half_unit(p):
    return Fraction(1, 2 * 10 ** p)


def ulp_slop(x):
    """a few double ulps at magnitude |x| (float conversions done by astropy / x+1 in the writer)."""
    return Fraction(max(abs(float(x)), 1.0)) * Fraction(1, 2 ** 50)


# ---------------------------------------------------------------------------- real runs

def _serialize(regs, p):
    from regions import Regions
    with warnings.catch_warnings(record=True) as w:
        warnings.simplefilter('always')
        try:
            t = Regions(regs).serialize(format='ds9', precision=p)
            return {'text': t, 'warn': [str(x.message) for x in w]}
        except Exception as e:
            return {'exc': type(e).__name__, 'msg': str(e)[:200], 'warn': [str(x.message) for x in w]}


def _parse(text):
    from regions import Regions
    with warnings.catch_warnings(record=True) as w:
        warnings.simplefilter('always')
        try:
            r = Regions.parse(text, format='ds9')
            return {'regions': r.regions, 'warn': [str(x.message) for x in w]}
        except Exception as e:
            return {'exc': type(e).__name__, 'msg': str(e)[:200], 'warn': [str(x.message) for x in w]}


def run_real(specs, p):
    """everything the check needs from the real code for one case (JSON-able)."""
    regs = [build(s) for s in specs]
    out = {'input': [canon(r) for r in regs]}
    before = json.dumps(out['input'])
    s1 = _serialize(regs, p)
    out['s1'] = {k: v for k, v in s1.items()}
    good = [r for r, s in zip(regs, specs) if expressible(s)]
    if len(good) != len(regs):
        out['s0'] = _serialize(good, p) if good else {'text': '', 'warn': []}
    if json.dumps([canon(r) for r in regs]) != before:
        out['mutated'] = True
    t1 = s1.get('text')
    if t1 is None and len(good) != len(regs) and good:
        # the writer failed on the inexpressible regions: continue with the rest
        t1 = out['s0'].get('text')
        out['t1_from'] = 's0'
    if t1 is not None:
        p1 = _parse(t1)
        if 'exc' in p1:
            out['p1'] = {'exc': p1['exc'], 'msg': p1['msg']}
        else:
            r1 = p1['regions']
            out['p1'] = {'regions': [canon(r) for r in r1], 'warn': p1['warn']}
            s2 = _serialize(r1, p)
            out['s2'] = s2
            if 'text' in s2:
                p2 = _parse(s2['text'])
                if 'exc' in p2:
                    out['p2'] = {'exc': p2['exc'], 'msg': p2['msg']}
                else:
                    r2 = p2['regions']
                    out['p2'] = {'regions': [canon(r) for r in r2],
                                 'eq': len(r1) == len(r2) and all(bool(a == b) for a, b in zip(r1, r2))}
    return out


# ---------------------------------------------------------------------------- the check

class Check(PropertyCheck):
    id = 'C09'
    lean_targets = ['RegionsVerif.Props.C09', 'RegionsVerif.Props.C09Lex']
    namespaces = ['RegionsVerif.Props.C09']
    rule = ('lists of 1..8 regions: all ten DS9 shapes (+ regular polygon) x frames {image, icrs, fk5, fk4, galactic, '
            'ecliptic} x precision 0..12 x magnitudes 1e-3..1e6 (dyadic values incl. exact rounding ties, decimal-looking '
            'values, random doubles; pixel numbers given as Python int/float or NumPy float64/float32/int64/int32/int16 '
            'scalars, coordinates also as 0-d arrays; '
            'values, random doubles) x sky units {deg, arcmin, arcsec, rad} x meta/visual vocabulary (include '
            'True/False/1/0, text with spaces ; # = quotes, numeric-looking text, text/tags containing \\r \\v \\f FS GS RS US NEL '
            'U+2028 U+2029 tab NBSP at the start / in the middle / at the end / alone / repeated, 1..3 tags, colour names and #hex, '
            'face/edgecolor, linewidth int/float, fill, font fields, dashed / dash tuples, markers incl. Path markers, '
            'markersize, markeredgewidth, rotation, DS9-style keys, non-DS9 keys) x shared metadata (hoisting) x '
            'inexpressible regions (compound pixel/sky, frames without DS9 name) injected at every position; tiny sizes '
            'and annulus gaps below the printed precision; 8% malformed stream (metadata outside the DS9 vocabulary: '
            'non-integer font size, one-element dash tuple, non-numeric fill/markersize, text or tags containing braces '
            'or semicolons, colours with spaces ...: correspondence only, no property claim). '
            'Non-trivial = at least one expressible region.')
    assumptions = [
        'astropy formats sky numbers and all angles (SkyCoord.to_string, Quantity.to_string, Angle.to_string): modelled as a '
        'rounder `sky` with |sky x - x| <= 1/2 10^-p; checked by value on every such number of every case',
        'float(text) is the correctly rounded value of the decimal text; Python repr(float) read back gives the same float',
        'SkyCoord normalises longitudes into [0, 360) (wrapLon) and keeps latitudes; frame attributes (equinox, obstime) are '
        'the defaults - DS9 has no syntax for them',
        'text is ASCII-white-space/case wise (Dec.isSpace, Dec.lowerChar); regex semantics of the metadata pattern as '
        'transcribed in Impl/Ds9Text.lean:matchItem',
        'RegularPolygonPixelRegion.to_polygon() (outside the DS9 code) supplies the vertices',
    ]
    validated_only = [
        'character level: lex (render o) = toRaw o is NOT a theorem; the driver evaluates it on every generated case '
        '(reply field lex_render, required whenever the decidable side condition renderSafe holds) and the real text is '
        'compared with the model text line by line',
        'ds9_roundtrip is partial correctness: it assumes writer and reader did not raise. That they do not raise is a '
        'theorem only for lists in the reader normal form (ds9_fixed_point) and for the geometry of any region '
        '(ds9_reader_accepts_iff); for user-built metadata (fonts, markers, dashes ...) absence of exceptions is checked by '
        'the correspondence only',
        'visual metadata (colour, width, font, dash, point, fill, text angle) at the fixed point: ds9_fixed_point covers '
        'regions whose visual dict is the reader default; other visual keys are compared by the correspondence only '
        '(second parse vs first parse on every case, and on the bundled .reg files)',
        'determinism across interpreter runs (PYTHONHASHSEED) is a run-time comparison of strings (extra_checks); the Lean '
        'part is serialize_order_only_global / serialize_order_irrelevant',
        'astropy number formatting (value within half a unit; a p-decimal printed as itself) is a hypothesis '
        '(SkyLaw / SkyFix), checked by value on every sky number and angle of every case',
        'fixed point on the bundled .reg files uses the real code only (their syntax is outside the model lexer: C10)',
    ]

    def __init__(self):
        self._real = {}

    # ---------------------------------------------------------------- generation
    def _value(self, rng, lo=1e-3, hi=1e6):
        mode = rng.random()
        mag = 10 ** rng.uniform(math.log10(lo), math.log10(hi))
        if mode < 0.35:                      # dyadic, few bits: x+1 and x/2 exact, ties possible
            k = rng.choice([1, 2, 3, 4, 5, 8])
            return Fraction(max(1, int(mag * 2 ** k)), 2 ** k)
        if mode < 0.65:                      # decimal looking
            d = rng.randint(0, 6)
            return Fraction(float(round(mag, d)) or 1.0)
        return Fraction(mag * rng.uniform(0.5, 1.5))

    def _coord(self, rng, pix):
        if pix:
            v = self._value(rng, 1e-2, 1e5)
            return v if rng.random() < 0.8 else -v
        return None

    def _meta(self, rng, cls):
        meta, visual = [], []
        r = rng.random
        if r() < 0.45:
            meta.append(['include', rng.choice([{'bool': True}, {'bool': False}, {'int': '1'}, {'int': '0'}])])
        if r() < 0.35:
            t = rng.choice(NUMERIC_TEXTS) if r() < 0.12 else rng.choice(SEP_TEXTS) if r() < 0.25 else rng.choice(TEXTS)
            meta.append(['text', {'str': t}])
        if r() < 0.35:
            tags = rng.sample(TAGS, rng.randint(1, 3))
            if r() < 0.25:
                tags[rng.randrange(len(tags))] = rng.choice(SEP_TEXTS)
            meta.append(['tag', {'strs': tags}])
        if r() < 0.15:
            meta.append([rng.choice(BINARY_META), {'int': str(rng.randint(0, 1))}])
        if r() < 0.06:
            meta.append([rng.choice(['label', 'comment', 'name']), {'str': 'not ds9'}])
        rng.shuffle(meta)
        # visual
        if r() < 0.4:
            c = rng.choice(COLORS)
            which = r()
            if which < 0.4:
                visual.append(['color', {'str': c}])
            elif which < 0.7:
                visual += [['facecolor', {'str': c}], ['edgecolor', {'str': c}]]
            elif which < 0.8:
                visual.append(['edgecolor', {'str': c}])
            elif which < 0.9:
                visual.append(['facecolor', {'str': c}])
            else:
                visual += [['facecolor', {'str': c}], ['edgecolor', {'str': rng.choice(COLORS)}]]
        if r() < 0.3:
            w = rng.choice([1, 2, 3, 4, 1.5, 2.5, 0.75])
            visual.append(['linewidth', pyval(w)])
        if r() < 0.25:
            visual.append(['fill', rng.choice([{'bool': True}, {'bool': False}, {'int': '1'}, {'int': '0'}])])
        if r() < 0.25:
            visual.append(['fontname', {'str': rng.choice(FONTNAMES)}])
            if r() < 0.7:
                visual.append(['fontsize', {'int': str(rng.choice([8, 10, 12, 14, 24]))}])
            if r() < 0.6:
                visual.append(['fontweight', {'str': rng.choice(FONTWEIGHTS)}])
            if r() < 0.6:
                visual.append(['fontstyle', {'str': rng.choice(FONTSTYLES)}])
        if r() < 0.2:
            if r() < 0.5:
                visual.append(['linestyle', {'str': rng.choice(['dashed', '--', 'dotted'])}])
            else:
                visual.append(['linestyle', {'dashes': ['0', [str(rng.randint(1, 9)), str(rng.randint(1, 9))]
                                                         + ([str(rng.randint(1, 9))] * 2 if r() < 0.15 else [])]}])
        if cls == 'point' and r() < 0.7 or r() < 0.05:
            mk = rng.choice(MARKERS)
            visual.append(['marker', {'marker': mk[1:]} if mk.startswith('@') else {'str': mk}])
            if r() < 0.6:
                visual.append(['markersize', {'int': str(rng.randint(2, 20))}])
            if r() < 0.3:
                visual.append(['markeredgewidth', pyval(rng.choice([1, 2, 1.5]))])
        if cls == 'text' and r() < 0.6 or r() < 0.05:
            visual.append(['rotation', pyval(rng.choice([0, 30, 45, 90, 18.35, -12.5, 270.0]))])
        if r() < 0.08:   # DS9-style keys given directly
            visual.append(rng.choice([['dash', {'int': '1'}], ['dashlist', {'str': '8 3'}],
                                      ['font', {'str': 'times 14 bold italic'}], ['textangle', {'int': '30'}],
                                      ['textrotate', {'int': '0'}], ['default_style', {'str': 'ds9'}]]))
        # de-duplicate keys (keep first), shuffle
        seen, vis = set(), []
        for k, v in visual:
            if k not in seen:
                seen.add(k)
                vis.append([k, v])
        # keep font fields together is not needed: dict order is free
        rng.shuffle(vis)
        return meta, vis

    def _region(self, rng, p, frame=None, cls=None, tiny=False):
        frame = frame or rng.choice(FRAMES)
        pix = frame == 'image'
        cls = cls or rng.choice(PIX_SHAPES if pix else SKY_SHAPES)
        spec = {'cls': cls, 'frame': frame}

        def coord():
            if pix:
                x = self._value(rng, 1e-2, 1e5)
                y = self._value(rng, 1e-2, 1e5)
                return [frac(x if rng.random() < 0.85 else -x), frac(y if rng.random() < 0.85 else -y)]
            lon = Fraction(rng.choice([rng.uniform(0, 360), round(rng.uniform(0, 360), rng.randint(0, 5)),
                                       rng.choice([0.0, 359.99999999, 359.9996, 180.0, 0.125, 12.5])]))
            lat = Fraction(rng.choice([rng.uniform(-90, 90), round(rng.uniform(-90, 90), rng.randint(0, 5)),
                                       rng.choice([0.0, -90.0, 90.0, 89.99999999, -0.125])]))
            return [frac(lon), frac(lat)]

        floor_ = 3.0 * 10.0 ** (-p)      # sizes (in the written unit) stay printable unless `tiny`

        def size(lo=1e-3, hi=1e4):
            if pix:
                return self._value(rng, max(lo, floor_), max(hi, 10 * floor_))
            un = rng.choice(UNITS)
            scale = {'deg': 1, 'arcmin': 60, 'arcsec': 3600, 'rad': Fraction(1, 57)}[un]
            return self._value(rng, max(1e-4, floor_), 20) * scale, un

        nums, units = [], []

        def push(v):
            if pix:
                nums.append(frac(v))
                units.append('pix')
            else:
                nums.append(frac(Fraction(float(v[0]))))
                units.append(v[1])

        def push_pair_ordered(n):
            # n increasing sizes in one unit, gaps well above the printed unit
            un = 'pix' if pix else rng.choice(UNITS)
            scale = {'pix': 1, 'deg': 1, 'arcmin': 60, 'arcsec': 3600, 'rad': Fraction(1, 57)}[un]
            lo, hi = (1e-2, 1e4) if pix else (1e-3, 10)
            v = self._value(rng, max(lo, floor_), hi)
            out = [v]
            for _ in range(n - 1):
                v = v + self._value(rng, max(lo, floor_), hi)
                out.append(v)
            return [(Fraction(float(x * scale)), un) for x in out]

        def push_angle():
            un = rng.choice(['deg', 'deg', 'deg', 'rad', 'arcmin'])
            a = rng.choice([0, 30, 45, 90, -30, 360, 12.5, 0.125, round(rng.uniform(-360, 360), rng.randint(0, 6)),
                            rng.uniform(0, 360)])
            a = Fraction(float(a)) * {'deg': 1, 'rad': Fraction(1, 57), 'arcmin': 60}[un]
            nums.append(frac(Fraction(float(a))))
            units.append(un)

        if cls in ('circle',):
            spec['coords'] = [coord()]
            push(size())
        elif cls in ('ellipse', 'rectangle'):
            spec['coords'] = [coord()]
            push(size())
            push(size())
            push_angle()
        elif cls == 'polygon':
            spec['coords'] = [coord() for _ in range(rng.randint(3, 7))]
        elif cls == 'regularpolygon':
            spec['coords'] = [coord()]
            spec['nvertices'] = rng.randint(3, 8)
            push(size(1e-1, 1e3))
            push_angle()
        elif cls == 'circleannulus':
            spec['coords'] = [coord()]
            for v, un in push_pair_ordered(2):
                nums.append(frac(v))
                units.append(un)
        elif cls in ('ellipseannulus', 'rectangleannulus'):
            spec['coords'] = [coord()]
            w = push_pair_ordered(2)
            h = push_pair_ordered(2)
            for v, un in (w[0], w[1], h[0], h[1]):
                nums.append(frac(v))
                units.append(un)
            push_angle()
        elif cls == 'line':
            spec['coords'] = [coord(), coord()]
        elif cls in ('point', 'text'):
            spec['coords'] = [coord()]
        if cls == 'text':
            spec['text'] = rng.choice(NUMERIC_TEXTS) if rng.random() < 0.08 else \
                rng.choice(SEP_TEXTS) if rng.random() < 0.25 else rng.choice(TEXTS)
        if tiny and nums and cls not in ('regularpolygon',):
            # F19 class: a size (or an annulus gap) below the printed precision
            eps = Fraction(1, 10 ** p) * Fraction(rng.choice([1, 2, 3, 4, 6, 9]), 20)
            def above(base):
                v = float(base + eps)
                if Fraction(v) <= base:
                    v = math.nextafter(float(base), math.inf)
                return frac(Fraction(v))
            if cls == 'circleannulus':
                nums[1] = above(Fraction(nums[0]))
            elif cls in ('ellipseannulus', 'rectangleannulus') and rng.random() < 0.6:
                nums[1] = above(Fraction(nums[0]))
            else:
                nums[0] = frac(Fraction(float(eps)))
                if cls in ('ellipseannulus', 'rectangleannulus') and Fraction(nums[0]) >= Fraction(nums[1]):
                    nums[1] = above(Fraction(nums[0]))
            if not pix:
                units = ['deg' if u != 'pix' else u for u in units]
                # values above were meant in degrees
        spec['nums'] = nums
        spec['units'] = units
        if pix and not tiny:
            self._apply_kind(rng, spec)
        if rng.random() < 0.2:
            spec['angle_cls'] = 'Angle'
        spec['meta'], spec['visual'] = self._meta(rng, cls)
        if frame in ('fk5', 'fk4', 'ecliptic') and rng.random() < 0.15:
            # the same frame at another equinox / obstime (FK5(equinox=J1975) is an fk5 coordinate)
            spec['attrs'] = rng.choice({
                'fk5': [{'equinox': 'J1975'}, {'equinox': 'J2015.5'}, {'equinox': 'B1950'}],
                'fk4': [{'equinox': 'B1975'}, {'equinox': 'B1900'}, {'equinox': 'B1950', 'obstime': 'J2000'},
                        {'equinox': 'B1975', 'obstime': 'B1950'}],
                'ecliptic': [{'equinox': 'J1975'}, {'equinox': 'J2050'}]}[frame])
        return spec

    CASE_FAMILIES = {
        'text': [['A', 'a'], ['NGC 1', 'ngc 1', 'Ngc 1'], ['M31 Core', 'm31 core', 'M31 CORE'], ['Src;x=Y # z', 'src;X=y # Z']],
        'color': [['Red', 'red', 'RED'], ['Orange', 'orange'], ['#FF00aa', '#ff00AA', '#ff00aa']],
        'fontname': [['Times', 'times', 'TIMES'], ['Helvetica', 'helvetica']],
        'fontweight': [['Bold', 'bold'], ['Normal', 'normal']],
        'tag': [['Grp A', 'grp a'], ['T1', 't1', 'T1']],
        'label': [['Not DS9', 'not ds9']],
    }

    def _case_family(self, rng, specs):
        key = rng.choice(['text', 'text', 'text', 'color', 'color', 'fontname', 'fontweight', 'tag', 'label'])
        fam = rng.choice(self.CASE_FAMILIES[key])
        mode = rng.choice(['case', 'case', 'case', 'equal', 'different'])
        for i, sp in enumerate(specs):
            if not expressible(sp):
                continue
            v = fam[i % len(fam)] if mode == 'case' else fam[0] if mode == 'equal' else \
                fam[0] + (' %d' if key in ('text', 'tag', 'label') else 'x%d') % i
            if rng.random() < 0.5 and mode == 'case':
                v = rng.choice(fam)

            def setk(which, k, val):
                sp[which] = [kv for kv in sp[which] if kv[0] != k] + [[k, val]]
            if key == 'text':
                if sp['cls'] == 'text':
                    sp['text'] = v
                else:
                    setk('meta', 'text', {'str': v})
            elif key == 'tag':
                setk('meta', 'tag', {'strs': [v, 'common']})
            elif key == 'label':
                setk('meta', 'label', {'str': v})
            elif key == 'color':
                sp['visual'] = [kv for kv in sp['visual'] if kv[0] not in ('facecolor', 'edgecolor')]
                setk('visual', 'color', {'str': v})
            elif key == 'fontname':
                setk('visual', 'fontname', {'str': v})
            else:
                if not any(kv[0] == 'fontname' for kv in sp['visual']):
                    setk('visual', 'fontname', {'str': 'times'})
                setk('visual', 'fontweight', {'str': v})

    @staticmethod
    def _apply_kind(rng, spec):
        """give the pixel numbers of a region as Python int/float, NumPy float64/float32/int64/int32/int16 scalars
        (coordinates also as 0-d arrays); values are made exactly representable in that type"""
        import numpy as np
        kind = rng.choice(NUM_KINDS)
        if kind == 'float':
            return
        spec['numkind'] = kind
        cls = spec['cls']
        nsz = len(spec['nums']) - (1 if cls in ('ellipse', 'rectangle', 'ellipseannulus', 'rectangleannulus',
                                                  'regularpolygon') else 0)

        def conv(v, positive):
            v = Fraction(v)
            if kind in INT_KINDS:
                n = int(round(v))
                n = max(-INT_KINDS[kind], min(INT_KINDS[kind], n))
                return Fraction(max(1, n) if positive else n)
            if kind == 'f32':
                w = Fraction(float(np.float32(float(v))))
                return w if (w > 0 or not positive) else Fraction(float(np.float32(1e-3)))
            return v
        if kind != 'arr0':
            sizes = [conv(v, True) for v in spec['nums'][:nsz]]
            # keep inner < outer
            pairs = {'circleannulus': [(0, 1)], 'ellipseannulus': [(0, 1), (2, 3)], 'rectangleannulus': [(0, 1), (2, 3)]}
            for i, o in pairs.get(cls, []):
                if sizes[o] <= sizes[i]:
                    sizes[o] = sizes[i] + 1 if kind in INT_KINDS else \
                        Fraction(float(np.nextafter(np.float32(float(sizes[i])), np.float32(np.inf))))
            spec['nums'] = [frac(v) for v in sizes] + spec['nums'][nsz:]
        spec['coords'] = [[frac(conv(c[0], False)), frac(conv(c[1], False))] for c in spec['coords']]

    @staticmethod
    def _malform(rng, spec):
        def setk(which, k, v):
            spec[which] = [kv for kv in spec[which] if kv[0] != k] + [[k, v]]
        c = rng.randrange(12)
        if c == 0:
            setk('visual', 'fontname', {'str': 'times'})
            setk('visual', 'fontsize', pyval(12.5))              # reader: DS9ParserError
        elif c == 1:
            setk('visual', 'linestyle', {'dashes': ['0', ['4']]})  # writer: IndexError
        elif c == 2:
            setk('visual', 'fill', {'str': 'yes'})                # writer: int('yes')
        elif c == 3:
            setk('meta', 'include', {'str': rng.choice(['0', 'no', ''])})
        elif c == 4:
            setk('meta', 'tag', {'str': 'abc'})                   # iterated character by character
        elif c == 5:
            if spec['cls'] != 'text':
                setk('meta', 'text', {'str': rng.choice(['a}b', '{lead', 'trail}', '}{', '"q"', "'q'", ' {x} '])})
            else:
                spec['text'] = rng.choice(['a}b', '{lead', 'trail}', '"q"'])
        elif c == 6:
            setk('meta', 'tag', {'strs': [rng.choice(['a;b', 'x}y', '{z', 'text={q'])]})
        elif c == 7:
            setk('visual', 'marker', {'str': 'o'})
            setk('visual', 'markersize', rng.choice([{'str': 'large'}, pyval(7.5), {'str': '3 4'}]))
        elif c == 8:
            setk('visual', 'color', {'str': rng.choice(['light blue', '', 'a=b', '12', '-3'])})
        elif c == 9:
            setk('visual', 'fontname', {'str': rng.choice(['Times New', ''])})
        elif c == 10:
            setk('visual', 'linewidth', pyval(rng.choice([1e-05, 1e+16, 2.0])))
        else:
            setk('meta', rng.choice(['select', 'fixed']), rng.choice([{'bool': True}, {'int': '2'}, {'str': 'x'}]))

    @staticmethod
    def _normalise(spec):
        # a text region's string IS its DS9 label: a different meta['text'] on it is not expressible
        if spec['cls'] == 'text':
            spec['meta'] = [kv for kv in spec['meta'] if kv[0] != 'text']
        return spec

    def _bad(self, rng, p):
        k = rng.random()
        if k < 0.4:
            a = self._region(rng, p, frame='image', cls=rng.choice(['circle', 'rectangle', 'ellipse']))
            b = self._region(rng, p, frame='image', cls=rng.choice(['circle', 'rectangle']))
            return {'cls': 'compound', 'frame': 'image', 'a': a, 'b': b, 'op': rng.choice(['and', 'or', 'xor'])}
        if k < 0.6:
            a = self._region(rng, p, frame='icrs', cls='circle')
            b = self._region(rng, p, frame='icrs', cls='circle')
            return {'cls': 'compound', 'frame': 'icrs', 'a': a, 'b': b, 'op': rng.choice(['and', 'or'])}
        return self._region(rng, p, frame=rng.choice(BAD_FRAMES))

    def generate(self, rng, tier):
        n = int(os.environ.get("C09_N", 1500 if tier == "quick" else 15000))
        cases = []
        for i in range(n):
            p = rng.randint(0, 12)
            nreg = rng.choice([1, 1, 2, 2, 3, 4, 5, 6, 7, 8])
            mode = rng.random()
            if mode < 0.35:
                frames = [rng.choice(FRAMES)] * nreg            # one frame: hoisted frame line
            elif mode < 0.5:
                frames = ['image'] * nreg
            else:
                frames = [rng.choice(FRAMES) for _ in range(nreg)]
            specs = [self._region(rng, p, frame=f, tiny=(rng.random() < 0.02)) for f in frames]
            # shared metadata -> hoisting
            if nreg > 1 and rng.random() < 0.6:
                sm, sv = self._meta(rng, 'circle')
                sm = [kv for kv in sm if kv[0] != 'tag' or rng.random() < 0.3]
                for s in specs:
                    if rng.random() < 0.9:
                        keys = {k for k, _ in sm}
                        s['meta'] = sm + [kv for kv in s['meta'] if kv[0] not in keys]
                        keys = {k for k, _ in sv}
                        s['visual'] = [kv for kv in s['visual'] if kv[0] not in keys] + sv
            # the same string-valued key on EVERY region, the values equal up to letter case / exactly equal /
            # really different: only exactly equal values may be hoisted, every region keeps its own spelling
            if 2 <= nreg <= 4 and rng.random() < 0.25:
                self._case_family(rng, specs)
            # the exclusion vocabulary in bulk
            if rng.random() < 0.12:
                v = rng.choice([{'bool': False}, {'int': '0'}, {'bool': True}, {'int': '1'}])
                for s in specs:
                    s['meta'] = [kv for kv in s['meta'] if kv[0] != 'include'] + [['include', v]]
            # inexpressible regions at every position
            if rng.random() < 0.3:
                for _ in range(rng.choice([1, 1, 2])):
                    specs.insert(rng.randint(0, len(specs)), self._bad(rng, p))
                if rng.random() < 0.1:
                    specs = [s for s in specs if not expressible(s)]
            specs = [self._normalise(s) for s in specs]
            kind = 'list'
            if rng.random() < 0.08:
                # malformed stream: metadata outside the DS9 vocabulary (only the correspondence is checked)
                kind = 'malformed'
                victims = [s for s in specs if expressible(s)]
                if victims:
                    self._malform(rng, rng.choice(victims))
            cases.append({'kind': kind, 'precision': p, 'regions': specs, 'n': i})
        return cases

    # ---------------------------------------------------------------- real
    def real(self, case):
        out = run_real(case['regions'], case['precision'])
        self._real[case['n']] = out
        return out

    # ---------------------------------------------------------------- model
    def requests(self, case):
        real = self._real.get(case['n']) or self.real(case)
        p = case['precision']
        reqs = []
        t1 = real['s1'].get('text')
        reqs.append({'op': 'ds9.serialize', 'precision': p, 'regions': real['input'],
                     'ord': global_key_order(t1) if t1 else []})
        plan = ['s1']
        if 's0' in real:
            good = [c for c, s in zip(real['input'], case['regions']) if expressible(s)]
            t0 = real['s0'].get('text')
            reqs.append({'op': 'ds9.serialize', 'precision': p, 'regions': good,
                         'ord': global_key_order(t0) if t0 else []})
            plan.append('s0')
        t_used = real['s0'].get('text') if real.get('t1_from') == 's0' else t1
        if t_used is not None and 'p1' in real:
            reqs.append({'op': 'ds9.parse', 'text': t_used})
            plan.append('p1')
            if 's2' in real:
                t2 = real['s2'].get('text')
                reqs.append({'op': 'ds9.serialize', 'precision': p, 'regions': real['p1']['regions'],
                             'ord': global_key_order(t2) if t2 else []})
                plan.append('s2')
                if t2 is not None and 'p2' in real:
                    reqs.append({'op': 'ds9.parse', 'text': t2})
                    plan.append('p2')
        case['_plan'] = plan
        return self._cfg(reqs)

    @staticmethod
    def _cfg(reqs):
        """testing aid: C09_CFG=1111 (skip, includeInt, orderedGlobal, stdAttrs) makes the driver model a tree with
        those repairs applied (used with REGIONS_SRC=<patched copy>); default = Impl codeCfg."""
        c = os.environ.get('C09_CFG')
        if c:
            cfg = dict(zip(('skip', 'includeInt', 'orderedGlobal', 'stdAttrs'), (ch == '1' for ch in c)))
            for r in reqs:
                r['cfg'] = cfg
        return reqs

    def model(self, case, replies):
        return dict(zip(case.pop('_plan'), replies))

    # ---------------------------------------------------------------- comparison
    def _cmp_text(self, p, real_s, model_s, notes):
        """real serialize result vs model serialize reply."""
        if 'fail' in model_s:
            notes.append('driver: ' + model_s['fail'])
            return False
        if 'exc' in real_s or 'err' in model_s:
            ok = real_s.get('exc') == model_s.get('err')
            if not ok:
                notes.append(f'exception: real {real_s.get("exc")} model {model_s.get("err")}')
            return ok
        if not model_s.get('lex_render'):
            if model_s.get('safe'):
                notes.append('lex (render o) != toRaw o although renderSafe o')
                return False
            self.unsafe_render = getattr(self, 'unsafe_render', 0) + 1
        nskip = sum('skipping' in w and 'region shape' not in w for w in real_s['warn'])
        if nskip != int(model_s['skipped']):
            notes.append(f'skip warnings: real {nskip} model {model_s["skipped"]}')
            return False
        rl, ml = real_s['text'].split('\n'), model_s['ok'].split('\n')
        if len(rl) != len(ml):
            notes.append('line count')
            return False
        params = model_s['params']
        first_shape = None
        for i, (a, b) in enumerate(zip(rl, ml)):
            sa, sb = split_shape_line(a), split_shape_line(b)
            if sb is not None and first_shape is None:
                first_shape = i
            if a == b:
                continue
            if sa is None or sb is None or sa[0] != sb[0] or sa[1] != sb[1] or sa[3] != sb[3] or len(sa[2]) != len(sb[2]):
                notes.append(f'line {i}: {a!r} != {b!r}')
                return False
            info = params[i - first_shape]
            if len(info) != len(sa[2]):
                notes.append(f'line {i}: parameter count')
                return False
            for (astro, exact), ta, tb in zip(info, sa[2], sb[2]):
                exact = Fraction(exact)
                if ta == tb:
                    continue
                if not NUM_RE.match(ta):
                    notes.append(f'line {i}: token {ta!r}')
                    return False
                if astro:
                    # astropy's formatting: by value, half a unit (+ double slop of its unit conversion)
                    if abs(Fraction(ta) - exact) > half_unit(p) + ulp_slop(exact):
                        notes.append(f'line {i}: astropy number {ta} is not within 1/2 unit of {float(exact)!r}')
                        return False
                else:
                    # the writer's own x + 1 is rounded to double before printing: a one-unit difference is
                    # excepted only when the exact value is within that rounding of a tie
                    y = exact * 10 ** p
                    dist = abs(abs(y - math.floor(y)) - Fraction(1, 2))
                    if abs(Fraction(ta) - Fraction(tb)) == Fraction(1, 10 ** p) and dist <= ulp_slop(exact) * 4 * 10 ** p:
                        self.rounding_excepted = getattr(self, 'rounding_excepted', 0) + 1
                    else:
                        notes.append(f'line {i}: pixel number {ta} != {tb}')
                        return False
        return True

    @staticmethod
    def _num_ok(real_q, model_q, kind):
        r, m = Fraction(real_q), Fraction(model_q)
        if r == m:
            return True
        if kind == 'pixcoord':
            return Fraction(float(m + 1) - 1.0) == r
        if kind == 'lon':
            d = abs(r - m) % 360
            return min(d, 360 - d) <= Fraction(1, 10 ** 9)
        return Fraction(float(m)) == r

    @staticmethod
    def _val_ok(rv, mv):
        if rv == mv:
            return True
        if 'flt' in rv and 'flt' in mv:
            return Fraction(float(Fraction(mv['flt'][0]))) == Fraction(rv['flt'][0]) and rv['flt'][1] == mv['flt'][1]
        return False

    def _cmp_regions(self, real_p, model_p, notes):
        if 'fail' in model_p:
            notes.append('driver: ' + model_p['fail'])
            return False
        if 'exc' in real_p or 'err' in model_p:
            ok = real_p.get('exc') == model_p.get('err')
            if not ok:
                notes.append(f'parse exception: real {real_p.get("exc")} {real_p.get("msg")} model {model_p.get("err")}')
            return ok
        rr, mr = real_p['regions'], model_p['ok']
        if len(rr) != len(mr):
            notes.append(f'parse count: real {len(rr)} model {len(mr)}')
            return False
        for i, (a, b) in enumerate(zip(rr, mr)):
            if a['shape'] != b['shape'] or a['frame'] != b['frame']:
                notes.append(f'region {i}: {a["shape"]}/{a["frame"]} vs {b["shape"]}/{b["frame"]}')
                return False
            pix = a['frame'] == 'image'
            if len(a['coords']) != len(b['coords']) or len(a['nums']) != len(b['nums']):
                notes.append(f'region {i}: arity')
                return False
            for ca, cb in zip(a['coords'], b['coords']):
                if not (self._num_ok(ca[0], cb[0], 'pixcoord' if pix else 'lon')
                        and self._num_ok(ca[1], cb[1], 'pixcoord' if pix else 'num')):
                    notes.append(f'region {i}: coord {ca} vs {cb}')
                    return False
            for na, nb in zip(a['nums'], b['nums']):
                if not self._num_ok(na, nb, 'num'):
                    notes.append(f'region {i}: number {na} vs {nb}')
                    return False
            if (a['text'] is None) != (b['text'] is None) or (a['text'] is not None and not self._val_ok(a['text'], b['text'])):
                notes.append(f'region {i}: text {a["text"]} vs {b["text"]}')
                return False
            for which in ('meta', 'visual'):
                da, db = a[which], b[which]
                if [k for k, _ in da] != [k for k, _ in db] or not all(self._val_ok(x[1], y[1]) for x, y in zip(da, db)):
                    notes.append(f'region {i}: {which} {da} vs {db}')
                    return False
        return True

    def equal(self, case, real, model):
        notes = []
        p = case['precision']
        ok = True
        for stage in ('s1', 's0', 's2'):
            if stage in model:
                ok = self._cmp_text(p, real[stage], model[stage], notes) and ok
        for stage in ('p1', 'p2'):
            if stage in model:
                ok = self._cmp_regions(real[stage], model[stage], notes) and ok
        if not ok:
            model['_notes'] = notes
        return ok

    # ---------------------------------------------------------------- oracle (real results only)
    def oracle(self, case, real):
        V = []
        if case.get('kind') == 'malformed':
            return V      # outside "metadata expressible in DS9": the property makes no claim
        p = case['precision']
        specs = case['regions']
        good_idx = [i for i, s in enumerate(specs) if expressible(s)]
        nbad = len(specs) - len(good_idx)

        def bad(kind, detail, **kw):
            V.append(dict(kind=kind, detail=f'{detail} :: p={p} n={case["n"]}', **kw))
        if real.get('mutated'):
            bad('input_mutated', 'serialize changed its input regions')
        s1 = real['s1']
        # --- skip clause: inexpressible regions are skipped with a warning, the rest is unaffected
        if 'exc' in s1:
            bad('serialize_exception', f'{s1["exc"]}: {s1["msg"]}', has_inexpressible=nbad > 0, exc=s1['exc'])
        elif nbad:
            nwarn = sum('skipping' in w for w in s1['warn'])
            if nwarn < nbad:
                bad('skip_without_warning', f'{nbad} inexpressible regions, {nwarn} warnings')
            if 'text' in real.get('s0', {}) and real['s0']['text'] != s1['text']:
                bad('skip_alters_output', 'text with and without the inexpressible regions differs')
        if 's0' in real and 'exc' in real['s0']:
            bad('serialize_exception', f'{real["s0"]["exc"]}: {real["s0"]["msg"]} (expressible regions only)',
                has_inexpressible=False, exc=real['s0']['exc'])
        # --- round trip
        text = real['s0'].get('text') if real.get('t1_from') == 's0' else s1.get('text')
        if text is None or 'p1' not in real:
            return V
        inp = [real['input'][i] for i in good_idx]
        p1 = real['p1']
        if 'exc' in p1:
            bad('parse_exception', f'{p1["exc"]}: {p1["msg"]}', exc=p1['exc'], msg=p1['msg'], text=text,
                numeric_text=[s['text'] for s in specs if expressible(s) and s['cls'] == 'text' and is_py_float(s['text'])])
            return V
        out = p1['regions']
        if len(out) != len(inp):
            bad('count_mismatch', f'{len(inp)} regions written, {len(out)} read')
            return V
        H = half_unit(p)
        for i, (a, b) in enumerate(zip(inp, out)):
            want_shape = 'polygon' if a['shape'] == 'regularpolygon' else a['shape']
            if b['shape'] != want_shape:
                bad('class_changed', f'region {i}: {a["shape"]} -> {b["shape"]}')
                continue
            if b['frame'] != a['frame']:
                bad('frame_changed', f'region {i}: {a["frame"]} -> {b["frame"]}')
            pix = a['frame'] == 'image'
            if len(a['coords']) != len(b['coords']) or len(a['nums']) != len(b['nums']):
                bad('arity_changed', f'region {i}')
                continue
            # a frame with non-default equinox/obstime: the DS9 word names the default-attribute frame, so the
            # region must come back at its position THERE (a['std'], computed by canon on a fresh SkyCoord)
            want = a.get('std', a['coords'])
            for ca, cb, cown in zip(want, b['coords'], a['coords']):
                for j in (0, 1):
                    x, y = Fraction(ca[j]), Fraction(cb[j])
                    d = abs(x - y)
                    if not pix and j == 0:
                        d = min(d % 360, 360 - d % 360)
                    if d > H + ulp_slop(x) * 4:
                        own = abs(Fraction(cown[j]) - y)
                        if not pix and j == 0:
                            own = min(own % 360, 360 - own % 360)
                        bad('coord_tolerance', f'region {i} ({a["frame"]}): {float(x)!r} -> {float(y)!r}',
                            nondefault_attrs='std' in a,
                            untransformed=own <= H + ulp_slop(Fraction(cown[j])) * 4)
            ell = a['shape'] in ('ellipse', 'ellipseannulus')
            for j, (na, nb) in enumerate(zip(a['nums'], b['nums'])):
                x, y = Fraction(na), Fraction(nb)
                is_angle = a['shape'] in ('ellipse', 'rectangle', 'ellipseannulus', 'rectangleannulus') and j == len(a['nums']) - 1
                tol = 2 * H if (ell and not is_angle) else H    # DS9 stores ellipse semi-axes
                if abs(x - y) > tol + ulp_slop(x) * 4:
                    bad('size_tolerance', f'region {i} ({a["shape"]}) param {j}: {float(x)!r} -> {float(y)!r}')
            if a['text'] != b['text']:
                bad('text_changed', f'region {i}: text {a["text"]} -> {b["text"]}', value=a['text'])
            ma, mb = dict(map(tuple_kv, a['meta'])), dict(map(tuple_kv, b['meta']))
            ta = json.loads(ma.get('tag', '{"strs": []}'))
            tb = json.loads(mb.get('tag', '{"strs": []}'))
            if ta != tb:
                bad('tags_changed', f'region {i}: {ta} -> {tb}', value=ta)
            if a['shape'] != 'text' and ma.get('text') != mb.get('text'):
                bad('text_changed', f'region {i}: label {ma.get("text")} -> {mb.get("text")}',
                    value=json.loads(ma['text']) if 'text' in ma else None)
            ia, ib = include_sense(ma), include_sense(mb)
            if ia != ib:
                vals = [dict(map(tuple_kv, r['meta'])).get('include') for r in inp]
                gm = re.search(r'^global .*?\binclude=(\S+)', text, re.M)
                bad('include_lost', f'region {i}: include {ma.get("include")} read back as {mb.get("include")}',
                    value=json.loads(ma['include']) if 'include' in ma else None,
                    global_include=gm.group(1) if gm else None)
        # --- fixed point
        if 's2' in real:
            if 'exc' in real['s2']:
                bad('serialize_exception', f'second serialize: {real["s2"]["exc"]} {real["s2"]["msg"]}',
                    has_inexpressible=False, exc=real['s2']['exc'])
            elif 'p2' in real:
                p2 = real['p2']
                if 'exc' in p2:
                    bad('parse_exception', f'second parse {p2["exc"]}: {p2["msg"]}', exc=p2['exc'], msg=p2['msg'],
                        text=real['s2']['text'], numeric_text=[])
                else:
                    same = sorted_regions(p2['regions']) == sorted_regions(out)
                    nan_text = any(v == {'special': 'nan'} for r in out
                                   for v in [r['text']] + [x[1] for x in r['meta'] if x[0] == 'text'])
                    if not (p2['eq'] and same):
                        k = next((i for i, (x, y) in enumerate(zip(sorted_regions(out), sorted_regions(p2['regions'])))
                                  if x != y), None)
                        bad('not_fixed_point', f'second parse differs from the first at region {k}: '
                            + fp_diff(out, p2['regions']),
                            only_include_added=fp_only_include_added(out, p2['regions']),
                            nan_only=same and nan_text,
                            bool_include_written=bool(re.search(r'include=(True|False)', text)))
        return V

    def finding_match(self, finding, v):
        fid, kind = finding['id'], v.get('kind')
        if fid == 'F3':
            return kind == 'serialize_exception' and v.get('has_inexpressible') and v.get('exc') in ('KeyError', 'ValueError')
        if fid == 'F4':
            if kind == 'include_lost':
                # the flag is the bool False, or it is 0 and was hoisted under the spelling of another region's False
                val = v.get('value') or {}
                return val == {'bool': False} or (val == {'int': '0'} and v.get('global_include') == 'False')
            # consequence at the fixed point: an unreadable bool include leaves the first parse without the key
            # (the second parse has the sign default)
            return kind == 'not_fixed_point' and v.get('only_include_added') and v.get('bool_include_written')
        if fid == 'F5':
            return kind == 'nondeterministic' and v.get('only_global_order')
        if fid == 'F35':
            # the frame has a non-default equinox/obstime and the region came back at its untransformed numbers
            return kind == 'coord_tolerance' and bool(v.get('nondefault_attrs')) and bool(v.get('untransformed'))
        if fid == 'F19':
            return (kind == 'parse_exception' and v.get('exc') == 'ValueError'
                    and "'text' must be a string" not in v.get('msg', '') and printed_degenerate(v.get('text', '')))
        return False

    def nontrivial(self, case, real):
        return any(expressible(s) for s in case['regions'])

    def bucket(self, case, real):
        specs = case['regions']
        fr = {s['frame'] for s in specs if expressible(s)}
        f = 'none' if not fr else 'pix' if fr == {'image'} else 'sky1' if len(fr) == 1 else 'mixed'
        b = 'bad' if any(not expressible(s) for s in specs) else 'ok'
        n = len(specs)
        k = 'malformed/' if case.get('kind') == 'malformed' else ''
        if any(s.get('attrs') for s in specs):
            k += 'attrs/'
        if any(s.get('numkind') for s in specs):
            k += 'nptypes/'
        return f'{k}{f}/{b}/n{"1" if n == 1 else "2-4" if n <= 4 else "5+"}/p{"lo" if case["precision"] <= 4 else "mid" if case["precision"] <= 8 else "hi"}'

    # ---------------------------------------------------------------- whole-run checks
    def extra_checks(self, rng, tier):
        V, info, n = [], {}, 0
        # (a) determinism: same region lists, fresh interpreters, different PYTHONHASHSEED
        gen = random.Random(rng.randrange(1 << 60))
        cases = self.corpus() + [c for c in self.generate(gen, 'quick')[:60 if tier == 'quick' else 400]]
        path = os.path.join('/tmp', f'c09_det_{os.getpid()}.json')
        with open(path, 'w') as f:
            json.dump(cases, f)
        outs = {}
        try:
            for hs in ('0', '1', '2', '3'):
                env = dict(os.environ, PYTHONHASHSEED=hs)
                pr = subprocess.run([sys.executable, '-m', 'harness.c09', '--child', path], cwd=VERIF, env=env,
                                    capture_output=True, text=True, timeout=600)
                if pr.returncode != 0:
                    V.append({'kind': 'harness_exception', 'detail': 'determinism child failed: ' + pr.stderr[-400:]})
                    break
                outs[hs] = json.loads(pr.stdout)
        finally:
            os.unlink(path)
        ndiff = 0
        if len(outs) == 4:
            for i, c in enumerate(cases):
                texts = [outs[hs][i] for hs in outs]
                n += len(texts)
                if any(t != texts[0] for t in texts):
                    ndiff += 1
                    other = next(t for t in texts if t != texts[0])
                    V.append({'kind': 'nondeterministic',
                              'detail': f'PYTHONHASHSEED changes the text: {texts[0]!r} vs {other!r}',
                              'only_global_order': differ_only_in_global_order(texts[0], other)})
        info['determinism'] = {'lists': len(cases), 'hash_seeds': 4, 'lists_with_differing_text': ndiff}
        # (b) bundled .reg files: parse -> serialize -> parse is a fixed point (real code only)
        import glob
        res = {}
        for fn in sorted(glob.glob(os.path.join(os.environ.get('REGIONS_SRC', '/repo'), 'regions/io/ds9/tests/data/*.reg'))):
            base = os.path.basename(fn)
            with open(fn) as fh:
                t0 = fh.read()
            for p in (3, 8, 12):
                n += 1
                p1 = _parse(t0)
                if 'exc' in p1:
                    res[base] = 'unreadable: ' + p1['exc']
                    break
                r1 = p1['regions']
                s1 = _serialize(r1, p)
                if 'exc' in s1:
                    V.append({'kind': 'serialize_exception', 'detail': f'{base}: {s1["exc"]} {s1["msg"]}',
                              'has_inexpressible': False, 'exc': s1['exc']})
                    break
                p2 = _parse(s1['text'])
                if 'exc' in p2:
                    V.append({'kind': 'parse_exception', 'detail': f'{base} p={p}: {p2["exc"]} {p2["msg"]}',
                              'exc': p2['exc'], 'text': s1['text']})
                    continue
                r2 = p2['regions']
                viol = file_roundtrip_violations(r1, r2, p)
                s2 = _serialize(r2, p)
                p3 = _parse(s2['text']) if 'text' in s2 else {'exc': 'serialize'}
                if 'exc' in p3:
                    V.append({'kind': 'parse_exception', 'detail': f'{base} p={p}: second round {p3["exc"]}',
                              'exc': p3['exc'], 'text': s2.get('text', '')})
                    continue
                r3 = p3['regions']
                if not (len(r2) == len(r3) and all(bool(a == b) for a, b in zip(r2, r3))
                        and sorted_regions([canon(r) for r in r2]) == sorted_regions([canon(r) for r in r3])):
                    viol.append({'kind': 'not_fixed_point', 'detail': f'{base} p={p}'})
                for v in viol:
                    v['detail'] = f'{base} p={p}: ' + v['detail']
                V += viol
                res[base] = f'{len(r1)} regions ok' if not viol else f'{len(viol)} violations'
        info['bundled_files'] = res
        return n, V, info


# ---------------------------------------------------------------------------- oracle helpers

def tuple_kv(kv):
    return kv[0], json.dumps(kv[1], sort_keys=True)


def sorted_regions(rs):
    return [dict(r, meta=sorted(map(tuple_kv, r['meta'])), visual=sorted(map(tuple_kv, r['visual']))) for r in rs]


def fp_diff(A, B):
    out = []
    for i, (a, b) in enumerate(zip(sorted_regions(A), sorted_regions(B))):
        for k in a:
            if a[k] != b[k]:
                if k in ('meta', 'visual'):
                    out.append(f'region {i} {k}: {[x for x in a[k] if x not in b[k]]} -> {[x for x in b[k] if x not in a[k]]}')
                else:
                    out.append(f'region {i} {k}: {a[k]} -> {b[k]}')
    return '; '.join(out)[:600]


def fp_only_include_added(A, B):
    if len(A) != len(B):
        return False
    for a, b in zip(sorted_regions(A), sorted_regions(B)):
        for k in a:
            if a[k] != b[k]:
                if k != 'meta':
                    return False
                if [x for x in a[k] if x not in b[k]] or [x for x in b[k] if x not in a[k]] != [('include', '{"int": "1"}')]:
                    return False
    return True


def py_num(v):
    if 'int' in v:
        return Fraction(v['int'])
    if 'bool' in v:
        return Fraction(int(v['bool']))
    if 'flt' in v:
        return Fraction(v['flt'][0])
    return None


def py_eq(a, b):
    x, y = py_num(a), py_num(b)
    if x is not None or y is not None:
        return x == y
    return a == b


def include_sense(meta):
    """region.meta.get('include', True) truthiness."""
    if 'include' not in meta:
        return True
    v = json.loads(meta['include'])
    n = py_num(v)
    if n is not None:
        return n != 0
    if 'str' in v:
        return v['str'] != ''
    return True


def is_py_float(s):
    try:
        float(s)
        return True
    except ValueError:
        return False


def printed_degenerate(text):
    """F19 predicate, on the text the writer produced: some printed size is not positive, or a printed
    inner size is not smaller than the outer one."""
    for line in text.split('\n'):
        m = split_shape_line(line)
        if not m:
            continue
        _, shape, toks, _ = m
        try:
            v = [Fraction(t) for t in toks]
        except ValueError:
            continue
        if shape == 'circle' and len(v) == 3 and v[2] <= 0:
            return True
        if shape in ('ellipse', 'box') and len(v) == 5 and (v[2] <= 0 or v[3] <= 0):
            return True
        if shape == 'annulus' and len(v) == 4 and (v[2] <= 0 or v[3] <= 0 or v[2] >= v[3]):
            return True
        if shape in ('ellipse', 'box') and len(v) == 7 and (min(v[2:6]) <= 0 or v[2] >= v[4] or v[3] >= v[5]):
            return True
    return False


def differ_only_in_global_order(a, b):
    la, lb = a.split('\n'), b.split('\n')
    if len(la) != len(lb):
        return False
    for x, y in zip(la, lb):
        if x == y:
            continue
        if not (x.startswith('global ') and y.startswith('global ')):
            return False
        if sorted(x) != sorted(y) or len(global_key_order(x)) < 2 or sorted(global_key_order(x)) != sorted(global_key_order(y)):
            return False
    return True


def file_roundtrip_violations(r1, r2, p):
    """bundled files: second parse equals the first up to the printed precision."""
    V = []
    if len(r1) != len(r2):
        return [{'kind': 'count_mismatch', 'detail': f'{len(r1)} -> {len(r2)}'}]
    H = half_unit(p)
    for i, (x, y) in enumerate(zip(r1, r2)):
        a, b = canon(x), canon(y)
        if (a['shape'], a['frame'], a['text']) != (b['shape'], b['frame'], b['text']):
            V.append({'kind': 'class_changed', 'detail': f'region {i}: {a["shape"]}/{a["frame"]} -> {b["shape"]}/{b["frame"]}'})
            continue
        ell = a['shape'] in ('ellipse', 'ellipseannulus')
        flat_a = [v for c in a['coords'] for v in c] + a['nums']
        flat_b = [v for c in b['coords'] for v in c] + b['nums']
        for u_, v_ in zip(flat_a, flat_b):
            d = abs(Fraction(u_) - Fraction(v_))
            d = min(d, abs(360 - d))
            if d > (2 * H if ell else H) + ulp_slop(Fraction(u_)) * 4:
                V.append({'kind': 'coord_tolerance', 'detail': f'region {i}: {float(Fraction(u_))} -> {float(Fraction(v_))}'})
        if sorted(map(tuple_kv, a['meta'])) != sorted(map(tuple_kv, b['meta'])) or \
           sorted(map(tuple_kv, a['visual'])) != sorted(map(tuple_kv, b['visual'])):
            inc = dict(map(tuple_kv, a['meta'])).get('include')
            V.append({'kind': 'not_fixed_point', 'detail': f'region {i}: meta/visual {a["meta"]} {a["visual"]} -> {b["meta"]} {b["visual"]}',
                      'all_excluded': False, 'include': inc})
    return V


# ---------------------------------------------------------------------------- child process (determinism)

def _child(path):
    cases = json.load(open(path))
    out = []
    for c in cases:
        regs = [build(s) for s in c['regions'] if expressible(s)]
        s = _serialize(regs, c['precision']) if regs else {'text': ''}
        out.append(s.get('text', 'EXC ' + s.get('exc', '')))
    json.dump(out, sys.stdout)


if __name__ == '__main__':
    if len(sys.argv) == 3 and sys.argv[1] == '--child':
        _child(sys.argv[2])
