"""C10 — DS9 text is read according to the DS9 region-file conventions.

A grammar-based generator produces DS9 files as STRUCTURED statement lists.  Every file is
rendered twice from the same structure: to TEXT for the real `Regions.parse(text, format='ds9')`
and to TOKENS for the Lean reference interpreter `Spec.Ds9.interp` (Driver/C10Main.lean).
The canonicalised results are compared: exactly (rationals) where the notation is exact,
within 1e-9 relative where sexagesimal division, radians or a non-dyadic decimal is involved.
The agreement of the real parser with the reference on the generated files IS the decision
procedure for conformance; the theorems of Props/C10.lean are about the reference.

oracle(): clauses checked on the real parser alone (metamorphic, no reference involved).
"""
import math
import os
import shutil
import tempfile
import warnings
from fractions import Fraction

from .common import frac
from .runner import PropertyCheck

# ------------------------------------------------------------------ vocabulary

FRAME_OF = {'image': 'image', 'fk5': 'fk5', 'j2000': 'fk5', 'fk4': 'fk4', 'b1950': 'fk4',
            'icrs': 'icrs', 'galactic': 'galactic', 'ecliptic': 'ecliptic'}
FRAME_WORDS = ['image', 'image', 'image', 'fk5', 'fk5', 'j2000', 'fk4', 'b1950', 'icrs', 'icrs',
               'galactic', 'galactic', 'ecliptic']
EQUATORIAL = {'fk5', 'fk4', 'icrs'}
BAD_FRAMES = ['physical', 'detector', 'amplifier', 'linear', 'tile', 'wcs', 'wcsa', 'wcsb', 'wcsp', 'wcsz']
SHAPES = ['circle', 'circle', 'ellipse', 'ellipse', 'box', 'box', 'polygon', 'line', 'point', 'text',
          'annulus', 'annulus']
BAD_SHAPES = {'vector': 4, 'ruler': 4, 'compass': 3, 'projection': 5, 'panda': 8, 'epanda': 11, 'bpanda': 11}
SUFFIX_CH = {'': '', '"': '"', "'": "'", 'd': 'd', 'r': 'r', 'i': 'i', 'p': 'p'}
CLOSE = {'{': '}', '"': '"', "'": "'", '': ''}
FLAGS = ['select', 'highlite', 'fixed', 'edit', 'move', 'delete', 'source', 'rotate']
AREA_KINDS = ('circle', 'ellipse', 'rectangle', 'polygon')
LINE_CHARS = ['\x0b', '\x0c', '\x1c', '\x1d', '\x1e', '\x85', '\u2028', '\u2029', '\r']
POINT_SYMBOLS = ['circle', 'box', 'diamond', 'cross', 'x', 'arrow', 'boxcircle']
COLORS = ['red', 'green', 'blue', 'cyan', 'magenta', 'yellow', 'white', 'black', 'pink', 'Orange',
          '#0ff', '#800', '#00aa00', '#888800000000']
REAL_FRAME = {'fk5': 'fk5', 'fk4': 'fk4', 'icrs': 'icrs', 'galactic': 'galactic',
              'barycentricmeanecliptic': 'ecliptic'}


def vcase(rng, w):
    r = rng.random()
    if r < 0.6:
        return w
    if r < 0.8:
        return w.upper()
    if r < 0.95:
        return w.capitalize()
    return ''.join(c.upper() if rng.random() < 0.5 else c for c in w)


# ------------------------------------------------------------------ numbers

def dy_text(v, rng):
    """decimal text of a dyadic rational (<= 4 fractional bits), with optional redundant zeros."""
    if v.denominator == 1:
        txt = str(v.numerator)
        if rng.random() < 0.15:
            txt += rng.choice(['.0', '.00'])
    else:
        txt = ('%.6f' % float(v)).rstrip('0')
        if rng.random() < 0.15:
            txt += '0'
    return txt


def dec(rng, lo, hi, exact, suf='', plus=False):
    """a decimal literal in [lo, hi]; exact => dyadic with <= 4 fractional bits."""
    if exact:
        v = Fraction(rng.randint(math.ceil(lo * 16), max(math.ceil(lo * 16), int(hi * 16))), 16)
        if rng.random() < 0.5 and lo <= int(v) <= hi:
            v = Fraction(int(v))
        txt = dy_text(v, rng)
    else:
        k = rng.randint(1, 7)
        txt = '%.*f' % (k, rng.uniform(lo, hi))
        if not (lo <= float(txt) <= hi):
            txt = '%.7f' % ((lo + hi) / 2)
    if plus and not txt.startswith('-') and rng.random() < 0.1:
        txt = '+' + txt
    ex = Fraction(txt) == Fraction(float(txt)) and Fraction(txt).denominator <= 1024
    # the suffix LETTER is case-insensitive in DS9: written in either case, per occurrence
    return {'k': 'dec', 'txt': txt, 'suf': suf, 'sufw': suf.upper() if rng.random() < 0.3 else suf, 'ex': bool(ex)}


def sexa(rng, kind, amax, signed):
    """a:b:c / ahbmcs / adbmcs with 0 <= a < amax."""
    a = rng.randint(0, amax - 1)
    b = rng.randint(0, 59)
    c = rng.choice(['%02d' % rng.randint(0, 59), '%06.3f' % rng.uniform(0, 59.99), '%.2f' % rng.uniform(0, 59.9),
                    '%d' % rng.randint(0, 59), '00', '30'])
    pad = rng.random() < 0.7
    sg = ''
    if signed:
        sg = rng.choice(['+', '-', '', '-'])
    elif rng.random() < 0.15:
        sg = '+'
    # the letters h d m s are case-insensitive: each one in either case
    letters = ''.join(x.upper() if rng.random() < 0.3 else x for x in {'hms': 'hms', 'dms': 'dms'}.get(kind, ''))
    return {'k': kind, 'sgn': sg, 'a': ('%02d' % a) if pad else str(a), 'b': ('%02d' % b) if pad else str(b),
            'c': c, 'L': letters, 'ex': False}


def num_text(n):
    if n['k'] == 'dec':
        return n['txt'] + n.get('sufw', n['suf'])
    if n['k'] == 'colon':
        return f"{n['sgn']}{n['a']}:{n['b']}:{n['c']}"
    L = n.get('L') or n['k']
    return f"{n['sgn']}{n['a']}{L[0]}{n['b']}{L[1]}{n['c']}{L[2]}"


def num_tok(n):
    if n['k'] == 'dec':
        return {'n': ['dec', frac(Fraction(n['txt'])), n['suf']]}
    return {'n': [n['k'], n['sgn'] == '-', int(n['a']), int(n['b']), frac(Fraction(n['c']))]}


def num_value(n):
    """value of a decimal token as the double the file text denotes (first principles)."""
    return Fraction(float(n['txt']))


class Gen:
    """generator of one DS9 file (structured)."""

    def __init__(self, rng, tier):
        self.rng = rng
        self.tier = tier
        self.semi_any = False     # ';' also inside tag values (regression guard for F104)

    # --- coordinates / sizes in the notation of frame `fr` (None => pick a style at random)
    def pos_pair(self, fr, exact):
        rng = self.rng
        if fr == 'image':
            suf = 'i' if rng.random() < 0.12 else ''
            return [dec(rng, -40, 2000, exact, suf, plus=True), dec(rng, -40, 2000, exact, suf, plus=True)]
        eq = fr in EQUATORIAL
        r = rng.random()
        if r < 0.45:
            lon = dec(rng, 0, 359.9, exact, rng.choice(['', '', 'd']), plus=True)
        elif r < 0.55:
            lon = dec(rng, 0, 6.28, exact, 'r')
            lon['ex'] = False
        elif r < 0.8:
            lon = sexa(rng, 'colon', 24 if eq else 360, False)
        elif r < 0.92:
            lon = sexa(rng, 'hms', 24, False)
        else:
            lon = sexa(rng, 'dms', 360, False)
        r = rng.random()
        if lon['k'] != 'dec' and r < 0.8:
            r = 0.6 + r / 4      # sexagesimal longitudes mostly come with sexagesimal latitudes
        if r < 0.45:
            lat = dec(rng, -89.9, 89.9, exact, rng.choice(['', '', 'd']), plus=True)
        elif r < 0.55:
            lat = dec(rng, -1.57, 1.57, exact, 'r')
            lat['ex'] = False
        elif r < 0.88:
            lat = sexa(rng, 'colon', 90, True)
        else:
            lat = sexa(rng, 'dms', 90, True)
        return [lon, lat]

    def sizes(self, fr, n, exact):
        """n strictly increasing sizes in one unit."""
        rng = self.rng
        if fr == 'image':
            suf = 'i' if rng.random() < 0.1 else ''
            lo, hi = 0.5, 60
        else:
            suf = rng.choice(['"', '"', "'", '', 'd', 'r'])
            lo, hi = {'"': (0.5, 400), "'": (0.1, 50), '': (0.001, 2), 'd': (0.001, 2), 'r': (0.00001, 0.03)}[suf]
        if exact:
            lo16, hi16 = max(1, math.ceil(lo * 16)), max(int(hi * 16), 48)
            vals = sorted(rng.sample(range(lo16, hi16 + 1), n))
            out = []
            for v in vals:
                d = dec(rng, 0, 0, True, suf)
                d['txt'] = dy_text(Fraction(v, 16), rng)
                out.append(d)
            return out
        out = []
        last = Fraction(0)
        for i in range(n):
            a = lo + (hi - lo) * i / n
            b = lo + (hi - lo) * (i + 1) / n
            d = dec(rng, a + (b - a) * 0.05, b, False, suf)
            if Fraction(d['txt']) <= last:
                d['txt'] = str(float(last) + (hi - lo) / (4 * n))
                d['ex'] = False
            last = Fraction(d['txt'])
            out.append(d)
        return out

    def angle(self, exact):
        rng = self.rng
        r = rng.random()
        if r < 0.12:
            return dec(rng, 0, 6.25, exact, 'r')
        return dec(rng, -90 if rng.random() < 0.15 else 0, 359.9, exact, 'd' if r < 0.25 else '')

    def args(self, shape, fr, exact):
        rng = self.rng
        f = fr or rng.choice(['image', 'fk5', 'galactic'])
        if shape in ('point', 'text'):
            return self.pos_pair(f, exact)
        if shape == 'circle':
            return self.pos_pair(f, exact) + self.sizes(f, 1, exact)
        if shape == 'line':
            return self.pos_pair(f, exact) + self.pos_pair(f, exact)
        if shape == 'polygon':
            out = []
            for _ in range(rng.choice([3, 3, 4, 4, 5, 6])):
                out += self.pos_pair(f, exact)
            return out
        if shape == 'annulus':
            return self.pos_pair(f, exact) + self.sizes(f, rng.choice([2, 2, 3, 3, 4, 5]), exact)
        # ellipse / box: n pairs + angle
        n = rng.choice([1, 1, 1, 2, 2, 3, 4])
        a = self.sizes(f, n, exact)
        b = self.sizes(f, n, exact)
        flat = []
        for x, y in zip(a, b):
            flat += [x, y]
        return self.pos_pair(f, exact) + flat + [self.angle(exact)]

    # --- property lists
    def text_value(self, allow_semi):
        rng = self.rng
        words = ['Circle', 'Region', 'A1', 'foo', 'bar', 'src', 'M51', 'NGC 1333', 'bkg', 'x', 'Hello World',
                 'alpha', 'beta 2', 'Ellipse Annulus']
        r = rng.random()
        d = rng.choice(['{', '{', '{', '{', '"', '"', "'"])
        others = [c for c in '{\'"' if c != d and CLOSE[c] != CLOSE[d]] + ([] if d == '{' else ['}'])
        if r < 0.5:
            s = ' '.join(rng.choice(words) for _ in range(rng.randint(1, 3)))
            cls = 'plain'
        elif r < 0.78:
            punct = ',#=()+-_.:/*!?@%&[]<>~^' + (';' if allow_semi else '')
            parts = []
            for _ in range(rng.randint(1, 4)):
                parts.append(rng.choice(words))
                parts.append(rng.choice(list(punct) + [' ', ' ', ' - ', ', ', ' # '] +
                                        [' ' + o + 'q' for o in others] + ['a' + o + ' ' for o in others]
                                        + ([';', '; '] if allow_semi else [])))
            parts.append(rng.choice(words))
            s = ''.join(parts)
            cls = 'punct'
        elif r < 0.84:
            s = rng.choice(['007', '12', '1e3', '3.50', '-4', ' 7 ', '0', '1', '2.5', '1_000'])
            cls = 'numeric'
        elif r < 0.9:
            w = rng.choice(words)
            s = rng.choice([o + w for o in others] + [w + o for o in others if o != '{'] +
                           (['{' + w] if d == '{' else ['{' + w + '}']))
            cls = 'edge'
        else:
            s = rng.choice([' padded ', '  two  spaces', 'trail ', ' lead', '', 'a  b'])
            cls = 'spaces'
        if rng.random() < 0.12:
            # characters that Unicode (str.splitlines) counts as line boundaries but DS9 does not: only '\n' (and ';'
            # outside a delimited value) ends a statement, so inside {} "" '' they are ordinary text -- at the start, in the
            # middle or at the end of the value.  A lone '\r' too (in a FILE it is an old-Mac line end, see read_real).
            c = rng.choice(LINE_CHARS)
            where = rng.choice(['start', 'middle', 'end'])
            if where == 'start':
                s = c + s
            elif where == 'end':
                s = s + c
            else:
                k = rng.randint(0, len(s))
                s = s[:k] + c + s[k:]
            cls = 'linechars' if cls != 'numeric' else cls
        s = s.replace(CLOSE[d], '')
        return d, s, cls

    def props(self, scope, shape):
        rng = self.rng
        pool = [('color', 3), ('width', 2), ('fill', 1), ('dash', 1.2), ('font', 1), ('include', 1.5),
                ('point', 3 if shape == 'point' else 0.4), ('textangle', 2.5 if shape == 'text' else 0.3)]
        pool += [(f, 0.25) for f in FLAGS]
        if scope == 'local':
            pool += [('text', 4 if shape == 'text' else 3), ('tag', 1.5)]
        keys = []
        n = rng.choice([0, 1, 1, 2, 2, 3, 4, 6]) if scope == 'local' else rng.choice([1, 2, 3, 5, 8])
        names = [k for k, _ in pool]
        weights = [w for _, w in pool]
        while len(keys) < n:
            k = rng.choices(names, weights)[0]
            if k in keys and k != 'tag':
                if len(set(keys)) >= len(names) - 1:
                    break
                continue
            if k == 'tag' and keys.count('tag') >= 3:
                continue
            keys.append(k)
        items = []
        for k in keys:
            d = ''
            if k == 'color':
                v = rng.choice(COLORS)
            elif k == 'width':
                v = rng.choice(['1', '2', '3', '4', '2.5', '0.5'])
            elif k in ('fill', 'dash', 'include') or k in FLAGS:
                v = rng.choice(['0', '1'])
            elif k == 'font':
                parts = [rng.choice(['helvetica', 'times', 'courier']), str(rng.choice([8, 10, 12, 14, 24])),
                         rng.choice(['normal', 'bold']), rng.choice(['roman', 'italic'])]
                v = ' '.join(parts[:rng.choice([4, 4, 4, 3, 2, 1])])
                d = rng.choice(['"', '"', '"', "'", '{'])
            elif k == 'point':
                v = rng.choice(POINT_SYMBOLS) + rng.choice(['', '', ' 11', ' 7', ' 20'])
            elif k == 'textangle':
                v = rng.choice(['0', '30', '45.5', '270', '18.25'])
            elif k == 'text':
                d, v, cls = self.text_value(allow_semi=True)
            elif k == 'tag':
                d, v, cls = self.text_value(allow_semi=self.semi_any)
                if cls == 'numeric':
                    d, v = '{', 'grp ' + v
            key = vcase(rng, k)
            eq = '=' if rng.random() < 0.9 else rng.choice([' = ', '= ', ' ='])
            items.append({'key': key, 'eq': eq, 'd': d, 'val': v})
            if k == 'dash' and rng.random() < 0.6 and 'dashlist' not in [i['key'].lower() for i in items]:
                items.append({'key': vcase(rng, 'dashlist'), 'eq': '=', 'd': '', 'val': rng.choice(['8 3', '4 4', '2 6'])})
        return items

    def region(self, fr, shape=None, unrep=False):
        rng = self.rng
        shape = shape or rng.choice(SHAPES)
        exact = rng.random() < 0.6
        args = self.args(shape, fr, exact)
        st = {'t': 'region', 'sign': rng.choice(['', '', '', '', '-', '-', '+']), 'word': vcase(rng, shape), 'shape': shape,
              'args': args}
        if unrep and fr is not None:
            self.make_unrepresentable(st, fr)
        self.style(st)
        if rng.random() < 0.55:
            st['props'] = {'hash': rng.choice([' # ', ' # ', ' #', '# ', '#']), 'items': self.props('local', shape),
                           'note': rng.choice(['', '', '', 'This is a Comment', 'note', 'background', 'checked by hand'])}
        return st

    def style(self, st):
        rng = self.rng
        r = rng.random()
        if r < 0.6:
            st['open'], st['close'] = '(', ')'
        elif r < 0.72:
            st['open'], st['close'] = rng.choice([' (', '( ', ' ( ']), rng.choice([')', ' )'])
        else:
            st['open'], st['close'] = ' ', ''
        n = len(st['args'])
        r = rng.random()
        if r < 0.55:
            seps = [','] * (n - 1)
        elif r < 0.7:
            seps = [' '] * (n - 1)
        elif r < 0.8:
            seps = [', '] * (n - 1)
        else:
            seps = [rng.choice([',', ' ', ', ', ' , ', '  ', ' ,']) for _ in range(n - 1)]
        st['seps'] = seps
        st['lead'] = rng.choice(['', '', '', '', ' ', '  '])
        st['trail'] = rng.choice(['', '', '', ' '])

    def make_unrepresentable(self, st, fr):
        """swap one number for a DS9 notation that has no representation in frame `fr`."""
        rng = self.rng
        shape, args = st['shape'], st['args']
        npos = {'point': 2, 'text': 2, 'circle': 2, 'line': 4, 'polygon': len(args)}.get(shape, 2)
        has_angle = shape in ('ellipse', 'box')
        size_idx = list(range(npos, len(args) - (1 if has_angle else 0)))
        if size_idx and rng.random() < 0.5:
            i = rng.choice(size_idx)
            if fr == 'image':
                args[i] = dec(rng, 1, 30, True, rng.choice(['"', "'", 'd', 'r', 'p']))
            else:
                args[i] = dec(rng, 1, 30, True, rng.choice(['i', 'p']))
        else:
            i = rng.randrange(npos)
            if fr == 'image':
                args[i] = rng.choice([dec(rng, 1, 80, True, rng.choice(['d', 'r', 'p'])),
                                      sexa(rng, 'colon', 24, False), sexa(rng, 'hms', 24, False),
                                      sexa(rng, 'dms', 90, True)])
            else:
                args[i] = dec(rng, 1, 80, True, rng.choice(['i', 'p']))
        st['unrep'] = True

    def badshape(self, fr):
        rng = self.rng
        name = rng.choice(list(BAD_SHAPES))
        n = BAD_SHAPES[name]
        suf = '' if fr in (None, 'image') else rng.choice(['', '"'])
        args = [dec(rng, 1, 300, True, '') for _ in range(2)] + [dec(rng, 1, 90, True, suf if i < 2 else '') for i in range(n - 2)]
        st = {'t': 'badshape', 'sign': rng.choice(['', '', '-']), 'word': vcase(rng, name), 'shape': name, 'args': args}
        self.style(st)
        if rng.random() < 0.4:
            st['props'] = {'hash': ' # ', 'items': self.props('local', 'circle'), 'note': ''}
        return st

    def composite(self, fr):
        """a composite: header with properties, 2..4 member lines of which all but the last end in `||`.
        The header is spelled `# composite(` or `composite(` (as DS9 writes it).  Header values keep their case (F105
        class) and the last member may be an unsupported shape (F106 class)."""
        rng = self.rng
        items = [{'key': 'composite', 'eq': '=', 'd': '', 'val': '1'}]
        if rng.random() < 0.9:
            for p in self.props('local', None):
                if p['key'].lower() not in ('composite',):
                    items.append(p)
        if rng.random() < 0.3 and not any(p['key'].lower() == 'include' for p in items):
            items.append({'key': 'include', 'eq': '=', 'd': '', 'val': '0'})
        f = fr or 'image'
        head = {'t': 'composite', 'pre': '# ' if rng.random() < 0.8 else '', 'word': 'composite',
                'args': self.pos_pair(f, True) + [dec(rng, 0, 359, True)], 'items': items}
        if not head['pre']:
            head['word'] = vcase(rng, 'composite')
        out = [head]
        n = rng.choice([2, 2, 3, 3, 4])
        for i in range(n):
            last = i == n - 1
            r = rng.random()
            if r < 0.12:
                st = self.badshape(fr)                   # also as the LAST member (F106 class)
            elif not last and r < 0.2 and fr is not None:
                st = self.region(fr, unrep=True)
            else:
                st = self.region(fr)
            if not last:
                st['cont'] = rng.choice([' ||', ' ||', '||', ' || '])
            out.append(st)
        return out

    def comment(self):
        rng = self.rng
        body = rng.choice(['Region file format: DS9 version 4.1', 'Filename: foo.fits', 'a comment', 'circle(1,2,3)',
                           'fk5', 'global color=red', '-box(1,2,3,4,5) # color=red', '', 'physical', 'include=0',
                           'tile 2', 'TODO check annulus(1,2,3,4)'])
        return {'t': 'comment', 'text': rng.choice(['# ', '# ', '#', '## ']) + body}

    def file(self):
        rng = self.rng
        self.semi_any = rng.random() < 0.3
        stmts = []
        if rng.random() < 0.4:
            stmts.append({'t': 'comment', 'text': '# Region file format: DS9 version 4.1'})
        if rng.random() < 0.4:
            stmts.append({'t': 'global', 'word': vcase(rng, 'global'), 'items': self.props('global', None)})
        cur = None
        n = rng.randint(1, 12 if self.tier == 'quick' else 20)
        kinds = ['frame', 'badframe', 'global', 'comment', 'blank', 'badshape', 'unrep', 'region', 'composite']
        for _ in range(n):
            k = rng.choices(kinds, [40, 5, 6, 6, 3, 6, 0, 34, 2] if cur is None else [14, 5, 6, 6, 3, 8, 5, 53, 9])[0]
            if k == 'composite':
                stmts += self.composite(cur)
                if rng.random() < 0.35:
                    stmts += self.composite(cur)         # two composites in a row
                if rng.random() < 0.7:
                    stmts.append(self.region(cur))       # a plain region after it must not inherit anything
            elif k == 'frame':
                w = rng.choice(FRAME_WORDS)
                stmts.append({'t': 'frame', 'word': vcase(rng, w)})
                cur = FRAME_OF[w]
            elif k == 'badframe':
                stmts.append({'t': 'badframe', 'word': vcase(rng, rng.choice(BAD_FRAMES))})
                cur = None
            elif k == 'global':
                stmts.append({'t': 'global', 'word': vcase(rng, 'global'), 'items': self.props('global', None)})
            elif k == 'comment':
                stmts.append(self.comment())
            elif k == 'blank':
                stmts.append({'t': 'blank', 'text': rng.choice(['', '', '  '])})
            elif k == 'badshape':
                stmts.append(self.badshape(cur))
            elif k == 'unrep':
                stmts.append(self.region(cur, unrep=True))
            else:
                stmts.append(self.region(cur))
        # physical layout: a comment always ends its physical line
        r = rng.random()
        p_join = 0.0 if r < 0.3 else (1.0 if r < 0.42 else 0.25)
        lines = [[]]
        for s in stmts:
            if lines[-1] and (lines[-1][-1]['t'] == 'comment' or rng.random() >= p_join):
                lines.append([])
            lines[-1].append(s)
        return {'kind': 'file', 'lines': lines, 'join': rng.choice([';', ';', '; ', ' ; ']),
                'final_nl': rng.random() < 0.7}


# ------------------------------------------------------------------ rendering

def prop_text(p):
    return f"{p['key']}{p['eq']}{p['d']}{p['val']}{CLOSE[p['d']]}"


def prop_tok(p):
    return {'p': [p['key'], p['d'], p['val']]}


def stmt_text(s, plain=None):
    """plain: None = as generated, 'paren' = shape(a,b,c), 'bare' = shape a b c."""
    t = s['t']
    if t in ('frame', 'badframe'):
        return s['word']
    if t == 'global':
        return s['word'] + ' ' + ' '.join(prop_text(p) for p in s['items'])
    if t == 'comment':
        return s['text']
    if t == 'blank':
        return s['text']
    if t == 'composite':
        # DS9 writes `# composite(x,y,angle) || composite=1 props`; the properties follow the `||` without a `#`
        return (s['pre'] + s['word'] + '(' + ','.join(num_text(a) for a in s['args']) + ') || '
                + ' '.join(prop_text(p) for p in s['items']))
    args = [num_text(a) for a in s['args']]
    if plain == 'paren':
        body = s['word'] + '(' + ','.join(args) + ')'
    elif plain == 'bare':
        body = s['word'] + ' ' + ' '.join(args)
    else:
        body = s['word'] + s['open']
        for i, a in enumerate(args):
            body += a + (s['seps'][i] if i < len(args) - 1 else '')
        body += s['close']
    out = (s['lead'] if plain is None else '') + s['sign'] + body
    if s.get('cont'):
        out += s['cont']             # ' ||': the line belongs to a composite that goes on
    if s.get('props'):
        pr = s['props']
        out += pr['hash'] + ' '.join(prop_text(p) for p in pr['items'])
        if pr['note']:
            out += ' ' + pr['note']
    return out + (s['trail'] if plain is None else '')


def stmt_toks(s):
    t = s['t']
    if t in ('frame', 'badframe'):
        return [{'w': s['word']}]
    if t == 'global':
        return [{'w': s['word']}] + [prop_tok(p) for p in s['items']]
    if t == 'comment':
        return ['#', {'c': s['text'].lstrip('#').strip()}]
    if t == 'blank':
        return []
    if t == 'composite':
        out = (['#'] if s['pre'] else []) + [{'w': s['word']}, '(']
        for i, a in enumerate(s['args']):
            out += [num_tok(a)] + ([','] if i < len(s['args']) - 1 else [])
        return out + [')', '||'] + [prop_tok(p) for p in s['items']]
    out = []
    if s['sign']:
        out.append(s['sign'])
    out.append({'w': s['word']})
    if '(' in s['open']:
        out.append('(')
    for i, a in enumerate(s['args']):
        out.append(num_tok(a))
        if i < len(s['args']) - 1 and ',' in s['seps'][i]:
            out.append(',')
    if ')' in s['close']:
        out.append(')')
    if s.get('cont'):
        out.append('||')
    if s.get('props'):
        out.append('#')
        out += [prop_tok(p) for p in s['props']['items']]
        if s['props']['note']:
            out.append({'c': s['props']['note']})
    return out


def flat(case):
    return [s for line in case['lines'] for s in line]


def render_text(lines, join=';', final_nl=True, plain=None):
    return '\n'.join(join.join(stmt_text(s, plain) for s in line) for line in lines) + ('\n' if final_nl else '')


def render_toks(case):
    out = []
    for li, line in enumerate(case['lines']):
        for si, s in enumerate(line):
            out += stmt_toks(s)
            if si < len(line) - 1:
                out.append(';')
        if li < len(case['lines']) - 1 or case['final_nl']:
            out.append('nl')
    return out


def relayout(stmts, mode):
    """'nl': one statement per physical line; 'semi': everything ';'-joined, except that a
    comment always ends its physical line (DS9 comments run to the end of the line)."""
    if mode == 'nl':
        return [[s] for s in stmts]
    lines = [[]]
    for s in stmts:
        if lines[-1] and lines[-1][-1]['t'] == 'comment':
            lines.append([])
        lines[-1].append(s)
    return lines


# ------------------------------------------------------------------ canonical form of real regions

def _q(unit, value):
    import astropy.units as u
    v = Fraction(float(value))
    if unit == u.deg:
        return ['deg', frac(v)]
    if unit == u.arcsec:
        return ['deg', frac(v / 3600)]
    if unit == u.arcmin:
        return ['deg', frac(v / 60)]
    if unit == u.hourangle:
        return ['deg', frac(v * 15)]
    if unit == u.rad:
        return ['rad', frac(v)]
    return ['unit:' + str(unit), frac(v)]


def _qty(x, sky):
    if hasattr(x, 'unit'):
        return _q(x.unit, x.value)
    return ['pix' if not sky else 'bare', frac(Fraction(float(x)))]


def _coords(c, sky):
    import numpy as np
    if sky:
        lon, lat = c.data.lon, c.data.lat
        lv, bv = np.atleast_1d(lon.value), np.atleast_1d(lat.value)
        return [[_q(lon.unit, a), _q(lat.unit, b)] for a, b in zip(lv, bv)]
    xs, ys = np.atleast_1d(c.x), np.atleast_1d(c.y)
    return [[['pix', frac(Fraction(float(a)))], ['pix', frac(Fraction(float(b)))]] for a, b in zip(xs, ys)]


def _numstr(v):
    """numeric property value -> exact rational string; anything else -> ['raw', repr]."""
    try:
        if isinstance(v, bool):
            return ['raw', repr(v)]
        return frac(Fraction(str(v)))
    except (ValueError, TypeError, ZeroDivisionError):
        return ['raw', repr(v)]


def _typed(v):
    return ['s', v] if isinstance(v, str) else [type(v).__name__, repr(v)]


def real_view(r, kind):
    from regions.io.ds9.core import ds9_valid_symbols
    meta, vis = dict(r.meta), dict(r.visual)
    view = {}
    if kind == 'text':
        view['text'] = _typed(r.text)
    elif 'text' in meta:
        view['text'] = _typed(meta['text'])
    if 'tag' in meta:
        view['tag'] = [_typed(t) for t in meta['tag']] if isinstance(meta['tag'], list) else _typed(meta['tag'])
    for f in FLAGS:
        if f in meta:
            view[f] = _numstr(meta[f])
    color = vis.get('color', vis.get('edgecolor'))
    if 'facecolor' in vis and vis.get('facecolor') != vis.get('edgecolor'):
        color = ['face/edge differ', repr(vis.get('facecolor')), repr(vis.get('edgecolor'))]
    if color is not None:
        view['color'] = color
    w = vis.get('linewidth', vis.get('markeredgewidth'))
    if w is not None:
        view['width'] = _numstr(w)
    if vis.get('fill') is True:
        view['fill'] = True
    if 'linestyle' in vis:
        ls = vis['linestyle']
        view['dash'] = True
        if isinstance(ls, tuple):
            view['dashlist'] = [int(x) for x in ls[1]]
    if 'fontname' in vis:
        view['font'] = [vis['fontname'], _numstr(vis.get('fontsize')), vis.get('fontweight'), vis.get('fontstyle')]
    if 'marker' in vis:
        name = [k for k, v in ds9_valid_symbols.items() if v is vis['marker'] or (isinstance(v, str) and v == vis['marker'])]
        view['point'] = [name[0] if name else repr(vis['marker']),
                         _numstr(vis['markersize']) if 'markersize' in vis else None]
    if 'rotation' in vis:
        view['textangle'] = _numstr(vis['rotation'])
    extra = sorted(set(meta) - set(FLAGS) - {'text', 'tag', 'include'})
    if extra:
        view['other_meta'] = extra
    return view


def expected_view(kind, props):
    """the same view, from the reference's effective DS9 property list.
    The mapping DS9 key -> regions meta/visual is the package's documented translation
    (assumption, see `assumptions`): fill only for circle/ellipse/box/polygon, dash not for
    point/text, point only for points, textangle only for text."""
    p = {}
    tags = []
    for k, d, v in props:
        if k == 'tag':
            tags.append(['s', v])
        elif k not in p:
            p[k] = v
    view = {}
    if kind == 'text':
        view['text'] = ['s', p.get('text', '')]
    elif 'text' in p:
        view['text'] = ['s', p['text']]
    if tags:
        view['tag'] = tags
    for f in FLAGS:
        if f in p:
            view[f] = _numstr(p[f])
    if 'color' in p:
        view['color'] = p['color']
    if 'width' in p:
        view['width'] = _numstr(p['width'])
    if p.get('fill') == '1' and kind in AREA_KINDS:
        view['fill'] = True
    if p.get('dash') == '1' and kind not in ('point', 'text'):
        view['dash'] = True
        if 'dashlist' in p:
            view['dashlist'] = [int(x) for x in p['dashlist'].split()]
    if 'font' in p:
        vals = p['font'].split()
        vals += ['10', 'normal', 'roman'][len(vals) - 1:]
        view['font'] = [vals[0], _numstr(vals[1]), vals[2], vals[3].replace('roman', 'normal')]
    if kind == 'point' and 'point' in p:
        vals = p['point'].split()
        view['point'] = [vals[0], _numstr(vals[1]) if len(vals) > 1 else None]
    if kind == 'text' and 'textangle' in p:
        view['textangle'] = _numstr(p['textangle'])
    return view


SIZE_ATTRS = {'circle': ['radius'], 'ellipse': ['width', 'height'], 'rectangle': ['width', 'height'],
              'circleannulus': ['inner_radius', 'outer_radius'],
              'ellipseannulus': ['inner_width', 'inner_height', 'outer_width', 'outer_height'],
              'rectangleannulus': ['inner_width', 'inner_height', 'outer_width', 'outer_height']}


def canon_region(r):
    cls = type(r).__name__
    sky = cls.endswith('SkyRegion')
    kind = cls.replace('PixelRegion', '').replace('SkyRegion', '').lower()
    # EVERY coordinate object of the region (centre | all vertices | start AND end), each with its own frame
    if kind in ('polygon',):
        objs = [r.vertices]
    elif kind == 'line':
        objs = [r.start, r.end]
    else:
        objs = [r.center]
    pts, ptframes = [], []
    for c in objs:
        is_sky = hasattr(c, 'frame')
        cp = _coords(c, is_sky)
        pts += cp
        ptframes += [REAL_FRAME.get(c.frame.name, 'other:' + c.frame.name) if is_sky else 'image'] * len(cp)
    frame = ptframes[0] if len(set(ptframes)) == 1 else 'mixed:' + ','.join(ptframes)
    if ('image' in ptframes) == sky:
        frame = 'mixed:' + ','.join(ptframes)
    sizes = [_qty(getattr(r, a), sky) for a in SIZE_ATTRS.get(kind, [])]
    angle = _qty(r.angle, True) if kind in ('ellipse', 'rectangle', 'ellipseannulus', 'rectangleannulus') else None
    inc = r.meta.get('include', True)
    return {'kind': kind, 'frame': frame, 'ptframes': ptframes, 'pts': pts, 'sizes': sizes, 'angle': angle,
            'incl': bool(int(inc)) if not isinstance(inc, str) else inc, 'view': real_view(r, kind)}


def read_real(text, tag):
    """the FILE path: write `text` to a file and `Regions.read` it.  Which spelling of the call is used is a function of
    the text (no randomness here): extension '' / .txt (format= required) / .reg / .ds9 (format= given or identified),
    str or pathlib.Path, and -- second read -- CRLF line ends or a toggled final newline."""
    import hashlib
    import pathlib
    import shutil
    import tempfile
    from regions import Regions
    h = int(hashlib.sha1((tag + text).encode()).hexdigest()[:8], 16)
    ext = ['', '.txt', '.reg', '.ds9', '.reg', '.ds9'][h % 6]
    with_format = ext in ('', '.txt') or (h >> 4) % 2 == 0
    as_path = (h >> 5) % 2 == 0
    if as_path and not text.startswith('# Region file format: DS9'):
        # is_ds9() looks at the extension only for `str` paths; a pathlib.Path is identified by the signature line alone
        # (reported to the coordinator as a candidate finding of the registry, not of the DS9 reading conventions)
        with_format = True
    base = os.environ.get('VERIF_C10_TMP')
    own = None
    if not base or not os.path.isdir(base):
        base = own = tempfile.mkdtemp(prefix='verif_c10_')
    out = {}
    try:
        for name in ('same', 'eol'):
            t = text
            how = 'as is'
            if name == 'eol':
                if (h >> 6) % 2 == 0 and '\r' not in t:
                    t, how = t.replace('\n', '\r\n'), 'CRLF'
                elif t.endswith('\n'):
                    t, how = t[:-1], 'final newline removed'
                else:
                    t, how = t + '\n', 'final newline added'
            fn = os.path.join(base, f'c10_{os.getpid()}_{h:08x}_{name}{ext}')
            with open(fn, 'w', newline='') as f:
                f.write(t)
            spell = f"Regions.read({'Path' if as_path else 'str'}('x{ext}'){', format=' + repr('ds9') if with_format else ''}) [{how}]"
            with warnings.catch_warnings():
                warnings.simplefilter('ignore')
                try:
                    regs = Regions.read(pathlib.Path(fn) if as_path else fn, **({'format': 'ds9'} if with_format else {}))
                    res = {'regions': [canon_region(r) for r in regs]}
                except Exception as e:
                    res = {'exc': f'{type(e).__name__}: {e}'[:300]}
            os.unlink(fn)
            res['spell'] = spell
            out[name] = res
    finally:
        if own:
            shutil.rmtree(own, ignore_errors=True)
    return out


def parse_real(text):
    from regions import Regions
    with warnings.catch_warnings(record=True) as w:
        warnings.simplefilter('always')
        try:
            regs = Regions.parse(text, format='ds9')
        except Exception as e:
            return {'exc': f'{type(e).__name__}: {e}'[:300]}
        out = {'regions': [canon_region(r) for r in regs],
               'warnings': [str(x.message)[:120] for x in w if 'User' in x.category.__name__]}
    return out


# ------------------------------------------------------------------ comparison

def val_close(a, b, exact):
    """a (real), b (reference): [unit, 'p/q']."""
    if a is None or b is None:
        return a is None and b is None
    ua, va, ub, vb = a[0], Fraction(a[1]), b[0], Fraction(b[1])
    if ua == ub:
        if va == vb:
            return True
        if exact:
            return False
        return abs(va - vb) <= Fraction(1, 10**9) * abs(vb) + Fraction(1, 10**12)
    if {ua, ub} == {'deg', 'rad'} and not exact:
        fa = float(va) if ua == 'deg' else math.degrees(float(va))
        fb = float(vb) if ub == 'deg' else math.degrees(float(vb))
        return abs(fa - fb) <= 1e-9 * abs(fb) + 1e-12
    return False


def region_diffs(a, b, exact):
    """fields in which real region a differs from reference region b."""
    d = []
    for k in ('kind', 'frame', 'ptframes', 'incl'):      # ptframes: the frame of every single coordinate
        if a[k] != b[k]:
            d.append(k)
    if len(a['pts']) != len(b['pts']) or not all(val_close(x[0], y[0], exact) and val_close(x[1], y[1], exact)
                                                 for x, y in zip(a['pts'], b['pts'])):
        d.append('pts')
    if len(a['sizes']) != len(b['sizes']) or not all(val_close(x, y, exact) for x, y in zip(a['sizes'], b['sizes'])):
        d.append('sizes')
    if not val_close(a['angle'], b['angle'], exact):
        d.append('angle')
    for k in sorted(set(a['view']) | set(b['view'])):
        if a['view'].get(k) != b['view'].get(k):
            d.append('view.' + k)
    return d


def is_pyfloat(s):
    try:
        float(s)
        return True
    except ValueError:
        return False


def edge_delim(s):
    return bool(s) and (s[0] in '{\'"' or s[-1] in '}\'"')


def scope_info(stmts):
    """for every statement: the global include value in force (last `include=` of the global
    lines before it), read off the STRUCTURE (used only to describe finding F101's input class)."""
    out = []
    ginc = None
    for s in stmts:
        out.append(ginc)
        if s['t'] == 'global':
            seen = set()
            for p in s['items']:
                k = p['key'].lower()
                if k == 'include' and k not in seen:
                    ginc = p['val']
                seen.add(k)
    return out


def composite_classes(stmts):
    """input classes of the open composite findings, read off the structure:
    upper_values: values of composite-header properties that are not lower case (F105);
    bad_last: unsupported-shape lines without `||` that stand inside an open composite (F106)."""
    upper, bad = [], []
    open_ = False
    for s in stmts:
        if s['t'] == 'composite':
            open_ = True
            upper += [p['val'] for p in s['items'] if p['val'] != p['val'].lower()]
        elif s['t'] == 'region' and not s.get('cont'):
            open_ = False
        elif s['t'] == 'badshape' and not s.get('cont'):
            if open_:
                bad.append(stmt_text(s).strip())
            open_ = False
    return {'upper_values': upper, 'bad_last': bad}


class Check(PropertyCheck):
    id = 'C10'
    lean_targets = ['RegionsVerif.Props.C10']
    namespaces = ['RegionsVerif.Props.C10']
    parallel = True
    rule = ('grammar of the supported DS9 subset: files = sequences (1..12 statements quick, 1..20 thorough) of frame lines '
            '(image fk5 j2000 fk4 b1950 icrs galactic ecliptic), unsupported frames (physical detector amplifier linear tile wcs wcsa..), '
            'global lines, comments, blanks, region lines (circle ellipse box polygon line point text annulus; multi-radius '
            'annulus/ellipse/box), composites (header `# composite(x,y,a) || composite=1 props`, 2..4 members of which all but the last '
            'end in `||`, members with own properties / signs / unsupported shapes, include=0 in the header, two composites in a row, a plain '
            'region after the composite), unsupported shapes (vector ruler compass projection panda epanda bpanda) and region lines whose '
            'numbers are not representable in the frame (arcsec in image, 10i in fk5, physical p), in any order; '
            'x notation (bare, " \' d r i p, a:b:c, ahbmcs, adbmcs, signs, padding; every suffix / sexagesimal LETTER in either case '
            'per occurrence: 10D, 1.2R, 10I, 1H20m30S) x separators (newline / ; , optional parentheses, '
            'commas or blanks) x keyword and key case x include sign x property lists (color width fill dash dashlist font point '
            'textangle include flags text tag with {} "" \'\' delimiters and verbatim content incl. ; # = other delimiters, numeric-looking '
            'and blank-padded text; ";" inside text under any key spelling, and in 30% of the files inside tag values). '
            '60% of region lines use dyadic decimals (compared EXACTLY), the rest general decimals / sexagesimal / radians '
            '(1e-9 relative). Non-trivial = the reference yields at least one region.')
    assumptions = [
        'the file path is exercised for every case: the text is written to a temp file (no extension / .txt with format=, .reg / .ds9 '
        'with or without format=, str or pathlib.Path) and Regions.read must give exactly the canonical result of Regions.parse; a second '
        'read uses CRLF line ends or a toggled final newline (the unchanged reader treats them alike)',
        'tokenisation: the token stream the reference interprets is rendered by harness/c10.py from the same structured statement '
        'as the text given to the real parser, AND is checked on every file to equal Spec.Ds9.lex(text), the executable Lean lexer '
        '(driver reply lex_ok); there are no theorems about the lexer itself',
        'float(text) is the correctly rounded value of a decimal literal (CPython); astropy Angle/Quantity keep value and unit as '
        'given (canonicalisation reads .value/.unit and converts arcsec/arcmin/hourangle to degrees in exact rationals)',
        'radians are compared by value (x*180/pi in doubles, 1e-9 relative): the reference keeps them symbolic (Val.rad)',
        'visual properties are compared through the package\'s DS9->matplotlib key translation read backwards (color<-facecolor/edgecolor, '
        'width<-linewidth/markeredgewidth, dash<-linestyle, font<-fontname.., point<-marker/markersize, textangle<-rotation); '
        'fill only applies to circle/ellipse/box/polygon, dash not to point/text, point to points, textangle to text',
        'longitudes are generated in [0,360) (hours in [0,24)), latitudes in (-90,90): wrapping is not part of the property',
        'a comment always ends its physical line (DS9 comments run to the end of the line); every other statement may be followed by ";"',
    ]
    validated_only = [
        'CONFORMANCE OF THE REAL PARSER: the theorems of Props/C10.lean are about the reference interpreter Spec.Ds9.interp; that '
        'regions.io.ds9.read agrees with it is decided by this differential run only (no refinement theorem Impl = Spec)',
        'lexing (characters -> tokens) is executable Lean (Spec.Ds9.lex, classify, mkKV) and is validated against the harness renderer '
        'on every generated file, but no theorem is stated about it: the separator / punctuation / case theorems are at token level',
        '"skipped with a warning": the presence of a warning for each unsupported line is checked on the real parser only (oracle)',
        'F101-F104 (global include=0 ignored, numeric-looking text converted, foreign delimiter characters stripped, ";" inside a '
        'delimited value splitting the line) are FIXED in /repo; their input classes are generated like any other and nothing is '
        'excused: a regression is a VIOLATION; witnesses are kept in corpus/C10/',
        'open findings F105 (composite header values lower-cased) and F106 (an unsupported last member does not end the composite): '
        'the tie compares the real parser with the reference PLUS those deviations (Impl.Ds9Read.currentCode, theorems '
        'composite_*_full_refuted / composite_partial); every difference to the reference proper is a violation, reported as KNOWN-FINDING '
        'only for files in the finding\'s input class that the deviation model reproduces exactly; the header is generated as '
        '"# composite(" / "composite(" only ("# Composite(" is read as a comment by the parser: non-finding, DS9 does not write it)',
        'outside the grammar (nothing claimed): "# text(...)" spelling, box/ellipse without angle (the real parser raises '
        'ValueError for the whole file), wrong parameter counts, text containing its own closing delimiter, valueless flags (treated as '
        'comment text), duplicate keys in one property list, tag in a global line, angles in arcsec/arcmin, exponent notation and '
        'numbers with a trailing dot ("24." as a size/angle raises KeyError in the real parser), longitude wrap; the contradictory '
        '"-shape ... # include=1" is read as included (property list after sign, as DS9 does) ',
    ]

    # ---------------------------------------------------------------- generation
    def extra_checks(self, rng, tier):
        # the run's temp directory (files are unlinked right after each read)
        d = os.environ.pop('VERIF_C10_TMP', None)
        if d and os.path.basename(d).startswith('verif_c10_'):
            shutil.rmtree(d, ignore_errors=True)
        return 0, [], {}

    def generate(self, rng, tier):
        if not os.environ.get('VERIF_C10_TMP'):
            # one temp directory per run for the file-path reads (inherited by the worker processes)
            os.environ['VERIF_C10_TMP'] = tempfile.mkdtemp(prefix='verif_c10_')
        n = 2000 if tier == 'quick' else 60000
        g = Gen(rng, tier)
        cases = [g.file() for _ in range(n)]
        # a fixed family: every shape x every frame word x both layouts, minimal files
        for w in sorted(FRAME_OF):
            for sh in sorted(set(SHAPES)):
                st = g.region(FRAME_OF[w], shape=sh)
                cases.append({'kind': 'file', 'lines': [[{'t': 'frame', 'word': vcase(rng, w)}], [st]], 'join': ';', 'final_nl': True})
        # multi-coordinate shapes under every frame word, as `frame;shape(...)` on one physical line AFTER a change of frame
        # (the frame must reach every coordinate: line start and end, every polygon vertex)
        words = sorted(FRAME_OF)
        for i, w in enumerate(words):
            for sh in ('line', 'polygon'):
                w0 = words[(i + 3) % len(words)]
                first = g.region(FRAME_OF[w0], shape=sh)
                st = g.region(FRAME_OF[w], shape=sh)
                cases.append({'kind': 'file', 'lines': [[{'t': 'frame', 'word': vcase(rng, w0)}], [first],
                                                        [{'t': 'frame', 'word': vcase(rng, w)}, st]],
                              'join': ';', 'final_nl': True})
        return cases

    # ---------------------------------------------------------------- real
    def real(self, case):
        stmts = flat(case)
        text = render_text(case['lines'], case['join'], case['final_nl'])
        out = parse_real(text)
        out['text'] = text
        out['file'] = read_real(text, 'f')
        # a FILE is read in text mode with universal newlines: '\r\n' and a lone '\r' arrive as '\n'.  Only texts with a
        # lone '\r' (inside a delimited value) are affected; for them the file reader is compared with the parse of the
        # translated text (for every other text this IS the text)
        as_file = text.replace('\r\n', '\n').replace('\r', '\n')
        out['parse_as_file'] = parse_real(as_file) if as_file != text else None
        if 'exc' in out:
            return out
        V = {}
        # separators: newline-only and ';'-only layouts of the same statements
        V['nl'] = parse_real(render_text(relayout(stmts, 'nl')))
        V['semi'] = parse_real(render_text(relayout(stmts, 'semi'), final_nl=False))
        # optional punctuation
        V['paren'] = parse_real(render_text(case['lines'], plain='paren'))
        V['bare'] = parse_real(render_text(case['lines'], plain='bare'))
        # unsupported lines removed: unsupported shapes; unsupported frames with the region lines of their scope
        # (an unsupported shape WITHOUT `||` inside an open composite is that composite's last member: it yields no region
        # but it ends the composite, so it is not a removable line -- theorem unsupported_shape_skipped has the same proviso)
        keep = []
        dead = False
        comp_open = False
        for s in stmts:
            if s['t'] == 'badframe':
                dead = True
                continue
            if s['t'] == 'frame':
                dead = False
            terminator = s['t'] == 'badshape' and not s.get('cont') and comp_open
            if s['t'] == 'composite':
                comp_open = True
            elif s['t'] in ('region', 'badshape') and not s.get('cont'):
                comp_open = False
            if (s['t'] == 'badshape' and not terminator) or (dead and s['t'] in ('region', 'composite', 'badshape')):
                continue
            keep.append(s)
        V['nobad'] = parse_real(render_text(relayout(keep, 'nl')))
        # frameless part: everything before the first supported frame line, and every unsupported-frame scope
        fl = []
        cur = False
        for s in stmts:
            if s['t'] == 'frame':
                cur = True
            elif s['t'] == 'badframe':
                cur = False
                fl.append(s)
            elif not cur:
                fl.append(s)
        V['frameless'] = parse_real(render_text(relayout(fl, 'nl')))
        # per region line, alone under its frame: annulus expansion, origin shift
        per = []
        fw = None
        for i, s in enumerate(stmts):
            if s['t'] == 'frame':
                fw = s['word']
            elif s['t'] == 'badframe':
                fw = None
            elif s['t'] == 'region' and fw is not None and not s.get('unrep'):
                rec = {'i': i, 'frame': FRAME_OF[fw.lower()]}
                rec['alone'] = parse_real(fw + '\n' + stmt_text(s) + '\n')
                if rec['frame'] == 'image' and all(a['k'] == 'dec' and a['ex'] for a in s['args']):
                    sh = self._shifted(s, 7)
                    rec['shift7'] = parse_real(fw + '\n' + stmt_text(sh) + '\n')
                per.append(rec)
        V['per'] = per
        out['variants'] = V
        return out

    @staticmethod
    def _npos(s):
        return {'point': 2, 'text': 2, 'circle': 2, 'line': 4, 'polygon': len(s['args'])}.get(s['shape'], 2)

    def _shifted(self, s, d):
        t = dict(s)
        args = []
        for i, a in enumerate(s['args']):
            a = dict(a)
            if i < self._npos(s):
                v = Fraction(a['txt']) + d
                a['txt'] = str(v.numerator) if v.denominator == 1 else ('%f' % float(v)).rstrip('0')
            args.append(a)
        t['args'] = args
        return t

    # ---------------------------------------------------------------- model
    def requests(self, case):
        # the text goes along so that the Lean lexer (Spec.Ds9.lex) can confirm the tokenisation
        return [{'op': 'ds9.interp', 'toks': render_toks(case),
                 'text': render_text(case['lines'], case['join'], case['final_nl'])}]

    def model(self, case, replies):
        r = replies[0]
        if 'fail' in r:
            return {'fail': r['fail']}

        def conv(lst):
            return [{'kind': x['kind'], 'frame': x['frame'], 'ptframes': [x['frame']] * len(x['pts']), 'pts': x['pts'],
                     'sizes': x['sizes'], 'angle': x['angle'], 'incl': x['incl'],
                     'view': expected_view(x['kind'], x['props']), 'src': int(x['src']), 'props': x['props']} for x in lst]
        # 'regions': the reference (the DS9 conventions); 'code': the model of the code under test = the reference with the
        # OPEN deviations switched on (Impl.Ds9Read.currentCode); 'quirks': which ones are on
        return {'regions': conv(r['regions']), 'code': conv(r['code_regions']), 'quirks': r['quirks'],
                'nstmts': int(r['nstmts']), 'lex_ok': r.get('lex_ok'), 'lex_diff': r.get('lex_diff')}

    def equal(self, case, real, model):
        """The tie: True iff the real result equals the MODEL OF THE CODE UNDER TEST (exactly, or within 1e-9 where the
        notation is inexact).  That model is the reference interpreter with the open deviations F105/F106 switched on
        (Lean: Impl.Ds9Read.currentCode); with none open it is the reference itself.
        The PROPERTY is judged against the reference proper: every difference between the real result and
        `Spec.Ds9.interp` is handed to oracle() as a violation.  It carries the kind of an open finding only when the file is
        in that finding's input class, the deviation is switched on and the code model reproduces the real result exactly;
        anything else is a `reference_mismatch`."""
        real['_diffs'] = []
        if 'fail' in model:
            real['_diffs'] = [{'kind': 'driver_failure', 'detail': model['fail']}]
            return False
        if model.get('lex_ok') is not True:
            real['_diffs'] = [{'kind': 'lexer_mismatch', 'detail': f"Spec.Ds9.lex(text) differs from the rendered tokens: "
                                                                     f"{model.get('lex_diff')} :: {real.get('text')!r}"}]
            return False
        if 'exc' in real:
            real['_diffs'] = [{'kind': 'exception', 'detail': real['exc'] + ' :: ' + repr(real['text'])}]
            return False
        stmts = flat(case)
        tie_diffs, tie_ok = self._compare(stmts, real['regions'], model['code'], real)
        ref_diffs, ref_ok = self._compare(stmts, real['regions'], model['regions'], real)
        if not tie_ok:
            real['_diffs'] = ref_diffs or tie_diffs
            return False
        if not ref_ok:
            # the code model explains the real result; name the open finding(s) whose input class the file is in
            cls = composite_classes(stmts)
            out = []
            if model['quirks'].get('F105') and cls['upper_values']:
                out.append({'kind': 'composite_values_lowercased', 'upper_values': cls['upper_values'],
                            'detail': f"composite header values {cls['upper_values']} are lower-cased for the members: "
                                      f"{ref_diffs[0]['detail']}"})
            if model['quirks'].get('F106') and cls['bad_last']:
                out.append({'kind': 'unsupported_last_member_keeps_composite', 'bad_last': cls['bad_last'],
                            'detail': f"the unsupported shape line(s) {cls['bad_last']} end a composite but its properties stay in "
                                      f"force: {ref_diffs[0]['detail']}"})
            real['_diffs'] = out or ref_diffs
        return True

    def _compare(self, stmts, A, B, real):
        diffs = []
        ginc = scope_info(stmts)
        if len(A) != len(B):
            diffs.append({'kind': 'reference_mismatch',
                          'detail': f'{len(A)} regions, reference {len(B)} :: {real["text"]!r} warnings={real.get("warnings", [])[:3]}'})
            return diffs, False
        ok = True
        for n, (a, b) in enumerate(zip(A, B)):
            s = stmts[b['src']]
            exact = all(x['ex'] for x in s['args'])
            for f in region_diffs(a, b, exact):
                av = a['view'].get(f[5:]) if f.startswith('view.') else a.get(f)
                bv = b['view'].get(f[5:]) if f.startswith('view.') else b.get(f)
                v = {'kind': 'reference_mismatch', 'field': f, 'real': av, 'reference': bv, 'stmt': stmt_text(s),
                     'detail': f'region {n} field {f}: real {av!r} reference {bv!r} :: line {stmt_text(s)!r} in {real["text"]!r}'}
                local_inc = [p for p in (s.get('props') or {'items': []})['items'] if p['key'].lower() == 'include']
                if f == 'incl' and s['sign'] == '' and not local_inc and ginc[b['src']] == '0' and av is True and bv is False:
                    v.update(kind='global_include_ignored', sign=s['sign'], local_include=None, global_include='0')
                elif f == 'view.text' and bv and bv[0] == 's' and is_pyfloat(bv[1]) and av and av[0] in ('int', 'float'):
                    v.update(kind='text_converted_to_number', value=bv[1])
                elif f in ('view.text', 'view.tag') and self._edge_case(av, bv):
                    v.update(kind='text_delimiter_chars_stripped', value=self._edge_case(av, bv))
                ok = False          # the kinds above only name the (fixed) defect a difference looks like
                diffs.append(v)
        return diffs, ok

    @staticmethod
    def _edge_case(av, bv):
        """the expected string(s) that lost leading/trailing { } ' " characters, else None."""
        if av is None or bv is None:
            return None
        pairs = [(av, bv)] if bv and bv[0] == 's' else list(zip(av, bv)) if len(av) == len(bv) else []
        bad = [y[1] for x, y in pairs if x != y]
        if bad and all(edge_delim(y[1]) and x[0] == 's' and x[1] == y[1].strip('\'"{}') or x == y for x, y in pairs):
            return bad[0]
        return None

    # ---------------------------------------------------------------- oracle: clauses checkable on the real parser alone
    def oracle(self, case, real):
        V = list(real.get('_diffs', []))
        text = real.get('text')

        def bad(kind, detail, **kw):
            V.append(dict(kind=kind, detail=f'{detail} :: {text!r}', **kw))
        # the FILE reader must give exactly what the parser gives for the same text (same regions or same exception)
        ref = real.get('parse_as_file') or real
        for name, fr in (real.get('file') or {}).items():
            if ('exc' in ref) != ('exc' in fr) or ('exc' in ref and ref['exc'] != fr['exc']) \
                    or ('exc' not in ref and fr['regions'] != ref['regions']):
                got = fr.get('exc') or f"{len(fr['regions'])} regions"
                exp = ref.get('exc') or f"{len(ref['regions'])} regions"
                n = next((i for i, (a, b) in enumerate(zip(fr.get('regions', []), ref.get('regions', []))) if a != b), None)
                bad('file_read_differs_from_parse', f"{fr['spell']} gives {got}, Regions.parse(text, format='ds9') gives {exp}"
                                                    + (' [text with universal newlines]' if ref is not real else '')
                                                    + (f' (first difference at region {n})' if n is not None else ''))
        if 'exc' in real:
            if not any(v['kind'] == 'exception' for v in V):
                bad('exception', real['exc'])
            return V
        stmts = flat(case)
        var = real['variants']
        base = real['regions']
        for name in ('nl', 'semi', 'paren', 'bare', 'nobad'):
            v = var[name]
            if 'exc' in v:
                bad('variant_exception', f'{name}: {v["exc"]}')
            elif v['regions'] != base:
                what = {'nl': 'newline-separated layout', 'semi': "';'-separated layout", 'paren': 'shape(a,b,c) spelling',
                        'bare': 'shape a b c spelling', 'nobad': 'file without its unsupported lines'}[name]
                bad('separator_dependent' if name in ('nl', 'semi') else 'punctuation_dependent' if name in ('paren', 'bare')
                    else 'unsupported_line_affects_others',
                    f'{what} parses to {len(v["regions"])} regions that differ from the {len(base)} of the original')
        # every coordinate of a region (line start AND end, all vertices) is in one and the same frame
        for n, g in enumerate(base):
            if len(set(g['ptframes'])) != 1:
                bad('coordinate_frames_differ', f'region {n} ({g["kind"]}): its coordinates are in frames {g["ptframes"]}')
        fl = var['frameless']
        if 'exc' in fl:
            bad('variant_exception', f'frameless: {fl["exc"]}')
        elif fl['regions']:
            bad('region_without_frame', f'{len(fl["regions"])} regions from lines that have no supported frame')
        # every unsupported line is announced
        n_unsup = sum(1 for s in stmts if s['t'] in ('badframe', 'badshape'))
        if len(real['warnings']) < n_unsup:
            bad('unsupported_without_warning', f'{n_unsup} unsupported lines, {len(real["warnings"])} warnings')
        for rec in var['per']:
            s = stmts[rec['i']]
            al = rec['alone']
            line = stmt_text(s)
            if 'exc' in al:
                bad('variant_exception', f'line alone {line!r}: {al["exc"]}')
                continue
            regs = al['regions']
            # multi-radius expansion: n radii (pairs) => n-1 consecutive annuli, same centre and angle, in order
            nsz = len(s['args']) - 2 - (1 if s['shape'] in ('ellipse', 'box') else 0)
            nrad = nsz if s['shape'] == 'annulus' else nsz // 2 if s['shape'] in ('ellipse', 'box') else None
            if nrad is not None and nrad >= 2:
                if len(regs) != nrad - 1:
                    bad('annulus_count', f'{line!r}: {nrad} radii gave {len(regs)} regions')
                else:
                    for k, g in enumerate(regs):
                        if 'annulus' not in g['kind'] or g['pts'] != regs[0]['pts'] or g['angle'] != regs[0]['angle']:
                            bad('annulus_not_shared', f'{line!r}: region {k} kind/centre/angle differs')
                        h = len(g['sizes']) // 2
                        if k and g['sizes'][:h] != regs[k - 1]['sizes'][h:]:
                            bad('annulus_not_consecutive', f'{line!r}: inner of {k} is not outer of {k - 1}')
            elif len(regs) != 1:
                bad('region_count', f'{line!r} alone under its frame gave {len(regs)} regions')
            # origin: positions are file value - 1, sizes and angle are the file values (image frame, dyadic numbers)
            if 'shift7' in rec and regs:
                npos = self._npos(s)
                posv = [num_value(a) - 1 for a in s['args'][:npos]]
                got = [Fraction(c[1]) for p in regs[0]['pts'] for c in p]
                if got != posv:
                    bad('origin_shift_position', f'{line!r}: positions {got} expected {posv}')
                szv = [num_value(a) for a in s['args'][npos:]]
                if s['shape'] == 'ellipse':
                    szv = [2 * v for v in szv[:-1]] + szv[-1:]
                gots = []
                if s['shape'] in ('ellipse', 'box'):
                    allsz = []
                    for k, g in enumerate(regs):
                        h = len(g['sizes']) // 2 if 'annulus' in g['kind'] else len(g['sizes'])
                        allsz += g['sizes'][:h] if k < len(regs) - 1 else g['sizes']
                    gots = [Fraction(x[1]) for x in allsz] + [Fraction(regs[0]['angle'][1])]
                elif s['shape'] == 'annulus':
                    gots = [Fraction(regs[0]['sizes'][0][1])] + [Fraction(g['sizes'][1][1]) for g in regs]
                else:
                    gots = [Fraction(x[1]) for x in regs[0]['sizes']]
                if gots != szv:
                    bad('size_shifted_or_scaled', f'{line!r}: sizes/angle {gots} expected {szv}')
                sh = rec['shift7']
                if 'exc' in sh or len(sh['regions']) != len(regs):
                    bad('origin_shift_position', f'{line!r}: shifted line did not parse alike')
                else:
                    for g, h in zip(regs, sh['regions']):
                        moved = [[['pix', frac(Fraction(c[1]) + 7)] for c in p] for p in g['pts']]
                        if h['pts'] != moved or h['sizes'] != g['sizes'] or h['angle'] != g['angle']:
                            bad('origin_shift_position', f'{line!r}: +7 on the positions did not move the region by exactly 7')
        return V

    def finding_match(self, finding, v):
        if finding.get('kind') != v.get('kind'):
            return False
        k = v['kind']
        if k == 'global_include_ignored':
            return v.get('sign') == '' and v.get('local_include') is None and v.get('global_include') == '0'
        if k == 'text_converted_to_number':
            return is_pyfloat(v.get('value', 'x'))
        if k == 'text_delimiter_chars_stripped':
            return edge_delim(v.get('value') or '')
        if k == 'semicolon_in_value_splits_line':
            return bool(v.get('keys')) and all(key != 'text' for key in v['keys'])
        if k == 'composite_values_lowercased':
            return bool(v.get('upper_values')) and all(x != x.lower() for x in v['upper_values'])
        if k == 'unsupported_last_member_keeps_composite':
            return bool(v.get('bad_last'))
        return False

    def nontrivial(self, case, real):
        return bool(real.get('regions'))

    def bucket(self, case, real):
        stmts = flat(case)
        frames = {FRAME_OF[s['word'].lower()] for s in stmts if s['t'] == 'frame'}
        cls = 'noframe' if not frames else 'image' if frames == {'image'} else 'sky' if 'image' not in frames else 'mixed'
        feats = []
        if any(s['t'] in ('badframe', 'badshape') or s.get('unrep') for s in stmts):
            feats.append('unsupported')
        if any(s['t'] == 'global' for s in stmts):
            feats.append('global')
        if any(s['t'] == 'composite' for s in stmts):
            feats.append('composite')
        if any(len(l) > 1 for l in case['lines']):
            feats.append('semicolon')
        return cls + ('/' + '+'.join(feats) if feats else '')
