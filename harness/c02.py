"""C02 — centre and subpixel masks are the sampled membership function."""
import math
from fractions import Fraction

import numpy as np

from . import regiongen as G
from .common import frac
from .runner import PropertyCheck

EPS = Fraction(1, 10 ** 9)
MASKABLE = ['circle', 'ellipse', 'rectangle', 'polygon', 'regular_polygon',
            'circle_annulus', 'ellipse_annulus', 'rectangle_annulus']


def F(x):
    return Fraction(float(x))


def spec_raw_any(d, x, y):
    """raw (include-free) membership of a region expression + margin."""
    if d['kind'] == 'compound':
        a, ma = spec_raw_any(d['a'], x, y)
        b, mb = spec_raw_any(d['b'], x, y)
        return {'and': a and b, 'or': a or b, 'xor': a != b}[d['op']], min(ma, mb)
    return G.spec_raw(d, x, y)


def small_region(rng, kind=None, compound_depth=0, base=None):
    if compound_depth:
        # operands share one base offset (otherwise the union box would be astronomically large)
        b = rng.choice([0.0, 0.0, 0.5, 1000.0, -4096.0])
        return G.gen_compound(rng, compound_depth, lambda: small_region(rng, rng.choice(MASKABLE), base=b))
    kind = kind or rng.choice(MASKABLE)
    d = G.gen_simple(rng, kind=kind, scale=1.0, center_scale=0)
    if base is None:
        base = rng.choice([0.0, 0.0, 0.5, 0.25, 1000.0, 1e6 + 0.5, -4096.0])
    off = lambda: base + rng.choice([0.0, 0.5, rng.uniform(-2, 2), float(Fraction(rng.randint(-16, 16), 8))])
    sz = lambda: rng.choice([rng.uniform(0.3, 4.5), float(Fraction(rng.randint(2, 36), 8))])
    for key in ('c', 'a', 'b'):
        if key in d:
            d[key] = [off(), off()]
    for key in ('r', 'w', 'h'):
        if key in d:
            d[key] = sz()
    if kind == 'circle_annulus':
        d['r1'] = sz() / 2; d['r2'] = d['r1'] + sz() / 2
    if kind in ('rectangle_annulus', 'ellipse_annulus'):
        d['w1'] = sz(); d['h1'] = sz(); d['w2'] = d['w1'] + sz() / 2; d['h2'] = d['h1'] + sz() / 2
    if kind == 'polygon':
        cx, cy = off(), off()
        d['v'] = [[cx + rng.uniform(-4, 4), cy + rng.uniform(-4, 4)] for _ in range(rng.randint(3, 7))] if rng.random() < 0.6 else \
                 [[cx + float(Fraction(rng.randint(-24, 24), 8)), cy + float(Fraction(rng.randint(-24, 24), 8))] for _ in range(rng.randint(3, 7))]
    if kind == 'regular_polygon':
        d['r'] = sz()
    return d


def inner_included(d):
    """no include=False flag strictly below the top level."""
    if d['kind'] != 'compound':
        return True
    return all(G.truthy(x.get('include', 'absent')) and inner_included(x) for x in (d['a'], d['b']))


class Check(PropertyCheck):
    id = 'C02'
    lean_targets = ['RegionsVerif.Props.C02', 'RegionsVerif.Props.C02Mask', 'RegionsVerif.Props.C02Fast', 'RegionsVerif.Props.C02Convex', 'RegionsVerif.Props.C08',
                    'RegionsVerif.Bridge.MaskGlue']
    namespaces = ['RegionsVerif.Props.C02', 'RegionsVerif.Bridge.MaskGlue']

    def translate(self):
        # tie T: regenerate Gen/MaskGlue.lean (the to_mask glue of the four maskable classes) from the current source
        import importlib.util, os
        from .common import VERIF
        spec = importlib.util.spec_from_file_location('maskglue', os.path.join(VERIF, 'tools', 'maskglue.py'))
        mod = importlib.util.module_from_spec(spec)
        spec.loader.exec_module(mod)
        return mod.main()
    rule = ('maskable regions (circle, ellipse, rectangle, polygon, regular polygon, three annuli, and/or/xor compounds to depth 2) '
            'of a few pixels x centres on pixel edges/corners/generic/far from the origin (1e3, 1e6) x mode center / subpixels 1..12 / '
            'invalid modes and counts; unsupported class/mode combinations. Non-trivial = the mask has both a zero and a non-zero cell.')
    assumptions = ['sub-sample points whose exact relative distance to the shape boundary is < 1e-9 are excepted (a cell may differ by '
                   'at most that many samples)',
                   'the compiled kernels (.so) are what runs; Cython is not installed, so a .pyx edit cannot take effect (DESIGN 1.2)',
                   'cos/sin of the angle as computed by libm inside the kernel agree with numpy to a few ulp']
    validated_only = ["the circle kernel's fast paths (d < r - pixel_radius => 1, d >= r + pixel_radius => 0) need sqrt and are not in the "
                      "EXECUTABLE model; that they agree with sampling is a theorem over R (C02Fast.circle_fast_paths_sound) and is also checked "
                      "by this differential run on every case",
                      "'exact' mode is C03"]

    def generate(self, rng, tier):
        cases = []
        n = 380 if tier == 'quick' else 12000
        for _ in range(n):
            m = rng.random()
            lattice = False
            if m < 0.7:
                d = small_region(rng)
            elif m < 0.9:
                d = small_region(rng, compound_depth=rng.randint(1, 2))
            else:
                d = G.gen_simple(rng, kind=rng.choice(['point', 'line', 'text']), scale=1.0, center_scale=3)
            if rng.random() < 0.08:
                # lattice-aligned rectangles at angle 0 (exact arithmetic): pixel and sub-sample centres lie exactly ON the
                # edges - all four edges are open (mask and contains() agree there)
                kq = rng.choice([1, 1, 2, 4])
                d = {'kind': 'rectangle', 'include': rng.choice(['absent', 'true', 'false']),
                     'c': [rng.randint(-3, 3) + rng.choice([0, 0.5, 0.25]), rng.randint(-3, 3) + rng.choice([0, 0.5, 0.25])],
                     'w': rng.randint(1, 8 * kq) / kq, 'h': rng.randint(1, 8 * kq) / kq, 'angle': [0.0, 'deg']}
                if rng.random() < 0.3:
                    d = {'kind': 'rectangle_annulus', 'include': d['include'], 'c': d['c'], 'w1': d['w'], 'h1': d['h'],
                         'w2': d['w'] + rng.randint(1, 6) / kq, 'h2': d['h'] + rng.randint(1, 6) / kq, 'angle': [0.0, 'deg']}
                lattice = True
            mm = rng.random()
            if mm < 0.4:
                mode = {'mode': 'center'}
            elif mm < 0.9:
                mode = {'mode': 'subpixels', 'n': rng.randint(1, 12) if rng.random() < 0.93 else rng.choice([0, -3])}
            elif mm < 0.95:
                mode = {'mode': 'exact'}
            else:
                mode = {'mode': rng.choice(['bogus', 'subpixels']), 'n': 2.5, 'n_is_int': False}
            case = {'kind': d['kind'], 'region': d, 'mode': mode}
            if lattice and mode.get('mode') in ('center', 'subpixels') and mode.get('n', 1) in (1, 2, 4, 8):
                # every quantity is a small dyadic number and the angle is exactly 0: mask kernel and contains() compute
                # exactly, so they must agree at EVERY sample, the ones on an edge included
                case['exact_lattice'] = True
                cases.append(case)
            else:
                cases.append(G.add_history(rng, case))
        return cases

    def real(self, case):
        reg = G.build_case(case)
        md = case['mode']
        kw = {'mode': md['mode']}
        if 'n' in md:
            kw['subpixels'] = md['n']
        try:
            m = reg.to_mask(**kw)
        except (NotImplementedError, ValueError, TypeError) as e:
            return {'err': type(e).__name__}
        except MemoryError as e:
            return {'err': 'MemoryError'}
        b = m.bbox
        rb = reg.bounding_box
        n = self._n(case) if md['mode'] != 'exact' else 0
        def cell(v):
            # the kernel returns count / n^2 as a double: recover the exact count when it is one
            v = float(v)
            if n:
                k = v * n * n
                if abs(k - round(k)) < 1e-6:
                    return frac(Fraction(int(round(k)), n * n))
            return frac(Fraction(v))
        member = None
        if 1 <= n <= 5 and m.data.size * n * n <= 40000:
            # the property's own wording: pixel (ix, iy) is 1 exactly when the pixel centre is a member; with n x n
            # sub-samples the value is the fraction of sub-sample centres that are members (of contains())
            from regions import PixCoord
            yy, xx = np.mgrid[int(b.iymin):int(b.iymax), int(b.ixmin):int(b.ixmax)]
            if xx.size:
                cnt = np.zeros(xx.shape, dtype=int)
                for a in range(n):
                    for kk in range(n):
                        # the same rational positions the oracle uses, rounded once to double
                        ox = float(Fraction(2 * a + 1, 2 * n) - Fraction(1, 2))
                        oy = float(Fraction(2 * kk + 1, 2 * n) - Fraction(1, 2))
                        qx, qy = xx + ox, yy + oy
                        lay = (a * n + kk + int(case.get('pick', 0))) % 3
                        if lay == 1:
                            # the same grid in Fortran memory order
                            qx, qy = np.asfortranarray(qx), np.asfortranarray(qy)
                        elif lay == 2:
                            # ... as broadcast index vectors (a user's `PixCoord(x[None, :], y[:, None])`)
                            qx, qy = np.broadcast_arrays(qx[:1, :], qy[:, :1])
                        cnt += np.asarray(reg.contains(PixCoord(qx, qy)), dtype=int)
                member = cnt.tolist()
            else:
                member = []
        return {'member': member,
                'bbox': [int(b.ixmin), int(b.ixmax), int(b.iymin), int(b.iymax)],
                'bbox_same': [int(rb.ixmin), int(rb.ixmax), int(rb.iymin), int(rb.iymax)] == [int(b.ixmin), int(b.ixmax), int(b.iymin), int(b.iymax)],
                'shape': list(m.data.shape),
                'data': [[cell(v) for v in row] for row in np.asarray(m.data, dtype=float).tolist()]}

    def requests(self, case):
        reg = G.build_case(case)
        md = case['mode']
        r = {'op': 'region.mask', 'region': G.model(case['region'], reg), 'mode': md['mode']}
        if md['mode'] == 'subpixels':
            if md.get('n_is_int', True):
                r['n'] = md['n']
            else:
                r['n'] = 2
                r['n_is_int'] = False
        return [r]

    def model(self, case, replies):
        r = replies[0]
        if 'err' in r:
            return {'err': r['err']}
        if 'fail' in r:
            return {'fail': r['fail']}
        return {'bbox': [int(v) for v in r['ok']['bbox']], 'data': r['ok']['data']}

    def _n(self, case):
        md = case['mode']
        return 1 if md['mode'] == 'center' else md.get('n', 1)

    def _boundary_samples(self, d, box, n, j, i):
        cnt = 0
        for a in range(n):
            for k in range(n):
                x = Fraction(box[0] + i) - Fraction(1, 2) + Fraction(2 * a + 1, 2 * n)
                y = Fraction(box[2] + j) - Fraction(1, 2) + Fraction(2 * k + 1, 2 * n)
                _, mg = spec_raw_any(d, x, y)
                if mg < EPS:
                    cnt += 1
        return cnt

    def equal(self, case, real, model):
        if 'fail' in model:
            return False
        if 'err' in real or 'err' in model:
            if case['mode']['mode'] == 'exact' and case['region']['kind'] in ('circle', 'ellipse'):
                return 'err' not in real          # exact mode is C03's; the model does not cover it
            return real.get('err') == model.get('err')
        if real['bbox'] != model['bbox']:
            # alignment exception as in C04
            from .c04 import Check as C4
            sk = C4()._skip_sides(case['region'])
            if not all(s or a == b for s, a, b in zip(sk, real['bbox'], model['bbox'])):
                return False
            return True
        n = self._n(case)
        for j, (rr, mr) in enumerate(zip(real['data'], model['data'])):
            for i, (rv, mv) in enumerate(zip(rr, mr)):
                if rv != mv:
                    diff = abs(Fraction(rv) - Fraction(mv)) * n * n
                    if diff > self._boundary_samples(case['region'], real['bbox'], n, j, i):
                        return False
        return True

    def oracle(self, case, real):
        V = []
        d = case['region']
        def bad(kind, detail):
            V.append({'kind': kind, 'detail': f'{detail} :: region={d} mode={case["mode"]}'})
        md = case['mode']
        k = d['kind']
        maskable = k in MASKABLE or k == 'compound'
        # expected outcome class
        if md['mode'] not in ('center', 'subpixels', 'exact'):
            exp = 'NotImplementedError' if (k == 'compound' or 'annulus' in k or not maskable) else 'ValueError'
            if real.get('err') != exp:
                bad('mode_table', f'{real.get("err")} expected {exp}')
            return V
        if not maskable:
            if real.get('err') != 'NotImplementedError':
                bad('mode_table', f'point/line/text returned {real}')
            return V
        if md['mode'] == 'subpixels' and (not md.get('n_is_int', True) or md['n'] <= 0):
            if k == 'compound' or 'annulus' in k:
                exp = 'NotImplementedError'
            else:
                exp = 'ValueError'
            if real.get('err') != exp:
                bad('mode_table', f'{real.get("err")} expected {exp}')
            return V
        if (k == 'compound' or 'annulus' in k) and md['mode'] != 'center':
            if real.get('err') != 'NotImplementedError':
                bad('mode_table', f'{real.get("err")} expected NotImplementedError')
            return V
        if md['mode'] == 'exact':
            if k in ('circle', 'ellipse'):
                if 'err' in real:
                    bad('mode_table', f'exact on {k}: {real}')
            elif real.get('err') != 'NotImplementedError':
                bad('mode_table', f'exact on {k}: {real.get("err")}')
            return V
        if 'err' in real:
            bad('unexpected_error', real['err'])
            return V
        if not real['bbox_same']:
            bad('mask_bbox_differs', '')
        box = real['bbox']
        if real['shape'] != [box[3] - box[2], box[1] - box[0]]:
            bad('mask_shape_differs', f'{real["shape"]} vs {box}')
            return V
        n = self._n(case)
        for j, row in enumerate(real['data']):
            for i, rv in enumerate(row):
                cnt = 0
                bnd = 0
                for a in range(n):
                    for kk in range(n):
                        x = Fraction(box[0] + i) - Fraction(1, 2) + Fraction(2 * a + 1, 2 * n)
                        y = Fraction(box[2] + j) - Fraction(1, 2) + Fraction(2 * kk + 1, 2 * n)
                        ins, mg = spec_raw_any(d, x, y)
                        if mg < EPS:
                            bnd += 1
                        elif ins:
                            cnt += 1
                v = Fraction(rv) * n * n
                if not (cnt <= v <= cnt + bnd):
                    bad('mask_value_wrong', f'cell ({j},{i}) pixel ({box[0] + i},{box[2] + j}) value {rv} expected {cnt}..{cnt + bnd} of {n * n}')
                    return V
                if n == 1 and Fraction(rv) not in (0, 1):
                    bad('center_mask_not_binary', f'{rv}')
                    return V
                if real.get('member') is not None and (bnd == 0 or case.get('exact_lattice')) and inner_included(d):
                    # the mask against the region's own contains() at the sample centres (masks are those of the
                    # INCLUDED region: the top-level flag is undone; compounds with an excluded operand are skipped)
                    mc = real['member'][j][i]
                    if not G.truthy(d.get('include', 'absent')):
                        mc = n * n - mc
                    if mc != v:
                        bad('mask_differs_from_contains', f'pixel ({box[0] + i},{box[2] + j}) mask {rv} = {v}/{n * n}, contains() counts {mc}')
                        return V
        # "for every pixel": a pixel just OUTSIDE the returned array carries the value 0, so none of its sample
        # centres may be a member (the ring of pixels around the box; samples on the boundary do not count)
        H, W = real['shape']
        ring = [(j, i) for j in (-1, H) for i in range(-1, W + 1)] + [(j, i) for j in range(H) for i in (-1, W)]
        # (for large n a subset of the sample positions: the outermost and the middle ones of each axis)
        idx = list(range(n)) if n <= 4 else sorted({0, n // 2, n - 1})
        for (j, i) in ring:
            for a in idx:
                for kk in idx:
                    x = Fraction(box[0] + i) - Fraction(1, 2) + Fraction(2 * a + 1, 2 * n)
                    y = Fraction(box[2] + j) - Fraction(1, 2) + Fraction(2 * kk + 1, 2 * n)
                    ins, mg = spec_raw_any(d, x, y)
                    if ins and mg >= EPS:
                        bad('member_sample_outside_mask', f'pixel ({box[0] + i},{box[2] + j}) lies outside the mask array {box} but its sample ({float(x)},{float(y)}) is a member')
                        return V
        return V

    def nontrivial(self, case, real):
        if 'data' not in real:
            return False
        vals = {v for row in real['data'] for v in row}
        return '0' in vals and len(vals) > 1

    def bucket(self, case, real):
        return f"{case['kind']}/{case['mode']['mode']}"
