"""Follow a `fix:` commit of a C11 finding in the model.

    cd /verif && /venv/bin/python -m harness.c11_switch F7 <commit-sha> [F20 <sha> ...]

For each finding: sets the matching field of `Quirks.current` to false (Impl/CrtfWrite.lean), removes the
`*_refuted_Fnn` theorem that the fix invalidates (Props/C11.lean) and marks the entry `fixed` in
known_findings/C11.json.  Then run `tools/lb RegionsVerif.Props.C11 Driver.C11Main` and `./check C11`.
"""
import json
import os
import re
import sys

V = os.path.dirname(os.path.dirname(os.path.abspath(__file__)))
FIELD = {'F6': 'popInclude', 'F7': 'textFromMeta', 'F20': 'pointUnreadable', 'F21': 'pixAsDeg',
         'F31': 'dropLabelcolor', 'F32': 'labeloffRepr', 'F33': 'quotePairUnreadable', 'F34': 'keepSourceAttrs'}
REFUTED = {'F7': 'text_preserved_refuted_F7', 'F20': 'crtf_roundtrip_refuted_F20',
           'F21': 'crtf_roundtrip_refuted_F21', 'F33': 'crtf_roundtrip_refuted_F33',
           'F34': 'crtf_roundtrip_refuted_F34'}


def switch(fid, sha):
    p = os.path.join(V, 'lean/RegionsVerif/Impl/CrtfWrite.lean')
    s = open(p).read()
    i = s.index('def Quirks.current')
    j = s.index('def Quirks.fixed')
    blk = s[i:j]
    new = re.sub(FIELD[fid] + r' := true', FIELD[fid] + ' := false', blk)
    if new == blk:
        print(f'{fid}: {FIELD[fid]} is already false in Quirks.current')
    open(p, 'w').write(s[:i] + new + s[j:])
    if fid in REFUTED:
        p = os.path.join(V, 'lean/RegionsVerif/Props/C11.lean')
        s = open(p).read()
        m = re.search(r'(/--(?:(?!-/).)*?-/\n)?theorem ' + REFUTED[fid] + r'\b.*?\n\n', s, flags=re.S)
        if m:
            s = s[:m.start()] + f'-- {REFUTED[fid]}: removed, {fid} fixed in /repo by {sha}\n\n' + s[m.end():]
            open(p, 'w').write(s)
        else:
            print(f'{fid}: theorem {REFUTED[fid]} not found (already removed?)')
    p = os.path.join(V, 'known_findings/C11.json')
    d = json.load(open(p))
    for f in d['findings']:
        if f['id'] == fid and f.get('status') != 'fixed':
            f['status'] = 'fixed'
            f['commit'] = sha
            f['what'] = f'fixed: property=C11 {sha} ' + f['what']
    json.dump(d, open(p, 'w'), indent=1)
    print(f'{fid}: switched')


if __name__ == '__main__':
    a = sys.argv[1:]
    for fid, sha in zip(a[0::2], a[1::2]):
        switch(fid, sha)
