"""C17 — no sequence of constructions and assignments yields an invalid region.

Cases are histories: a constructor call followed by up to 20 operations (attribute assignment,
attribute deletion, dict-mutation calls on a RegionMeta/RegionVisual, list-mutation calls on a
Regions object).  The real side performs the history on real objects and records, per step,
accepted | exception class and a canonical snapshot of the object.  The Lean model
(Impl/Validate.lean) must predict both.  `oracle` checks the property itself on the real trace,
from the documented domains, without the model.
"""
import functools
import inspect
import math
import operator
import warnings
from fractions import Fraction

import numpy as np

from . import common
from .common import frac
from .runner import PropertyCheck

# ------------------------------------------------------------------ value catalogue
#
# A value is named by a string; `mkval(name)` builds the Python object.  Everything in a case is
# a name, so cases are JSON and replay exactly.

NUMBERS_VALID = ['i:5', 'i:2', 'i:10', 'f:5/2', 'f:7', 'f:1/4', 'f:7/2', 'np:f64:2', 'np:f32:3/2', 'np:i64:3', 'True', 'np:True',
                 # tiny / huge positive values in every numeric carrier type
                 'f:5e-324', 'f:1e308', 'i:4611686018427387904', 'np:f64:5e-324', 'np:f64:1e308', 'np:f32:1e-45',
                 'np:f32:3e38', 'np:f16:6e-8', 'np:f16:60000', 'np:f16:5', 'np:f128:5', 'np:f128:1e-300', 'np:f128:1e300',
                 'np:i64:4611686018427387904', 'np:i32:7', 'np:i16:30000', 'np:i8:127', 'np:u8:255', 'np:u8:5',
                 # Python ints that do not fit into 64 bits (2**64, 2**70, 10**30): valid sizes; np.isfinite
                 # raises TypeError for them (F11b, fixed in ccc4c00 - a return is a domain_value_rejected violation)
                 'i:18446744073709551616', 'i:1180591620717411303424', 'i:1000000000000000000000000000000']
# positive values >= 2**60: in the documented domain of every size, but as a vertex COUNT beyond any
# addressable array - np.arange refuses them at once with ValueError.  (Counts between the machine's memory
# and 2**60 would raise MemoryError or allocate for minutes: none is generated.)
UNSERVABLE_COUNT = 2 ** 60
NUMBERS_INVALID = ['i:0', 'i:-3', 'f:0', 'f:-3/2', 'nan', 'inf', '-inf', 'np:f64:nan', 'np:f64:inf', 'np:f64:-inf',
                   'np:i32:0', 'np:i64:-2', 'False', 'np:False',
                   # 0, -0.0, negative, NaN, +-inf in every numeric carrier type
                   'f:-0.0', 'np:f64:0', 'np:f64:-0.0', 'np:f64:-3',
                   'np:f32:0', 'np:f32:-0.0', 'np:f32:-3', 'np:f32:nan', 'np:f32:inf', 'np:f32:-inf',
                   'np:f16:0', 'np:f16:-0.0', 'np:f16:-3', 'np:f16:nan', 'np:f16:inf', 'np:f16:-inf',
                   'np:f128:0', 'np:f128:-0.0', 'np:f128:-3', 'np:f128:nan', 'np:f128:inf', 'np:f128:-inf',
                   'np:i16:0', 'np:i16:-3', 'np:i8:0', 'np:i8:-3', 'np:u8:0', 'i:-4611686018427387904']
NON_NUMBERS = ['arr0:nan', 'arr0:0', 'arr1:nan', 'arr1:inf', 'str:abc', 'str:5', 'str:', 'bytes:a', 'None', 'list:1,2', 'list:', 'tuple:1', 'arr0:3', 'arr1:1,2',
               'arr1:4', 'arr2', 'callable']
ANGLES_VALID = ['q:5:deg', 'q:2:deg', 'q:10:deg', 'q:3:arcmin', 'q:7:arcmin', 'q:30:arcsec', 'q:1/2:rad', 'angle:3:deg',
                'q0d:2:rad',
                # every unit astropy calls an angle, incl. composite ones, must still be accepted
                'q:5e-324:deg', 'q:1e308:deg', 'q32:5:deg', 'q32:1e-45:arcsec',
                'q:5:mas', 'q:2:hourangle', 'q:1/4:cycle', 'q:3:deg2 / arcsec']
QUANT_OTHER = ['q:0:deg', 'q:-1:arcsec', 'q:nan:deg', 'q:inf:deg', 'q:-inf:deg', 'q:5:pix', 'q:3:m', 'q:4:', 'q:2:s',
               'qarr:1,2:deg', 'qarr:3:deg', 'q:-0.0:deg', 'q32:nan:deg', 'q32:inf:deg', 'q32:-inf:deg', 'q32:0:deg',
               'q32:-3:arcsec',
               # physical types whose NAME contains / is dimensionally related to the accepted one
               'q:2:sr', 'q:5:deg2', 'q:30:arcsec2', 'q:7:arcmin2', 'q:1/2:rad / s', 'q:3:deg / yr', 'q:2:rad / s2',
               'q:4:1 / deg', 'q:3:deg m', 'q:50:%', 'q:3:pix2', 'q:2:rad2 / sr', 'q:2:Hz', 'qarr:1,2:sr']
PIX = ['pix:1,2', 'pix:3,-4', 'pix:nan,1', 'pix:inf,-inf', 'pix:1e308,5e-324', 'pix:-0.0,0', 'pixarr:1,2,3;4,5,6', 'pixarr:0,4,4,0;0,0,3,3', 'pixarr:1;2', 'pix2d']
SKY = ['sky:1,2', 'sky:10,-20', 'skygal:1,2', 'skyarr:1,2,3;4,5,6', 'skyarr:1;2', 'sky2d']
REGS = ['reg:circleP', 'reg:circleS', 'reg:compP']
DICTS = ['dict:', 'dict:label=a', 'dict:bad=1', 'dict:label=a,bad=1', 'dict:color=red', 'dict:point=x', 'dict:line=1',
         'rmeta:', 'rmeta:label=x', 'rmeta:line=2,text=t', 'rvis:', 'rvis:color=red', 'rvis:line=1', 'pairs:label=x']
# values just outside a size / angle domain in the RIGHT type (0, negative, NaN, +-inf as numbers and as
# angular Quantities) and the nearest wrong types: also offered to every constructor slot by position
JUST_OUTSIDE = NUMBERS_INVALID + ['q:0:deg', 'q:-1:arcsec', 'q:nan:deg', 'q:inf:deg', 'q:-inf:deg', 'q:5:pix', 'q:4:',
                                  'q:2:sr', 'i:5', 'q:5:deg', 'i:18446744073709551616', 'i:1180591620717411303424',
                                  'i:1000000000000000000000000000000', 'None', 'str:abc', 'pix:1,2', 'sky:1,2']
CATALOGUE = NUMBERS_VALID + NUMBERS_INVALID + NON_NUMBERS + ANGLES_VALID + QUANT_OTHER + PIX + SKY + REGS + DICTS


def _num(s):
    if s in ('nan', 'inf', '-inf', '-0.0'):
        return float(s)
    return float(Fraction(s))        # 'p/q', decimal and exponent notation


def _kv(s):
    return [tuple(p.split('=')) for p in s.split(',')] if s else []


def _mkval(name):
    import astropy.units as u
    from astropy.coordinates import Angle, SkyCoord
    from regions import CirclePixelRegion, CircleSkyRegion, PixCoord, RegionMeta, RegionVisual
    head, _, rest = name.partition(':')
    if name == 'None':
        return None
    if name in ('True', 'False'):
        return name == 'True'
    if name in ('nan', 'inf', '-inf'):
        return float(name)
    if name == 'callable':
        return operator.or_
    if head == 'i':
        return int(rest)
    if head == 'f':
        return _num(rest)
    if head == 'np':
        t, _, v = rest.partition(':')
        if rest in ('True', 'False'):
            return np.bool_(rest == 'True')
        return {'f64': np.float64, 'f32': np.float32, 'f16': np.float16, 'f128': np.longdouble, 'i64': np.int64,
                'i32': np.int32, 'i16': np.int16, 'i8': np.int8, 'u8': np.uint8}[t](_num(v))
    if head == 'str':
        return rest
    if head == 'bytes':
        return rest.encode()
    if head == 'list':
        return [int(x) for x in rest.split(',')] if rest else []
    if head == 'tuple':
        return tuple(int(x) for x in rest.split(','))
    if head == 'arr0':
        return np.array(_num(rest))
    if head == 'arr1':
        return np.array([_num(x) for x in rest.split(',')])
    if name == 'arr2':
        return np.ones((2, 2))
    if head in ('q', 'q32', 'angle', 'q0d', 'qarr'):
        v, _, unit = rest.partition(':')
        unit = u.Unit(unit) if unit else u.dimensionless_unscaled
        if head == 'q':
            return u.Quantity(_num(v), unit)
        if head == 'q32':                      # a Quantity that keeps a float32 value
            return u.Quantity(np.float32(_num(v)), unit, dtype=np.float32)
        if head == 'angle':
            return Angle(_num(v), unit)
        if head == 'q0d':
            return u.Quantity(np.array(_num(v)), unit)
        return u.Quantity([_num(x) for x in v.split(',')], unit)
    if head in ('pix', 'pixarr'):
        xs, _, ys = rest.partition(',' if head == 'pix' else ';')
        if head == 'pix':
            return PixCoord(_num(xs), _num(ys))
        return PixCoord([_num(x) for x in xs.split(',')], [_num(y) for y in ys.split(',')])
    if name == 'pix2d':
        return PixCoord(np.ones((2, 2)), np.ones((2, 2)))
    if head in ('sky', 'skygal', 'skyarr'):
        frame = 'galactic' if head == 'skygal' else 'icrs'
        if head == 'skyarr':
            xs, _, ys = rest.partition(';')
            return SkyCoord([_num(x) for x in xs.split(',')], [_num(y) for y in ys.split(',')], unit='deg', frame=frame)
        xs, _, ys = rest.partition(',')
        return SkyCoord(_num(xs), _num(ys), unit='deg', frame=frame)
    if name == 'sky2d':
        return SkyCoord(np.ones((2, 2)), np.ones((2, 2)), unit='deg')
    if head == 'reg':
        p = CirclePixelRegion(PixCoord(1, 2), 3)
        if rest == 'circleP':
            return p
        if rest == 'circleS':
            return CircleSkyRegion(SkyCoord(1, 2, unit='deg'), 3 * u.deg)
        if rest == 'compP':
            return p | CirclePixelRegion(PixCoord(4, 2), 2)
        if rest.startswith('c'):          # distinguishable list members  reg:c7
            return CirclePixelRegion(PixCoord(0, 0), int(rest[1:]))
    if head == 'dict':
        return dict(_kv(rest))
    if head == 'rmeta':
        return RegionMeta(dict(_kv(rest)))
    if head == 'rvis':
        return RegionVisual(dict(_kv(rest)))
    if head == 'pairs':
        return _kv(rest)
    raise ValueError(f'unknown catalogue value {name}')


_cached = functools.lru_cache(maxsize=None)(_mkval)


def mkval(name):
    """fresh object for mutable kinds, shared (immutable) object otherwise."""
    if name.split(':')[0] in ('dict', 'rmeta', 'rvis', 'pairs', 'list', 'reg'):
        return _mkval(name)
    return _cached(name)


# ------------------------------------------------------------------ abstraction of a Python value

def enc(x):
    x = float(x)
    if math.isnan(x):
        return 'nan'
    if math.isinf(x):
        return 'inf' if x > 0 else '-inf'
    return frac(Fraction(x))


def _vals(a):
    return ','.join(enc(v) for v in np.asarray(a, dtype=float).ravel())


def describe_pix(x, y):
    scalar = bool(np.isscalar(x))
    nd = int(np.ndim(x))
    return {'k': 'pixCoord', 's': scalar, 'nd': nd, 'sz': 1 if nd == 0 else int(np.shape(x)[0]),
            't': f'pix:{list(np.shape(x))}:{_vals(x)};{_vals(y)}'}


_desc_cache = {}


def describe(v):
    """the observations the validators can make of `v` (= the model's `Val`), by introspection."""
    key = id(v)
    hit = _desc_cache.get(key)
    if hit is not None and hit[0] is v and not isinstance(v, (dict, list)):
        return hit[1]
    d = _describe(v)
    if len(_desc_cache) > 20000:
        _desc_cache.clear()
    _desc_cache[key] = (v, d)
    return d


def _describe(v):
    import astropy.units as u
    from astropy.coordinates import SkyCoord
    from regions import PixCoord, PixelRegion, RegionMeta, RegionVisual, SkyRegion
    if v is None:
        return {'k': 'pyNone', 'sz': 0, 't': 'None'}
    if isinstance(v, u.Quantity):
        pt = v.unit.physical_type
        ph = next((n for n in ('angle', 'length', 'dimensionless') if pt == n), 'other')
        n = '0'
        if v.size == 1:
            # degrees, computed in double precision whatever the dtype of the value (a float32 subnormal
            # number of arcsec must not underflow to 0)
            n = enc(float(np.asarray(v.value).item()) * v.unit.to(u.deg) if ph == 'angle' else np.asarray(v.value).item())
        return {'k': 'quantity', 's': bool(v.isscalar), 'nd': int(v.ndim), 'sz': int(v.size), 'n': n, 'ph': ph,
                't': f'{type(v).__name__}:{v.unit.to_string()}:{list(v.shape)}:{_vals(v.value)}'}
    if isinstance(v, (bool, np.bool_)):
        return {'k': 'pyBool' if isinstance(v, bool) else 'npScalar', 's': bool(np.isscalar(v)), 'n': str(int(v)),
                't': f'{type(v).__name__}:{bool(v)}'}
    if isinstance(v, int):
        return {'k': 'pyInt', 's': bool(np.isscalar(v)), 'n': str(v), 't': f'int:{v}'}
    if isinstance(v, float):
        return {'k': 'pyFloat', 's': bool(np.isscalar(v)), 'n': enc(v), 't': f'float:{enc(v)}'}
    if isinstance(v, (np.integer, np.floating)):
        return {'k': 'npScalar', 's': bool(np.isscalar(v)), 'n': enc(v), 't': f'{type(v).__name__}:{enc(v)}'}
    if isinstance(v, str):
        return {'k': 'pyStr', 's': bool(np.isscalar(v)), 'sz': len(v), 't': 'str:' + v}
    if isinstance(v, bytes):
        return {'k': 'pyBytes', 's': bool(np.isscalar(v)), 'sz': len(v), 't': 'bytes:' + v.decode()}
    if isinstance(v, (RegionMeta, RegionVisual, dict)):
        k = 'regionMeta' if isinstance(v, RegionMeta) else 'regionVisual' if isinstance(v, RegionVisual) else 'pyDict'
        return {'k': k, 'sz': len(v), 'it': [[str(a), tok(b)] for a, b in dict.items(v)], 't': ''}
    if isinstance(v, list):
        return {'k': 'pyList', 'sz': len(v), 't': 'list:' + repr(v)}
    if isinstance(v, tuple):
        return {'k': 'pyTuple', 'sz': len(v), 't': 'tuple:' + repr(v)}
    if isinstance(v, np.ndarray):
        return {'k': 'ndarray', 's': bool(np.isscalar(v)), 'nd': int(v.ndim), 'sz': int(v.size),
                'n': enc(v.item()) if v.size == 1 else '0', 't': f'nd:{list(v.shape)}:{_vals(v)}'}
    if isinstance(v, PixCoord):
        return describe_pix(v.x, v.y)
    if isinstance(v, SkyCoord):
        sph = v.spherical
        return {'k': 'skyCoord', 's': bool(v.isscalar), 'nd': int(v.ndim), 'sz': int(v.size),
                't': f'sky:{v.frame.name}:{list(v.shape)}:{_vals(sph.lon.deg)};{_vals(sph.lat.deg)}'}
    if isinstance(v, PixelRegion):
        return {'k': 'pixRegion', 't': repr(v)}
    if isinstance(v, SkyRegion):
        return {'k': 'skyRegion', 't': repr(v)}
    if callable(v):
        return {'k': 'callable', 't': 'callable:' + getattr(v, '__name__', '?')}
    return {'k': 'other', 't': repr(v)}


# every KIND of iterable a Regions constructor / extend can be given; iteration order = xs
ITER_KINDS = ['list', 'tuple', 'generator', 'iter', 'map', 'filter', 'reversed', 'dict_values', 'ndarray', 'regions']
ONE_SHOT = {'generator', 'iter', 'map', 'filter', 'reversed'}      # can be traversed only once


def make_iterable(kind, xs):
    from regions import Regions
    xs = list(xs)
    if kind == 'list':
        return xs
    if kind == 'tuple':
        return tuple(xs)
    if kind == 'generator':
        return (x for x in xs)
    if kind == 'iter':
        return iter(xs)
    if kind == 'map':
        return map(lambda x: x, xs)
    if kind == 'filter':
        return filter(lambda x: True, xs)
    if kind == 'reversed':
        return reversed(xs[::-1])
    if kind == 'dict_values':
        return dict(enumerate(xs)).values()
    if kind == 'ndarray':
        a = np.empty(len(xs), dtype=object)
        for i, x in enumerate(xs):
            a[i] = x
        return a
    if kind == 'regions':
        return Regions(xs)
    raise ValueError(kind)


def tok(x):
    return x if isinstance(x, str) else repr(x)


def snap_val(v):
    d = describe(v)
    return {'k': d['k'], 't': d.get('t', ''), 'it': [list(p) for p in d.get('it', [])]}


def exc_name(e):
    for c in (KeyError, ValueError, TypeError, AttributeError, IndexError):
        if isinstance(e, c):
            return c.__name__
    return type(e).__name__


# ------------------------------------------------------------------ class table (from the live package)

CLASS_NAMES = ['CirclePixelRegion', 'CircleSkyRegion', 'EllipsePixelRegion', 'EllipseSkyRegion',
               'RectanglePixelRegion', 'RectangleSkyRegion', 'PolygonPixelRegion', 'PolygonSkyRegion',
               'RegularPolygonPixelRegion', 'CircleAnnulusPixelRegion', 'CircleAnnulusSkyRegion',
               'EllipseAnnulusPixelRegion', 'EllipseAnnulusSkyRegion', 'RectangleAnnulusPixelRegion',
               'RectangleAnnulusSkyRegion', 'LinePixelRegion', 'LineSkyRegion', 'PointPixelRegion',
               'PointSkyRegion', 'TextPixelRegion', 'TextSkyRegion', 'CompoundPixelRegion', 'CompoundSkyRegion']


def live_attrs(cls):
    """[(name, descriptor class | 'plain' | 'readonly')] for _params, other descriptors, meta, visual."""
    from regions.core.attributes import RegionAttribute, RegionType

    def kind(name):
        try:
            a = inspect.getattr_static(cls, name)
        except AttributeError:
            return 'plain'
        if isinstance(a, RegionType):
            return 'RegionType:' + a.regionclass.__name__
        if isinstance(a, RegionAttribute):
            return type(a).__name__
        if isinstance(a, property):
            return 'readonly' if a.fset is None else 'plain'
        return 'plain'
    names = list(cls._params)
    extra = [n for c in cls.__mro__ for n, a in vars(c).items() if isinstance(a, RegionAttribute)]
    for n in extra:
        if n not in names and n not in ('meta', 'visual'):
            names.append(n)
    out = [[n, kind(n)] for n in names]
    for n in ('meta', 'visual'):
        if kind(n) != 'plain':
            out.append([n, kind(n)])
    return out


@functools.lru_cache(maxsize=None)
def class_table():
    import regions
    return {n: live_attrs(getattr(regions, n)) for n in CLASS_NAMES}


# ------------------------------------------------------------------ documented domains (FIXED, not read from the code)
#
# What each parameter of each class MEANS, written from the class docstrings.  The oracle and the
# generator use this table, never the descriptor that the code happens to bind to the name, so a
# parameter bound to the wrong (weaker) descriptor is found as an accepted out-of-domain value.
# Domain names: position (scalar / 1-D, pixel / sky), positive finite pixel size, positive finite
# angular size, any scalar angle, region of a kind, text string, metadata.
_PP, _SP = 'ScalarPixCoord', 'ScalarSkyCoord'
_PS, _SS, _AN = 'PositiveScalar', 'PositiveScalarAngle', 'ScalarAngle'
_MV = [['meta', 'RegionMetaDescr'], ['visual', 'RegionVisualDescr']]
DOCUMENTED = {
    'CirclePixelRegion': [['center', _PP], ['radius', _PS]] + _MV,
    'CircleSkyRegion': [['center', _SP], ['radius', _SS]] + _MV,
    'EllipsePixelRegion': [['center', _PP], ['width', _PS], ['height', _PS], ['angle', _AN]] + _MV,
    'EllipseSkyRegion': [['center', _SP], ['width', _SS], ['height', _SS], ['angle', _AN]] + _MV,
    'RectanglePixelRegion': [['center', _PP], ['width', _PS], ['height', _PS], ['angle', _AN]] + _MV,
    'RectangleSkyRegion': [['center', _SP], ['width', _SS], ['height', _SS], ['angle', _AN]] + _MV,
    'PolygonPixelRegion': [['vertices', 'OneDPixCoord']] + _MV,
    'PolygonSkyRegion': [['vertices', 'OneDSkyCoord']] + _MV,
    'RegularPolygonPixelRegion': [['center', _PP], ['nvertices', _PS], ['radius', _PS], ['angle', _AN],
                                  ['vertices', 'OneDPixCoord']] + _MV,          # nvertices also >= 3 (cross check)
    'CircleAnnulusPixelRegion': [['center', _PP], ['inner_radius', _PS], ['outer_radius', _PS]] + _MV,
    'CircleAnnulusSkyRegion': [['center', _SP], ['inner_radius', _SS], ['outer_radius', _SS]] + _MV,
    'LinePixelRegion': [['start', _PP], ['end', _PP]] + _MV,
    'LineSkyRegion': [['start', _SP], ['end', _SP]] + _MV,
    'PointPixelRegion': [['center', _PP]] + _MV,
    'PointSkyRegion': [['center', _SP]] + _MV,
    'TextPixelRegion': [['center', _PP], ['text', 'TextString']] + _MV,
    'TextSkyRegion': [['center', _SP], ['text', 'TextString']] + _MV,
    'CompoundPixelRegion': [['region1', 'RegionType:PixelRegion'], ['region2', 'RegionType:PixelRegion'],
                            ['operator', 'readonly']],
    'CompoundSkyRegion': [['region1', 'RegionType:SkyRegion'], ['region2', 'RegionType:SkyRegion'],
                          ['operator', 'readonly']],
}
for _shape in ('Ellipse', 'Rectangle'):
    DOCUMENTED[_shape + 'AnnulusPixelRegion'] = [['center', _PP], ['inner_width', _PS], ['outer_width', _PS],
                                                 ['inner_height', _PS], ['outer_height', _PS], ['angle', _AN]] + _MV
    DOCUMENTED[_shape + 'AnnulusSkyRegion'] = [['center', _SP], ['inner_width', _SS], ['outer_width', _SS],
                                               ['inner_height', _SS], ['outer_height', _SS], ['angle', _AN]] + _MV


def doc_table():
    return DOCUMENTED


def snap_fields(cname):
    return [n for n, k in class_table()[cname] if k != 'readonly']


SIZE_DESCR = ('PositiveScalar', 'PositiveScalarAngle')

# valid argument values per descriptor (used to build mostly-valid constructor calls)
VALID_FOR = {
    'ScalarPixCoord': ['pix:1,2', 'pix:3,-4'],
    'OneDPixCoord': ['pixarr:1,2,3;4,5,6', 'pixarr:0,4,4,0;0,0,3,3'],
    'PositiveScalar': ['i:5', 'f:5/2', 'f:7', 'np:f64:2', 'i:10', 'i:2'],
    'ScalarSkyCoord': ['sky:1,2', 'sky:10,-20', 'skygal:1,2'],
    'OneDSkyCoord': ['skyarr:1,2,3;4,5,6'],
    'ScalarAngle': ['q:5:deg', 'q:0:deg', 'q:1/2:rad', 'angle:3:deg', 'q:-1:arcsec', 'q:2:hourangle'],
    'PositiveScalarAngle': ['q:5:deg', 'q:2:deg', 'q:10:deg', 'q:3:arcmin', 'q:7:arcmin', 'q:30:arcsec', 'q:1/2:rad'],
    'RegionType:PixelRegion': ['reg:circleP', 'reg:compP'],
    'RegionType:SkyRegion': ['reg:circleS'],
    'RegionMetaDescr': ['None', 'dict:label=a', 'rmeta:label=x', 'dict:'],
    'RegionVisualDescr': ['None', 'dict:color=red', 'rvis:color=red', 'dict:point=x'],
    'plain': ['str:abc', 'str:5'],
    'TextString': ['str:abc', 'str:5'],      # the descriptor proposed_fixes/F14c.diff introduces
    'readonly': ['callable'],
}
# ascending pools so that annuli can be built with inner < outer
PIX_SIZES = ['i:2', 'f:5/2', 'i:5', 'f:7', 'i:10']
SKY_SIZES = ['q:30:arcsec', 'q:3:arcmin', 'q:7:arcmin', 'q:2:deg', 'q:5:deg', 'q:10:deg', 'q:1/2:rad']


def ctor_params(cname):
    """constructor parameter names in signature order with their descriptor kind."""
    tbl = dict((n, k) for n, k in doc_table()[cname])
    import regions
    sig = [p for p in inspect.signature(getattr(regions, cname).__init__).parameters if p != 'self']
    out = []
    for p in sig:
        if p == 'origin':
            out.append((p, 'origin'))
        elif cname.startswith('Compound') and p in ('meta', 'visual'):
            continue
        else:
            out.append((p, tbl.get(p, 'plain')))
    return out


def valid_args(cname, rng):
    args = {}
    sizes = PIX_SIZES if 'Pixel' in cname else SKY_SIZES
    for p, k in ctor_params(cname):
        if k == 'origin':
            args[p] = 'None'
        elif p == 'nvertices':
            args[p] = rng.choice(['i:5', 'i:10', 'np:i64:3', 'f:7'])
        else:
            args[p] = rng.choice(VALID_FOR[k])
    for base in ('radius', 'width', 'height'):
        if 'inner_' + base in args:
            i = rng.randrange(len(sizes) - 1)
            j = rng.randrange(i + 1, len(sizes))
            args['inner_' + base], args['outer_' + base] = sizes[i], sizes[j]
    return args


# ------------------------------------------------------------------ documented domains (oracle side)

def _finite_pos_number(v):
    import astropy.units as u
    if isinstance(v, u.Quantity) or not isinstance(v, (int, float, np.integer, np.floating, np.bool_)):
        return False
    return math.isfinite(v) and v > 0


def _angle_q(v):
    import astropy.units as u
    # an angular quantity, from first principles: convertible to radians (no equivalencies)
    return isinstance(v, u.Quantity) and v.shape == () and v.unit.is_equivalent(u.rad)


def in_domain(descr, v):
    """documented domain of a parameter bound to descriptor `descr` (from docstrings + property text)."""
    import astropy.units as u
    from astropy.coordinates import SkyCoord
    from regions import PixCoord, PixelRegion, RegionMeta, RegionVisual, SkyRegion
    if descr == 'ScalarPixCoord':
        return isinstance(v, PixCoord) and np.ndim(v.x) == 0
    if descr == 'OneDPixCoord':
        return isinstance(v, PixCoord) and np.ndim(v.x) == 1
    if descr == 'PositiveScalar':
        return _finite_pos_number(v)
    if descr == 'ScalarSkyCoord':
        return isinstance(v, SkyCoord) and v.shape == ()
    if descr == 'OneDSkyCoord':
        return isinstance(v, SkyCoord) and len(v.shape) == 1
    if descr == 'ScalarAngle':
        return _angle_q(v)
    if descr == 'PositiveScalarAngle':
        return _angle_q(v) and bool(np.isfinite(v.value)) and v.value > 0
    if descr == 'RegionType:PixelRegion':
        return isinstance(v, PixelRegion)
    if descr == 'RegionType:SkyRegion':
        return isinstance(v, SkyRegion)
    if descr == 'RegionMetaDescr':
        return isinstance(v, RegionMeta) and all(k in RegionMeta.valid_keys for k in dict.keys(v))
    if descr == 'RegionVisualDescr':
        return isinstance(v, RegionVisual) and all(k in RegionVisual.valid_keys for k in dict.keys(v))
    if descr in ('plain', 'TextString'):       # text : str
        return isinstance(v, str)
    return True


def _cmp_value(v):
    import astropy.units as u
    return float(np.asarray(v.value).item()) * v.unit.to(u.deg) if isinstance(v, u.Quantity) else float(v)


# ------------------------------------------------------------------ the check

DICT_NON_MUTATING = {'__class__', '__class_getitem__', '__contains__', '__delattr__', '__dir__', '__doc__', '__eq__',
                     '__format__', '__ge__', '__getattribute__', '__getitem__', '__getstate__', '__gt__', '__hash__',
                     '__init_subclass__', '__iter__', '__le__', '__len__', '__lt__', '__ne__', '__new__', '__or__',
                     '__reduce__', '__reduce_ex__', '__repr__', '__reversed__', '__ror__', '__setattr__', '__sizeof__',
                     '__str__', '__subclasshook__', 'copy', 'get', 'items', 'keys', 'values'}

META_KEYS_POOL = {
    False: ['label', 'text', 'tag', 'include', 'line', 'textrotate', 'comment', 'name'],
    True: ['color', 'linewidth', 'symbol', 'line', 'textrotate', 'fontsize', 'point', 'width'],
}
BAD_KEYS = ['bad', 'Color', '', 'label ', 'colour', 'radius']


class Check(PropertyCheck):
    id = 'C17'
    lean_targets = ['RegionsVerif.Props.C17']
    namespaces = ['RegionsVerif.Props.C17']
    parallel = True
    rule = ('every descriptor x a catalogue of ~90 values (0, negatives, NaN, +-inf, numpy scalars, bools, strings, None, '
            'lists, 0-d/1-d/2-d arrays, Quantities of angular / non-angular / no unit incl. array-valued, scalar / 1-D / '
            '2-D PixCoord and SkyCoord, regions, dicts, RegionMeta, RegionVisual); all 23 region classes x every '
            'constructor parameter x every catalogue value, others valid (plus pairs of invalid arguments); the same by '
            'attribute assignment in runs of 20; deletion of every attribute; random histories (<= 20 ops) mixing valid '
            'and invalid assignments, deletions and dict-mutation calls on region.meta / region.visual; RegionMeta / '
            'RegionVisual under every dict-mutation entry point (constructor, fromkeys, __setitem__, update in all call '
            'forms, setdefault, |=, pop, popitem, clear, __delitem__) with valid, aliased and invalid keys; Regions under '
            'constructor/append/extend/insert/__setitem__/pop/reverse and mutation of the list that was passed in; '
            'RegionMask data/box shape agreement. Every case counts as non-trivial: each is a distinct constructor '
            'call or history.')
    assumptions = [
        'isinstance, np.isscalar, .isscalar, .ndim, len, bool(), unit.physical_type, and the Python/numpy/astropy '
        'comparison operators are parameters of the model (fields of Val / pyTruth / pyLtConst / pyLeZero), observed '
        'on the value itself by the harness',
        'PixCoord.__add__ (polygon constructor) is a parameter: its result is supplied with the arguments',
        'sky sizes are compared in degrees; generated sky sizes differ by > 1e-9 relative or are the same object',
        'compound regions: only region1 / region2 / operator are modelled (their meta / visual have no descriptor)',
        'theorems assume well-formed library values as inputs: a RegionMeta/RegionVisual VALUE has vocabulary keys '
        '(the Meta class invariant proved by meta_entry_points / meta_ctor_keysOk), the Regions argument of extend '
        'is a list of regions (regions_list_typed)',
    ]
    validated_only = [
        'that the abstraction Val captures every observation the validators make of a value (checked by running the '
        'real validators on the catalogue, not proved)',
        'constructor plans (order of stores and checks in each __init__) mirror the code: differential run only',
        'which dict methods mutate in place (the list is compared with dir(dict) of the running interpreter)',
        'a NaN / infinite rotation angle or coordinate is accepted; the property text restricts only sizes to finite values',
        'annulus inner < outer after ASSIGNMENT is not a theorem: refuted (F14, open known finding); proved for '
        'constructors and for every history without an accepted inner >= outer assignment',
        'RegionBoundingBox constructor checks are covered by C19 (model Impl.BBox.mkChecked), here only the RegionMask '
        'shape agreement',
    ]

    # ---------------------------------------------------------------- tie T: tables
    def translate(self):
        from regions import RegionMeta, RegionVisual
        from regions.core.metadata import Meta
        problems = []
        ok, log = common.lake_build([self.driver_target])
        if not ok:
            return ['driver does not build: ' + common.first_error(log)]
        t = common.run_driver([{'op': 'c17.tables'}], self.driver_main)[0]
        if t['meta_keys'] != list(RegionMeta.valid_keys):
            problems.append('RegionMeta.valid_keys differs from Impl.Validate.metaKeys')
        if t['visual_keys'] != list(RegionVisual.valid_keys):
            problems.append('RegionVisual.valid_keys differs from Impl.Validate.visualKeys')
        if [tuple(p) for p in t['visual_key_map']] != list(RegionVisual.key_mapping.items()) or RegionMeta.key_mapping:
            problems.append('key_mapping differs from Impl.Validate.visualKeyMap')
        for n in CLASS_NAMES:
            if class_table()[n] != DOCUMENTED[n]:
                problems.append(f'{n}: the code binds {class_table()[n]}, documented domains are {DOCUMENTED[n]}')
            if t['classes'].get(n) != class_table()[n]:
                problems.append(f'{n}: parameters/descriptors {class_table()[n]} differ from Impl.Validate.attrs {t["classes"].get(n)}')
            import regions
            ps = getattr(regions, n)._params
            pairs = [[p, 'outer_' + p[6:]] for p in ps if p.startswith('inner_')]
            if t['order_pairs'].get(n) != pairs:
                problems.append(f'{n}: inner/outer pairs differ')
        mut = sorted(m for m, _ in t['dict_mutators'])
        live_mut = sorted(set(dir(dict)) - DICT_NON_MUTATING)
        if mut != live_mut:
            problems.append(f'dict mutators of this interpreter {live_mut} differ from Impl.Validate.dictMutators {mut}')
        ov = [m for m, _ in t['dict_mutators'] if m in Meta.__dict__]
        if sorted(ov) != sorted(t['meta_overrides']):
            problems.append(f'Meta overrides {sorted(ov)}, model says {sorted(t["meta_overrides"])}')
        return problems

    # ---------------------------------------------------------------- generation
    def generate(self, rng, tier):
        cases = []
        tbl = doc_table()
        descrs = ['ScalarPixCoord', 'OneDPixCoord', 'PositiveScalar', 'ScalarSkyCoord', 'OneDSkyCoord', 'ScalarAngle',
                  'PositiveScalarAngle', 'RegionType:PixelRegion', 'RegionType:SkyRegion', 'RegionMetaDescr',
                  'RegionVisualDescr']
        from regions.core import attributes as A
        if hasattr(A, 'TextString'):
            descrs.append('TextString')
        for d in descrs:
            for v in CATALOGUE:
                cases.append({'kind': 'validate', 'descr': d, 'val': v})
        # constructor sweep: every class x every parameter x every catalogue value
        for cn in CLASS_NAMES:
            for p, k in ctor_params(cn):
                for v in CATALOGUE:
                    a = valid_args(cn, rng)
                    a[p] = v
                    cases.append({'kind': 'region', 'cls': cn, 'args': a, 'ops': [], 'grp': 'ctor-sweep'})
                    if v in JUST_OUTSIDE:
                        # the same call with the arguments passed by position
                        cases.append({'kind': 'region', 'cls': cn, 'args': dict(a), 'ops': [], 'pos': True,
                                      'grp': 'ctor-sweep-positional'})
        # assignment sweep: every class x every attribute x every catalogue value, in runs of 20
        for cn in CLASS_NAMES:
            fields = [n for n, k in tbl[cn]]
            for f in fields:
                vals = list(CATALOGUE)
                rng.shuffle(vals)
                for i in range(0, len(vals), 20):
                    ops = [{'o': 'assign', 'f': f, 'v': v} for v in vals[i:i + 20]]
                    cases.append({'kind': 'region', 'cls': cn, 'args': valid_args(cn, rng), 'ops': ops, 'grp': 'assign-sweep'})
                cases.append({'kind': 'region', 'cls': cn, 'args': valid_args(cn, rng),
                              'ops': [{'o': 'delete', 'f': f}, {'o': 'delete', 'f': f}], 'grp': 'delete'})
        # polygon origin / both-invalid constructor arguments
        for v in CATALOGUE:
            for o in ['pix:1,1', 'pixarr:1,2,3;1,1,1', 'pix2d', 'i:0', 'sky:1,2']:
                cases.append({'kind': 'region', 'cls': 'PolygonPixelRegion',
                              'args': {'vertices': v, 'meta': 'None', 'visual': 'None', 'origin': o}, 'ops': [],
                              'grp': 'ctor-sweep'})
        n_two = 600 if tier == 'quick' else 20000
        for _ in range(n_two):
            cn = rng.choice(CLASS_NAMES)
            a = valid_args(cn, rng)
            for p in rng.sample(sorted(a), min(2, len(a))):
                a[p] = rng.choice(CATALOGUE)
            cases.append({'kind': 'region', 'cls': cn, 'args': a, 'ops': [], 'grp': 'ctor-two-invalid'})
        # random histories
        n_hist = 500 if tier == 'quick' else 20000
        for _ in range(n_hist):
            cn = rng.choice(CLASS_NAMES)
            cases.append({'kind': 'region', 'cls': cn, 'args': valid_args(cn, rng),
                          'ops': [self._rand_region_op(rng, cn) for _ in range(rng.randint(1, 20))], 'grp': 'history'})
        # Meta objects
        n_meta = 500 if tier == 'quick' else 20000
        for _ in range(n_meta):
            vis = rng.random() < 0.5
            c = {'kind': 'meta', 'vis': vis}
            r = rng.random()
            if r < 0.15:
                c['fromkeys'] = [self._key(rng, vis) for _ in range(rng.randint(0, 3))]
            else:
                c['seq'] = self._meta_arg(rng, vis, allow_none=True)
                c['kw'] = self._items(rng, vis, rng.choice([0, 0, 1, 2]), ident=True)
            c['ops'] = [{'o': 'meta', 'f': None, 'm': self._meta_op(rng, vis)} for _ in range(rng.randint(0, 12))]
            cases.append(c)
        # RegionMask constructor: data shape vs bounding-box shape
        for _ in range(150 if tier == 'quick' else 5000):
            h, w = rng.randint(0, 4), rng.randint(0, 4)
            shape = rng.choice([[h, w], [h, w], [w, h], [h], [], [h, w, 1], [h + 1, w], [h, max(w - 1, 0)], [1, h, w]])
            cases.append({'kind': 'mask', 'shape': shape, 'box': [rng.randint(-3, 3), rng.randint(-3, 3), h, w]})
        # Regions lists
        n_list = 400 if tier == 'quick' else 20000
        for _ in range(n_list):
            r = rng.random()
            if r < 0.1:
                arg = None
            else:
                arg = self._iter_arg(rng, [self._member(rng, 0.12) for _ in range(rng.choice([0, 1, 2, 3]))], True)
            ops = [{'o': 'list', 'l': self._list_op(rng)} for _ in range(rng.randint(0, 12))]
            cases.append({'kind': 'list', 'arg': arg, 'ops': ops})
        # every iterable kind x {all valid, an invalid member first / middle / last} x {constructor, extend}
        bad_pool = ['None', 'str:abc', 'i:5', 'f:5/2', 'pix:1,2', 'list:1,2', 'dict:']
        for kind in ITER_KINDS:
            for n in (0, 1, 3):
                for pos in (None, 0, n // 2, n - 1):
                    if pos is not None and (n == 0 or (n == 1 and pos != 0)):
                        continue
                    for bad in ([None] if pos is None else rng.sample(bad_pool, 3)):
                        xs = [rng.choice(['reg:circleP', 'reg:circleS', 'reg:compP', 'reg:c4', 'reg:c7', 'reg:c9']) for _ in range(n)]
                        if pos is not None:
                            xs[pos] = bad
                        k = 'list' if (kind == 'regions' and pos is not None) else kind
                        cases.append({'kind': 'list', 'arg': {'xs': xs, 'kind': k},
                                      'ops': [{'o': 'list', 'l': {'o': 'append', 'x': 'reg:c4'}}], 'grp': 'iterables'})
                        if kind != 'regions':
                            cases.append({'kind': 'list', 'arg': {'xs': ['reg:c7'], 'kind': 'list'},
                                          'ops': [{'o': 'list', 'l': {'o': 'extend_list', 'xs': xs, 'kind': kind}},
                                                  {'o': 'list', 'l': {'o': 'append', 'x': 'reg:c9'}}], 'grp': 'iterables'})
        return cases

    # -- pieces
    def _key(self, rng, vis):
        r = rng.random()
        if r < 0.7:
            return rng.choice(META_KEYS_POOL[vis])
        if r < 0.85:
            return rng.choice(META_KEYS_POOL[not vis])
        return rng.choice(BAD_KEYS)

    def _items(self, rng, vis, n, ident=False):
        out = []
        for _ in range(n):
            k = self._key(rng, vis)
            if ident and (not k.isidentifier() or k in [p[0] for p in out]):
                continue
            out.append([k, rng.choice(['a', 'b', 'red', '1'])])
        return out

    def _meta_arg(self, rng, vis, allow_none=False):
        r = rng.random()
        if allow_none and r < 0.25:
            return None
        if r < 0.07:
            return {'t': 'bad'}
        items = self._items(rng, vis, rng.choice([0, 1, 1, 2, 3, 4]))
        if rng.random() < 0.6:
            seen, uniq = set(), []
            for k, v in items:
                if k not in seen:
                    seen.add(k)
                    uniq.append([k, v])
            return {'t': 'mapping', 'l': uniq}
        return {'t': 'pairs', 'l': items}

    def _meta_op(self, rng, vis):
        o = rng.choice(['setitem', 'setitem', 'update', 'update', 'setdefault', 'ior', 'ior', 'pop', 'popitem', 'clear', 'delitem'])
        if o == 'setitem':
            return {'o': o, 'k': self._key(rng, vis), 'v': rng.choice(['a', 'b', 'z'])}
        if o == 'update':
            nargs = rng.choice([0, 1, 1, 1, 1, 2])
            return {'o': o, 'nargs': nargs, 'arg': self._meta_arg(rng, vis) if nargs else None,
                    'kw': self._items(rng, vis, rng.choice([0, 0, 1, 2]), ident=True)}
        if o == 'setdefault':
            return {'o': o, 'k': self._key(rng, vis), 'v': rng.choice(['d', 'e'])}
        if o == 'ior':
            return {'o': o, 'arg': self._meta_arg(rng, vis)}
        if o == 'pop':
            return {'o': o, 'k': self._key(rng, vis), 'default': rng.random() < 0.5}
        if o == 'delitem':
            return {'o': o, 'k': self._key(rng, vis)}
        return {'o': o}

    def _iter_arg(self, rng, xs, allow_regions):
        kind = rng.choice(ITER_KINDS if allow_regions else ITER_KINDS[:-1])
        if kind == 'regions' and not all(x.startswith('reg:') for x in xs):
            kind = 'list'
        return {'xs': xs, 'kind': kind}

    def _member(self, rng, p_bad):
        if rng.random() < p_bad:
            return rng.choice(['i:5', 'str:abc', 'None', 'pix:1,2', 'dict:', 'list:1,2'])
        return rng.choice(['reg:circleP', 'reg:circleS', 'reg:compP', 'reg:c4', 'reg:c7', 'reg:c9'])

    def _list_op(self, rng):
        o = rng.choice(['append', 'append', 'extend_list', 'extend_regions', 'extend_bad', 'insert', 'insert', 'setitem',
                        'pop', 'reverse', 'src_append'])
        if o in ('append', 'src_append'):
            return {'o': o, 'x': self._member(rng, 0.3)}
        if o in ('insert', 'setitem'):
            return {'o': o, 'i': rng.randint(-4, 4), 'x': self._member(rng, 0.3)}
        if o == 'extend_list':
            return {'o': o, **self._iter_arg(rng, [self._member(rng, 0.15) for _ in range(rng.randint(0, 3))], False)}
        if o == 'extend_regions':
            return {'o': o, 'xs': [self._member(rng, 0.0) for _ in range(rng.randint(0, 3))]}
        if o == 'pop':
            return {'o': o, 'i': rng.randint(-4, 4)}
        return {'o': o}

    def _rand_region_op(self, rng, cn):
        tbl = doc_table()[cn]
        f, k = rng.choice(tbl)
        r = rng.random()
        if r < 0.08:
            return {'o': 'delete', 'f': f}
        if r < 0.25 and not cn.startswith('Compound'):
            which = rng.choice(['meta', 'visual'])
            return {'o': 'meta', 'f': which, 'm': self._meta_op(rng, which == 'visual')}
        if r < 0.6:
            pool = VALID_FOR[k]
            if k in SIZE_DESCR:
                pool = PIX_SIZES if k == 'PositiveScalar' else SKY_SIZES
            return {'o': 'assign', 'f': f, 'v': rng.choice(pool)}
        if r < 0.8 and k in SIZE_DESCR:
            return {'o': 'assign', 'f': f, 'v': rng.choice(NUMBERS_INVALID + QUANT_OTHER + NUMBERS_VALID + ANGLES_VALID)}
        return {'o': 'assign', 'f': f, 'v': rng.choice(CATALOGUE)}

    # ---------------------------------------------------------------- real
    def real(self, case):
        with warnings.catch_warnings():
            warnings.simplefilter('ignore')
            with np.errstate(all='ignore'):
                return getattr(self, '_real_' + case['kind'])(case)

    def _real_validate(self, case):
        from regions import PixelRegion, SkyRegion
        from regions.core import attributes as A
        d = case['descr']
        if d.startswith('RegionType:'):
            desc = A.RegionType('x', PixelRegion if d.endswith('PixelRegion') else SkyRegion)
        else:
            desc = getattr(A, d)('doc')
        desc.name = 'x'
        v = mkval(case['val'])
        try:
            desc._validate(v)
            r = 'ok'
        except Exception as e:
            r = exc_name(e)
        return {'r': r, 'dom': bool(in_domain(d, v))}

    @staticmethod
    def _snap_region(obj, cname):
        out = []
        for f in snap_fields(cname):
            if f in obj.__dict__:
                v = obj.__dict__[f]
                s = snap_val(v)
                if cname == 'RegularPolygonPixelRegion' and f == 'vertices' and id(v) not in Check._assigned:
                    s['t'] = '<derived>'
                out.append([f, s])
            else:
                out.append([f, None])
        return out

    _assigned = {}

    def _real_region(self, case):
        """performs the history once; records the trace (for the model) and, independently of the
        model, every breach of the property (for the oracle)."""
        import regions
        V = []
        cn = case['cls']
        tbl = dict(doc_table()[cn])          # documented domains, independent of the code's descriptors
        cls = getattr(regions, cn)
        Check._assigned = {}
        vals = {p: mkval(n) for p, n in case['args'].items()}
        try:
            if case.get('pos'):
                obj = cls(*[vals[p] for p, _ in ctor_params(cn) if p in vals])
            else:
                obj = cls(**vals)
        except Exception as e:
            if exc_name(e) not in ('ValueError', 'TypeError', 'KeyError'):
                V.append({'kind': 'wrong_exception_class', 'detail': f'{cn}({case["args"]}) raised {type(e).__name__}'})
            if self._args_documented_valid(cn, vals):
                V.append({'kind': 'domain_value_rejected', 'detail': f'{cn}({case["args"]}) raised {exc_name(e)}'})
            return {'ctor': exc_name(e), 'viol': V}
        out = {'ctor': 'ok', 'snap0': self._snap_region(obj, cn), 'steps': [], 'viol': V}
        # constructed: every parameter present, documented-valid, read back unchanged
        for f, k in tbl.items():
            if k == 'readonly':
                continue
            if f not in obj.__dict__:
                V.append({'kind': 'param_missing', 'detail': f'{cn}.{f} missing after construction'})
                continue
            self._check_field(V, cn, f, k, obj.__dict__[f], 'ctor', case['args'].get(f))
            if f in vals and f not in ('meta', 'visual') and k != 'OneDPixCoord' and obj.__dict__[f] is not vals[f]:
                V.append({'kind': 'readback_changed', 'detail': f'{cn}.{f} is not the constructor argument'})
            if f in ('meta', 'visual') and isinstance(vals.get(f), dict) and vals[f]:
                exp = type(obj.__dict__[f])(vals[f])
                if dict(obj.__dict__[f]) != dict(exp):
                    V.append({'kind': 'readback_changed', 'detail': f'{cn}.{f} content differs from the argument'})
        self._check_cross(V, cn, obj.__dict__, 'ctor', None, str(case['args']))
        before = out['snap0']
        for i, op in enumerate(case['ops']):
            raised = None
            v = None
            try:
                if op['o'] == 'assign':
                    v = mkval(op['v'])
                    setattr(obj, op['f'], v)
                    Check._assigned[id(v)] = v
                elif op['o'] == 'delete':
                    delattr(obj, op['f'])
                else:
                    self._apply_meta(getattr(obj, op['f']), op['m'])
            except Exception as e:
                raised = e
            after = self._snap_region(obj, cn)
            out['steps'].append({'r': 'ok' if raised is None else exc_name(raised), 'snap': after})
            self._judge_step(V, cn, cls, tbl, obj, i, op, v, raised, before, after)
            before = after
        return out

    def _judge_step(self, V, cn, cls, tbl, obj, i, op, v, raised, before, after):
        f = op['f']
        k = tbl.get(f, 'plain')
        is_param = f in cls._params or f in ('meta', 'visual')
        if raised is not None:
            if before != after:
                V.append({'kind': 'rejected_op_changed_object', 'op': op['m']['o'] if op['o'] == 'meta' else op['o'],
                          'detail': f'step {i} {op} raised {exc_name(raised)} but changed {cn}'})
            if op['o'] == 'assign' and k != 'readonly' and exc_name(raised) not in ('ValueError', 'TypeError', 'KeyError'):
                V.append({'kind': 'wrong_exception_class', 'detail': f'step {i} {op} raised {type(raised).__name__}'})
            if op['o'] == 'assign' and k != 'readonly' and in_domain(k, v) and not self._cross_bad(cn, {**obj.__dict__, f: v}):
                V.append({'kind': 'domain_value_rejected', 'detail': f'step {i} {cn}.{f} = {op["v"]} raised {exc_name(raised)}'})
            return
        if op['o'] == 'delete':
            if is_param:
                V.append({'kind': 'text_param_unprotected' if k == 'plain' else 'param_deleted', 'param': f,
                          'what': 'deleted', 'where': 'delete', 'detail': f'step {i}: del {cn}.{f} succeeded'})
            return
        if op['o'] == 'assign':
            got = obj.__dict__.get(f)
            if k in ('RegionMetaDescr', 'RegionVisualDescr'):
                if not isinstance(v, dict):
                    # documented: a RegionMeta / RegionVisual or a dict; anything else (None, 0, '', [], ...)
                    # must be refused on assignment, not silently turned into an empty object
                    V.append({'kind': 'out_of_domain_accepted',
                              'detail': f'step {i}: {cn}.{f} = {op["v"]} accepted (stored {dict(got) if isinstance(got, dict) else got!r}) '
                                        f'but is neither a dict nor a {k[:-5]}'})
                if isinstance(v, dict) and (not isinstance(got, dict) or
                                            [tok(x) for x in dict.values(got)] != [tok(x) for x in dict.values(v)]):
                    V.append({'kind': 'readback_changed', 'detail': f'step {i}: {cn}.{f} values differ from the assigned mapping'})
            elif got is not v:
                V.append({'kind': 'readback_changed', 'detail': f'step {i}: {cn}.{f} is not the assigned object'})
            if k != 'readonly':
                self._check_field(V, cn, f, k, got, 'assign', op['v'])
            self._check_cross(V, cn, obj.__dict__, 'assign', f, f'{f} = {op["v"]}')
            return
        # dict mutation on region.meta / region.visual
        m = obj.__dict__.get(f)
        bad = {key for key in dict.keys(m) if key not in type(m).valid_keys}
        bad_before = {p[0] for p in (dict(before).get(f) or {'it': []})['it'] if p[0] not in type(m).valid_keys}
        if bad - bad_before:
            V.append({'kind': 'meta_ior_unvalidated' if op['m']['o'] == 'ior' else 'meta_key_unvalidated',
                      'op': op['m']['o'], 'detail': f'step {i}: {cn}.{f} {op["m"]} inserted keys {sorted(bad - bad_before)}'})

    @staticmethod
    def _meta_arg_real(a):
        if a is None:
            return None
        if a['t'] == 'mapping':
            return {k: v for k, v in a['l']}
        if a['t'] == 'pairs':
            return [tuple(p) for p in a['l']]
        return 5

    def _apply_meta(self, m, op):
        o = op['o']
        if o == 'setitem':
            m[op['k']] = op['v']
        elif o == 'update':
            kw = {k: v for k, v in op.get('kw', [])}
            if op['nargs'] == 0:
                m.update(**kw)
            elif op['nargs'] == 1:
                m.update(self._meta_arg_real(op['arg']), **kw)
            else:
                m.update(self._meta_arg_real(op['arg']), {}, **kw)
        elif o == 'setdefault':
            m.setdefault(op['k'], op['v'])
        elif o == 'ior':
            r = operator.ior(m, self._meta_arg_real(op['arg']))
            if r is not m:
                raise RuntimeError('|= returned a different object')
        elif o == 'pop':
            m.pop(op['k'], 'dflt') if op['default'] else m.pop(op['k'])
        elif o == 'popitem':
            m.popitem()
        elif o == 'clear':
            m.clear()
        elif o == 'delitem':
            del m[op['k']]
        else:
            raise RuntimeError('unknown meta op')

    @staticmethod
    def _snap_meta(m):
        from regions import RegionVisual
        return {'vis': isinstance(m, RegionVisual), 'it': [[str(k), tok(v)] for k, v in dict.items(m)]}

    def _real_meta(self, case):
        from regions import RegionMeta, RegionVisual
        cls = RegionVisual if case['vis'] else RegionMeta
        try:
            if 'fromkeys' in case:
                m = cls.fromkeys(case['fromkeys'])
                if type(m) is not cls:
                    return {'ctor': 'not-a-' + cls.__name__}
            else:
                kw = {k: v for k, v in case.get('kw', [])}
                seq = self._meta_arg_real(case.get('seq'))
                m = cls(**kw) if seq is None else cls(seq, **kw)
        except Exception as e:
            return {'ctor': exc_name(e)}
        out = {'ctor': 'ok', 'snap0': self._snap_meta(m), 'steps': []}
        for op in case['ops']:
            st = {}
            try:
                self._apply_meta(m, op['m'])
                st['r'] = 'ok'
            except Exception as e:
                st['r'] = exc_name(e)
            st['snap'] = self._snap_meta(m)
            out['steps'].append(st)
        return out

    @staticmethod
    def _snap_list(R):
        from regions import Region
        return {'tuple': isinstance(R.regions, tuple), 'it': [[isinstance(x, Region), repr(x)] for x in R.regions]}

    def _real_list(self, case):
        from regions import Regions
        arg = case['arg']
        src = None
        try:
            if arg is None:
                R = Regions()
            else:
                src = make_iterable(arg['kind'], [mkval(n) for n in arg['xs']])
                R = Regions(src)
        except Exception as e:
            return {'ctor': exc_name(e)}
        if not isinstance(R.regions, (list, tuple)):
            return {'ctor': 'regions-attribute-is-' + type(R.regions).__name__}
        out = {'ctor': 'ok', 'snap0': self._snap_list(R), 'steps': []}
        for op in case['ops']:
            l = op['l']
            st = {}
            try:
                o = l['o']
                if o == 'append':
                    R.append(mkval(l['x']))
                elif o == 'extend_list':
                    R.extend(make_iterable(l['kind'], [mkval(n) for n in l['xs']]))
                elif o == 'extend_regions':
                    R.extend(Regions([mkval(n) for n in l['xs']]))
                elif o == 'extend_bad':
                    R.extend(5)
                elif o == 'insert':
                    R.insert(l['i'], mkval(l['x']))
                elif o == 'setitem':
                    operator.setitem(R, l['i'], mkval(l['x']))
                elif o == 'pop':
                    R.pop(l['i'])
                elif o == 'reverse':
                    R.reverse()
                elif o == 'src_append':
                    if isinstance(src, list):
                        src.append(mkval(l['x']))
                st['r'] = 'ok'
            except Exception as e:
                st['r'] = exc_name(e)
            st['snap'] = self._snap_list(R)
            out['steps'].append(st)
        return out

    def _real_mask(self, case):
        from regions import RegionBoundingBox, RegionMask
        x0, y0, h, w = case['box']
        bbox = RegionBoundingBox(x0, x0 + w, y0, y0 + h)
        try:
            m = RegionMask(np.zeros(tuple(case['shape'])), bbox)
            return {'r': 'ok', 'shape': list(m.data.shape), 'bshape': list(m.bbox.shape)}
        except Exception as e:
            return {'r': exc_name(e)}

    def _oracle_mask(self, case, real):
        x0, y0, h, w = case['box']
        agree = case['shape'] == [h, w]
        if real['r'] == 'ok' and (not agree or real['shape'] != real['bshape']):
            return [{'kind': 'mask_shape_mismatch_accepted', 'detail': f'RegionMask data {case["shape"]} with box shape {[h, w]}'}]
        if real['r'] != 'ok' and (agree or real['r'] != 'ValueError'):
            return [{'kind': 'domain_value_rejected' if agree else 'wrong_exception_class',
                     'detail': f'RegionMask data {case["shape"]} with box shape {[h, w]}: {real["r"]}'}]
        return []

    # ---------------------------------------------------------------- model
    @staticmethod
    def _val_json(name):
        return describe(mkval(name))

    def _op_json(self, op):
        if op['o'] == 'assign':
            return {'o': 'assign', 'f': op['f'], 'v': self._val_json(op['v'])}
        if op['o'] == 'list':
            l = dict(op['l'])
            if 'x' in l:
                l['x'] = self._member_json(l['x'])
            if 'xs' in l:
                l['xs'] = [self._member_json(n) for n in l['xs']]
            if l['o'] == 'extend_list':
                l.pop('kind')              # every iterable kind behaves alike: it is copied into a list first
            return {'o': 'list', 'l': l}
        return op

    @staticmethod
    def _member_json(name):
        from regions import Region
        v = mkval(name)
        return [isinstance(v, Region), repr(v)]

    def requests(self, case):
        k = case['kind']
        if k == 'validate':
            return [{'op': 'c17.validate', 'descr': case['descr'], 'val': self._val_json(case['val'])}]
        if k == 'region':
            req = {'op': 'c17.region', 'cls': case['cls'],
                   'args': {p: self._val_json(n) for p, n in case['args'].items()},
                   'ops': [self._op_json(o) for o in case['ops']]}
            if case['cls'] == 'PolygonPixelRegion':
                from regions import PixCoord
                v = mkval(case['args']['vertices'])
                o = mkval(case['args'].get('origin', 'None'))
                if o is None:
                    o = PixCoord(0, 0)
                if isinstance(v, PixCoord) and isinstance(o, PixCoord):
                    try:
                        np.broadcast_shapes(np.shape(v.x), np.shape(o.x))
                        x = np.add(v.x, o.x)
                        y = np.add(v.y, o.y)
                        if np.ndim(x) == 0:
                            x, y = x.item(), y.item()
                        req['sum'] = describe_pix(x, y)
                    except ValueError:
                        req['bcast'] = False
                elif not isinstance(v, PixCoord):
                    # Python's own `+` (no regions code involved: PixCoord defines no __radd__)
                    with warnings.catch_warnings():
                        warnings.simplefilter('ignore')
                        try:
                            req['foreign'] = {'val': describe(v + o)}
                        except Exception as e:
                            req['foreign'] = {'err': exc_name(e)}
            return [req]
        if k == 'mask':
            return [{'op': 'c17.mask', 'shape': case['shape'], 'box': case['box'][2:]}]
        if k == 'meta':
            req = {'op': 'c17.meta', 'vis': case['vis'], 'ops': case['ops']}
            if 'fromkeys' in case:
                req['fromkeys'] = case['fromkeys']
            else:
                req['seq'] = case.get('seq')
                req['kw'] = case.get('kw', [])
            return [req]
        if k == 'list':
            arg = case['arg']
            if arg is not None:
                arg = {'xs': [self._member_json(n) for n in arg['xs']], 'tuple': arg['kind'] == 'tuple'}
            return [{'op': 'c17.list', 'arg': arg, 'ops': [self._op_json(o) for o in case['ops']]}]
        raise ValueError(k)

    def model(self, case, replies):
        return replies[0]

    def equal(self, case, real, model):
        if 'fail' in model:
            return False
        if case['kind'] == 'validate':
            return real == model
        if case['kind'] == 'mask':
            return real['r'] == model['r']
        if real['ctor'] != model['ctor']:
            return False
        if real['ctor'] != 'ok':
            return True
        if real['snap0'] != model['snap0'] or len(real['steps']) != len(model['steps']):
            return False
        return all(r['r'] == m['r'] and r['snap'] == m['snap'] for r, m in zip(real['steps'], model['steps']))

    # ---------------------------------------------------------------- oracle (property, from first principles)
    def oracle(self, case, real):
        return getattr(self, '_oracle_' + case['kind'])(case, real)

    def _oracle_validate(self, case, real):
        V = []
        d, name = case['descr'], case['val']
        v = mkval(name)
        if real['r'] == 'ok' and not in_domain(d, v):
            if d in SIZE_DESCR and self._nonfinite(v):
                V.append({'kind': 'nonfinite_size_accepted', 'descr': d, 'value': self._nonfinite(v), 'where': 'validator',
                          'detail': f'{d}._validate accepts {name}'})
            else:
                V.append({'kind': 'out_of_domain_accepted', 'detail': f'{d}._validate accepts {name}'})
        if real['r'] != 'ok' and in_domain(d, v):
            V.append({'kind': 'domain_value_rejected', 'detail': f'{d}._validate rejects {name} with {real["r"]}'})
        if real['r'] not in ('ok', 'ValueError', 'TypeError', 'KeyError'):
            V.append({'kind': 'wrong_exception_class', 'detail': f'{d}._validate({name}) raised {real["r"]}'})
        return V

    @staticmethod
    def _nonfinite(v):
        import astropy.units as u
        x = v.value if isinstance(v, u.Quantity) else v
        try:
            x = float(x)
        except Exception:
            return None
        if math.isnan(x):
            return 'nan'
        if math.isinf(x) and x > 0:
            return 'inf'
        return None

    def _check_field(self, V, cn, f, k, v, where, op_desc):
        """is the value now stored in parameter f inside its documented domain?"""
        if in_domain(k, v):
            return
        if k in SIZE_DESCR and self._nonfinite(v):
            V.append({'kind': 'nonfinite_size_accepted', 'descr': k, 'value': self._nonfinite(v), 'where': where,
                      'detail': f'{cn}.{f} <- {op_desc} accepted ({where})'})
        elif k in ('plain', 'TextString'):
            V.append({'kind': 'text_param_unprotected', 'param': f, 'what': 'non-str accepted', 'where': where,
                      'detail': f'{cn}.{f} <- {op_desc} accepted ({where}); documented type is str'})
        elif k in ('RegionMetaDescr', 'RegionVisualDescr'):
            V.append({'kind': 'meta_key_unvalidated', 'where': where,
                      'detail': f'{cn}.{f} <- {op_desc}: keys {list(dict.keys(v)) if isinstance(v, dict) else v}'})
        else:
            V.append({'kind': 'out_of_domain_accepted', 'detail': f'{cn}.{f} <- {op_desc} accepted ({where}) but is outside {k}'})

    def _check_cross(self, V, cn, obj_fields, where, touched, op_desc):
        for f in list(obj_fields):
            if f.startswith('inner_') and (touched is None or touched in (f, 'outer_' + f[6:])):
                a, b = obj_fields.get(f), obj_fields.get('outer_' + f[6:])
                try:
                    x, y = _cmp_value(a), _cmp_value(b)
                except Exception:
                    continue
                if math.isfinite(x) and math.isfinite(y) and not x < y:
                    V.append({'kind': 'annulus_order_on_assignment' if where == 'assign' else 'annulus_order_at_construction',
                              'where': where, 'detail': f'{cn}: {f}={x} >= outer={y} after {op_desc}'})
        if cn == 'RegularPolygonPixelRegion' and (touched in (None, 'nvertices')):
            nv = obj_fields.get('nvertices')
            if _finite_pos_number(nv) and nv < 3:
                V.append({'kind': 'nvertices_lt3_on_assignment' if where == 'assign' else 'nvertices_lt3_at_construction',
                          'where': where, 'detail': f'{cn}: nvertices={nv} after {op_desc}'})

    def _oracle_region(self, case, real):
        return list(real.get('viol', []))

    def _args_documented_valid(self, cn, vals):
        """every argument in its documented domain (so the constructor has no reason to refuse)."""
        from regions import PixCoord
        tbl = dict(doc_table()[cn])
        for p, v in vals.items():
            k = tbl.get(p)
            if p == 'origin':
                if not (v is None or (isinstance(v, PixCoord) and np.ndim(v.x) == 0)):
                    return False
            elif p in ('meta', 'visual'):
                if cn.startswith('Compound'):
                    continue
                if v is None:
                    continue
                if not isinstance(v, dict):
                    return False
                if not in_domain(k, self._try_meta(k, v)):
                    return False
            elif p == 'operator':
                if not callable(v):
                    return False
            elif not in_domain(k, v):
                return False
        return not self._cross_bad(cn, vals)

    @staticmethod
    def _try_meta(k, v):
        from regions import RegionMeta, RegionVisual
        try:
            return (RegionMeta if k == 'RegionMetaDescr' else RegionVisual)(v)
        except Exception:
            return None

    @staticmethod
    def _cross_bad(cn, d):
        """inner >= outer or nvertices < 3: a legitimate reason to refuse documented-domain values."""
        try:
            for g in d:
                if g.startswith('inner_') and not _cmp_value(d[g]) < _cmp_value(d['outer_' + g[6:]]):
                    return True
            if cn == 'RegularPolygonPixelRegion' and (d['nvertices'] < 3 or d['nvertices'] >= UNSERVABLE_COUNT):
                # an in-domain count the library cannot serve: refusing it is legitimate (what C17 then
                # requires is that the refused operation leaves the object unchanged - checked as for any other)
                return True
        except Exception:
            return True
        return False

    def _oracle_meta(self, case, real):
        V = []
        from regions import RegionMeta, RegionVisual
        cls = RegionVisual if case['vis'] else RegionMeta
        if real['ctor'] != 'ok':
            if real['ctor'] not in ('ValueError', 'TypeError', 'KeyError'):
                V.append({'kind': 'wrong_exception_class', 'detail': f'{cls.__name__} constructor: {real["ctor"]}'})
            return V

        def bad(snap):
            return [k for k, _ in snap['it'] if k not in cls.valid_keys]
        if bad(real['snap0']):
            V.append({'kind': 'meta_key_unvalidated', 'op': 'ctor', 'detail': f'{cls.__name__} constructed with keys {bad(real["snap0"])}'})
        prev = real['snap0']
        for i, (op, st) in enumerate(zip(case['ops'], real['steps'])):
            o = op['m']['o']
            if st['r'] != 'ok' and st['snap'] != prev:
                V.append({'kind': 'rejected_op_changed_object', 'op': o,
                          'detail': f'step {i}: {cls.__name__}.{o} {op["m"]} raised {st["r"]} but left {st["snap"]["it"]} (was {prev["it"]})'})
            new_bad = set(bad(st['snap'])) - set(bad(prev))
            if new_bad:
                V.append({'kind': 'meta_ior_unvalidated' if o == 'ior' else 'meta_key_unvalidated', 'op': o,
                          'detail': f'step {i}: {cls.__name__}.{o} {op["m"]} inserted {sorted(new_bad)}'})
            prev = st['snap']
        return V

    def _oracle_list(self, case, real):
        V = []
        arg = case['arg']
        members = [] if arg is None else [self._member_json(n) for n in arg['xs']]
        how = 'Regions()' if arg is None else f'Regions(<{arg["kind"]} of {arg["xs"]}>)'
        if real['ctor'] != 'ok':
            if real['ctor'] != 'TypeError':
                V.append({'kind': 'wrong_exception_class', 'detail': f'{how}: {real["ctor"]}'})
            if all(r for r, _ in members):
                V.append({'kind': 'domain_value_rejected', 'detail': f'{how} raised {real["ctor"]} although every member is a Region'})
            return V

        def nbad(snap):
            return sum(1 for r, _ in snap['it'] if not r)
        if nbad(real['snap0']):
            V.append({'kind': 'list_nonregion_member', 'via': 'ctor', 'detail': f'{how} stored {real["snap0"]["it"]}'})
        elif real['snap0']['it'] != members or real['snap0']['tuple']:
            V.append({'kind': 'readback_changed', 'detail': f'{how} stored {real["snap0"]} instead of the members in order'})
        prev = real['snap0']
        for i, (op, st) in enumerate(zip(case['ops'], real['steps'])):
            o = op['l']['o']
            if st['r'] != 'ok' and st['snap'] != prev:
                V.append({'kind': 'rejected_op_changed_object', 'op': o, 'detail': f'step {i}: Regions.{o} raised but changed the list'})
            if nbad(st['snap']) > nbad(prev) and o != 'extend_regions':
                V.append({'kind': 'list_nonregion_member', 'via': o,
                          'detail': f'step {i}: Regions {o} {op["l"]} put a non-Region into the list'})
            if o == 'extend_list':
                xs = [self._member_json(n) for n in op['l']['xs']]
                if not all(r for r, _ in xs):
                    if st['r'] != 'TypeError':
                        V.append({'kind': 'list_nonregion_member' if st['r'] == 'ok' else 'wrong_exception_class', 'via': o,
                                  'detail': f'step {i}: extend(<{op["l"]["kind"]} of {op["l"]["xs"]}>) -> {st["r"]}'})
                elif st['r'] != 'ok':
                    V.append({'kind': 'domain_value_rejected', 'detail': f'step {i}: extend of regions only raised {st["r"]}'})
                elif st['snap']['it'] != prev['it'] + xs:
                    # every iterable kind, one-shot iterators included (F13d, fixed in 727d915)
                    V.append({'kind': 'readback_changed', 'detail': f'step {i}: extend(<{op["l"]["kind"]}>) did not append the members in order'})
            prev = st['snap']
        return V

    # ---------------------------------------------------------------- findings
    def finding_match(self, f, v):
        if f.get('kind') != v.get('kind'):
            return False
        fid = f['id']
        if fid == 'F11':
            return (v['descr'] == 'PositiveScalar' and v['value'] in ('nan', 'inf')) or \
                   (v['descr'] == 'PositiveScalarAngle' and v['value'] == 'inf')
        if fid == 'F12a':
            return v.get('op') == 'ior'
        if fid == 'F12b':
            return v.get('op') == 'update'
        if fid == 'F13a':
            return v.get('via') == 'insert'
        if fid == 'F13b':
            return v.get('via') == 'src_append'
        if fid == 'F14':
            return v.get('where') == 'assign'
        if fid == 'F14b':
            return v.get('where') == 'assign'
        if fid == 'F14c':
            return v.get('param') == 'text'
        return False

    # ---------------------------------------------------------------- evidence
    def nontrivial(self, case, real):
        return True

    def bucket(self, case, real):
        k = case['kind']
        if k == 'validate':
            return f"validate/{case['descr']}/{'accepted' if real.get('r') == 'ok' else real.get('r')}"
        if k == 'mask':
            return f"mask-ctor/{real.get('r')}"
        if k == 'region':
            if real.get('ctor') != 'ok':
                return f"region/{case.get('grp')}/ctor-{real.get('ctor')}"
            n_rej = sum(1 for s in real['steps'] if s['r'] != 'ok')
            return f"region/{case.get('grp')}/ops={min(len(case['ops']), 20) // 5 * 5}+/rejected={'0' if not n_rej else '1+'}"
        if real.get('ctor') != 'ok':
            return f"{k}/ctor-{real.get('ctor')}"
        n_rej = sum(1 for s in real['steps'] if s['r'] != 'ok')
        return f"{k}/ops={len(case['ops']) // 4 * 4}+/rejected={'0' if not n_rej else '1+'}"
