"""C18 — the matplotlib artist of a region depicts the region."""
import json
import math
import os
import warnings
from fractions import Fraction

import numpy as np

from . import regiongen as G
from .c01 import query_points
from .common import frac
from .runner import PropertyCheck

CURVED = ('circle', 'ellipse', 'circle_annulus', 'ellipse_annulus')
ANNULI = ('circle_annulus', 'ellipse_annulus', 'rectangle_annulus')
CURVE_BAND = 3e-4           # Bezier approximation of arcs (DESIGN C18)
PATCH_CLASSES = ('Circle', 'Ellipse', 'Rectangle', 'Polygon', 'Arrow', 'PathPatch')

COLORS = ['red', 'green', 'blue', 'cyan', 'magenta', 'yellow', 'white', 'black', '#00ff00', '#1f77b4', 'orange']
LINESTYLES = ['solid', 'dashed', 'dotted', 'dashdot']
LS_SHORT = {'solid': '-', 'dashed': '--', 'dotted': ':', 'dashdot': '-.'}

# matplotlib's property aliases (`_alias_to_prop` of Patch, Line2D, Text in matplotlib 3.11)
CANON = {
    'Patch': {'aa': 'antialiased', 'ec': 'edgecolor', 'fc': 'facecolor', 'ls': 'linestyle', 'lw': 'linewidth'},
    'Line2D': {'aa': 'antialiased', 'c': 'color', 'ds': 'drawstyle', 'ls': 'linestyle', 'lw': 'linewidth',
               'mec': 'markeredgecolor', 'mew': 'markeredgewidth', 'mfc': 'markerfacecolor', 'mfcalt': 'markerfacecoloralt',
               'ms': 'markersize'},
    'Text': {'c': 'color', 'font': 'fontproperties', 'font_properties': 'fontproperties', 'family': 'fontfamily',
             'name': 'fontname', 'size': 'fontsize', 'stretch': 'fontstretch', 'style': 'fontstyle', 'variant': 'fontvariant',
             'weight': 'fontweight', 'ha': 'horizontalalignment', 'va': 'verticalalignment', 'ma': 'multialignment'},
}


def F(x):
    return Fraction(float(x))


# ------------------------------------------------------------------ canonical keyword values

def canon_val(v):
    from regions.io.ds9.core import ds9_valid_symbols
    if v is None:
        return None
    if isinstance(v, (bool, np.bool_)):
        return {'b': bool(v)}
    if isinstance(v, str):
        return {'s': v}
    if isinstance(v, (int, float, np.integer, np.floating)):
        return {'n': frac(Fraction(v) if isinstance(v, int) else F(v))}
    if isinstance(v, (list, tuple)) and all(isinstance(x, (int, float)) and not isinstance(x, bool) for x in v):
        return {'l': [frac(F(x)) for x in v]}
    for name in ('boxcircle', 'arrow'):
        if v is ds9_valid_symbols[name]:
            return {'o': 'ds9:' + name}
    return {'o': repr(v)}


def canon_kw(d):
    return [[k, canon_val(v)] for k, v in d.items()]


# ------------------------------------------------------------------ paths, winding numbers (oracle side)

def flatten(verts, codes, n=48):
    """own flattening of a matplotlib path into closed polygons (scale-invariant, unlike
    `Path.to_polygons`): cubic/quadratic Beziers sampled at n points."""
    verts = np.asarray(verts, dtype=float)
    if codes is None:
        codes = [1] + [2] * (len(verts) - 1)
    polys = []
    cur = []
    i = 0
    ts = [(k + 1) / n for k in range(n)]
    while i < len(verts):
        c = int(codes[i])
        if c == 0:
            break
        if c == 1:
            if len(cur) > 1:
                polys.append(cur)
            cur = [tuple(verts[i])]
            i += 1
        elif c == 2:
            cur.append(tuple(verts[i]))
            i += 1
        elif c == 3:
            p0 = np.array(cur[-1]); p1 = verts[i]; p2 = verts[i + 1]
            for t in ts:
                cur.append(tuple((1 - t) ** 2 * p0 + 2 * (1 - t) * t * p1 + t * t * p2))
            i += 2
        elif c == 4:
            p0 = np.array(cur[-1]); p1 = verts[i]; p2 = verts[i + 1]; p3 = verts[i + 2]
            for t in ts:
                cur.append(tuple((1 - t) ** 3 * p0 + 3 * (1 - t) ** 2 * t * p1 + 3 * (1 - t) * t * t * p2 + t ** 3 * p3))
            i += 3
        elif c == 79:
            if len(cur) > 1:
                polys.append(cur)
            cur = []
            i += 1
        else:
            raise ValueError(f'path code {c}')
    if len(cur) > 1:
        polys.append(cur)
    return [np.array(p, dtype=float) for p in polys]


def winding(poly, x, y):
    """winding number of the closed polygon about (x, y) (signed crossings of the ray to +x)."""
    a = poly
    b = np.roll(poly, -1, axis=0)
    isleft = (b[:, 0] - a[:, 0]) * (y - a[:, 1]) - (x - a[:, 0]) * (b[:, 1] - a[:, 1])
    up = (a[:, 1] <= y) & (b[:, 1] > y) & (isleft > 0)
    dn = (b[:, 1] <= y) & (a[:, 1] > y) & (isleft < 0)
    return int(up.sum()) - int(dn.sum())


def signed_area(poly):
    a = poly
    b = np.roll(poly, -1, axis=0)
    # relative to the first vertex: avoids cancellation for far-away shapes
    ax, ay = a[:, 0] - poly[0, 0], a[:, 1] - poly[0, 1]
    bx, by = b[:, 0] - poly[0, 0], b[:, 1] - poly[0, 1]
    return 0.5 * float(np.sum(ax * by - ay * bx))


def patch_polys(artist):
    tp = artist.get_patch_transform().transform_path(artist.get_path())
    return flatten(tp.vertices, tp.codes), tp


# ------------------------------------------------------------------ recording the constructor calls

class Recorder:
    """records (class name, args, kwargs) of every matplotlib artist the code constructs, through
    recording SUBCLASSES that are put in place of the matplotlib classes for the duration of the
    call (a subclass, not a wrapper function: `Text.update` looks its own class up by name)."""
    TARGETS = [('matplotlib.patches', n) for n in PATCH_CLASSES] + [('matplotlib.lines', 'Line2D'), ('matplotlib.text', 'Text')]

    def __enter__(self):
        import importlib
        self.log = []
        self.saved = []
        log = self.log
        for modname, name in self.TARGETS:
            mod = importlib.import_module(modname)
            real = getattr(mod, name)
            self.saved.append((mod, name, real))

            def make(real, name):
                class R(real):
                    _verif_base = real

                    def __init__(self, *a, **k):
                        log.append((name, a, dict(k)))
                        super().__init__(*a, **k)
                # (keep the subclass's own name: matplotlib looks artist classes up by name for its docstrings)
                R.__name__ = R.__qualname__ = 'Recording' + real.__name__
                return R
            setattr(mod, name, make(real, name))
        return self

    def __exit__(self, *exc):
        for mod, name, real in self.saved:
            setattr(mod, name, real)
        return False


def real_class(art):
    """the matplotlib class of an artist built under the Recorder."""
    t = type(art)
    return getattr(t, '_verif_base', t)


def fl(x):
    return float(x)


def canon_ctor(name, a, k):
    """constructor call -> (geometry args as floats/strings, remaining kwargs canonical)."""
    k = dict(k)
    if name == 'Circle':
        xy = k.pop('xy'); args = {'xy': [fl(xy[0]), fl(xy[1])], 'radius': fl(k.pop('radius'))}
    elif name in ('Ellipse', 'Rectangle'):
        xy = k.pop('xy')
        args = {'xy': [fl(xy[0]), fl(xy[1])], 'width': fl(k.pop('width')), 'height': fl(k.pop('height')),
                'angle': fl(k.pop('angle', 0.0))}
    elif name == 'Polygon':
        xy = np.asarray(k.pop('xy'), dtype=float)
        args = {'xy': [[fl(p[0]), fl(p[1])] for p in xy]}
    elif name == 'Arrow':
        args = {'x': fl(a[0]), 'y': fl(a[1]), 'dx': fl(a[2]), 'dy': fl(a[3])}
    elif name == 'Line2D':
        args = {'xdata': [fl(v) for v in a[0]], 'ydata': [fl(v) for v in a[1]]}
    elif name == 'Text':
        args = {'x': fl(a[0]), 'y': fl(a[1]), 's': a[2]}
    elif name == 'PathPatch':
        p = a[0]
        args = {'verts': [[fl(v[0]), fl(v[1])] for v in p.vertices], 'codes': [int(c) for c in p.codes]}
    else:
        args = {}
    return {'name': name, 'args': args, 'kw': canon_kw(k)}


# ------------------------------------------------------------------ read-back of properties

def rgb(c):
    from matplotlib.colors import to_rgba
    return [round(v, 6) for v in to_rgba(c)[:3]]


def readback(artist, kind, key, value):
    """(expected, observed) of the artist property set by keyword `key` = `value`; None if this
    key has no simple getter."""
    key = CANON[kind].get(key, key)
    try:
        if kind == 'Patch':
            if key == 'edgecolor':
                return rgb(value), rgb(artist.get_edgecolor())
            if key == 'facecolor':
                return rgb(value), rgb(artist.get_facecolor())
            if key == 'color':
                return [rgb(value), rgb(value)], [rgb(artist.get_edgecolor()), rgb(artist.get_facecolor())]
            if key == 'linewidth':
                return float(value), float(artist.get_linewidth())
            if key == 'linestyle':
                return LS_SHORT.get(value, value), LS_SHORT.get(artist.get_linestyle(), artist.get_linestyle())
            if key in ('alpha', 'zorder'):
                return float(value), float(getattr(artist, 'get_' + key)())
            if key in ('fill', 'label', 'hatch'):
                return value, getattr(artist, 'get_' + key)()
            if key == 'width':           # Arrow(width=…): the tail is 0.2*width wide
                tp = artist.get_patch_transform().transform_path(artist.get_path())
                v = tp.vertices
                exp = 0.2 * float(value)
                obs = float(math.hypot(v[0][0] - v[1][0], v[0][1] - v[1][1]))
                # the tail's end points carry the rounding of the arrow's absolute position
                tol = 1e-9 * exp + 1e-13 * float(np.abs(v).max())
                return exp, (exp if abs(obs - exp) <= tol else obs)
        elif kind == 'Line2D':
            if key == 'markerfacecolor' and artist.get_fillstyle() == 'none':
                return None                      # matplotlib reports 'none' for an unfilled marker
            if key in ('color', 'markeredgecolor', 'markerfacecolor'):
                return rgb(value), rgb(getattr(artist, 'get_' + key)())
            if key in ('markersize', 'markeredgewidth', 'alpha', 'zorder', 'linewidth'):
                return float(value), float(getattr(artist, 'get_' + key)())
            if key in ('marker', 'fillstyle', 'label'):
                return value, getattr(artist, 'get_' + key)()
        elif kind == 'Text':
            if key == 'color':
                return rgb(value), rgb(artist.get_color())
            if key == 'fontsize':
                return float(value), float(artist.get_fontsize())
            if key == 'rotation':
                return float(value) % 360, float(artist.get_rotation()) % 360
            if key in ('alpha', 'zorder'):
                return float(value), float(getattr(artist, 'get_' + key)())
            if key == 'fontfamily':
                return [value], list(artist.get_fontfamily())
            if key in ('fontweight', 'fontstyle', 'horizontalalignment', 'verticalalignment'):
                return value, getattr(artist, 'get_' + key)()
    except Exception as e:  # a getter that does not exist is a harness problem, not a finding
        return 'getter', f'{type(e).__name__}: {e}'
    return None


# ------------------------------------------------------------------ generators of visual / caller dicts

def gen_caller(rng, kind, maxn=3):
    col = lambda: rng.choice(COLORS)
    if kind == 'Patch':
        groups = [
            [('edgecolor', col), ('ec', col), ('color', col)],
            [('facecolor', col), ('fc', col)],
            [('linewidth', lambda: rng.choice([0.5, 1, 2, 3.5])), ('lw', lambda: rng.choice([0.5, 2, 4]))],
            [('linestyle', lambda: rng.choice(LINESTYLES)), ('ls', lambda: rng.choice(LINESTYLES))],
            [('alpha', lambda: rng.choice([0.25, 0.5, 1.0]))],
            [('fill', lambda: rng.choice([True, False]))],
            [('zorder', lambda: rng.randint(0, 9))],
            [('label', lambda: rng.choice(['a', 'region 1']))],
            [('hatch', lambda: rng.choice(['/', 'x']))],
        ]
    elif kind == 'Line2D':
        groups = [
            [('color', col)],
            [('markeredgecolor', col), ('mec', col)],
            [('markerfacecolor', col), ('mfc', col)],
            [('marker', lambda: rng.choice(['x', '+', 's', 'D', 'o', '*']))],
            [('markersize', lambda: rng.choice([3, 7.5, 12])), ('ms', lambda: rng.choice([4, 9]))],
            [('markeredgewidth', lambda: rng.choice([0.5, 2])), ('mew', lambda: rng.choice([1, 3]))],
            [('fillstyle', lambda: rng.choice(['full', 'none', 'left']))],
            [('alpha', lambda: rng.choice([0.25, 0.5]))],
            [('zorder', lambda: rng.randint(0, 9))],
            [('label', lambda: 'pt')],
        ]
    else:
        groups = [
            [('color', col)],
            [('size', lambda: rng.choice([8, 12.5, 20])), ('fontsize', lambda: rng.choice([9, 14]))],
            [('weight', lambda: rng.choice(['bold', 'normal'])), ('fontweight', lambda: rng.choice(['bold', 'light']))],
            [('style', lambda: rng.choice(['italic', 'normal'])), ('fontstyle', lambda: rng.choice(['italic', 'oblique']))],
            [('family', lambda: rng.choice(['serif', 'monospace'])), ('fontfamily', lambda: 'sans-serif')],
            [('rotation', lambda: rng.choice([0, 10, 45.5, 90, 270]))],
            [('ha', lambda: rng.choice(['left', 'right', 'center'])), ('horizontalalignment', lambda: rng.choice(['left', 'right']))],
            [('va', lambda: rng.choice(['top', 'bottom', 'center'])), ('verticalalignment', lambda: rng.choice(['top', 'baseline']))],
            [('alpha', lambda: 0.5)],
            [('zorder', lambda: rng.randint(0, 9))],
        ]
    n = rng.choice([0, 1, 1, 2, 2, maxn])
    out = []
    for g in rng.sample(groups, min(n, len(groups))):
        k, f = rng.choice(g)
        out.append([k, f()])
    if kind == 'Patch' and any(k == 'color' for k, _ in out):
        # matplotlib: `color` overrides facecolor as well; which of two caller keywords wins is not regions' business
        out = [e for e in out if e[0] not in ('facecolor', 'fc')]
    return out


FONT_KEYS = lambda rng: [['fontname', rng.choice(['helvetica', 'times', 'courier'])], ['fontsize', rng.choice([10, 12, 14])],
                         ['fontweight', rng.choice(['normal', 'bold'])], ['fontstyle', rng.choice(['normal', 'italic'])]]


def gen_visual(rng, kind):
    """-> list of [key, value] (insertion order matters: later entries may override)."""
    col = lambda: rng.choice(COLORS)
    m = rng.random()
    if m < 0.12:
        return []
    if m < 0.42:
        # as the DS9 reader builds it
        if kind == 'Patch':
            v = [['linewidth', rng.choice([1, 2, 3])], ['default_style', 'ds9']]
            if rng.random() < 0.3:
                v.append(['fill', rng.choice([True, False])])
            if rng.random() < 0.3:
                v.append(['linestyle', rng.choice(['dashed', [0, [8, 3]], [0, [4, 2]]])])
            v += FONT_KEYS(rng)
            c = col()
            if rng.random() < 0.8:
                v += [['facecolor', c], ['edgecolor', c]]
            return v
        if kind == 'Line2D':
            v = [['color', col()], ['default_style', 'ds9']]
            if rng.random() < 0.7:
                v.append(['marker', rng.choice(['o', 's', 'D', 'x', '+', 'ds9:boxcircle', 'ds9:arrow'])])
            if rng.random() < 0.4:
                v.append(['markersize', rng.choice([5, 11, 15, '7'])])
            v += FONT_KEYS(rng)
            v.append(['markeredgewidth', rng.choice([1, 2])])
            return v
        v = [['color', col()], ['linewidth', 1], ['default_style', 'ds9']] + FONT_KEYS(rng)
        if rng.random() < 0.4:
            v.append(['rotation', rng.choice([0, 30, 90.0])])
        return v
    if m < 0.9:
        # user-built, matplotlib-style and DS9/CRTF key names
        if kind == 'Patch':
            pool = [['color', col], ['edgecolor', col], ['facecolor', col], ['linewidth', lambda: rng.choice([1, 2.5])],
                    ['linestyle', lambda: rng.choice(LINESTYLES)], ['fill', lambda: rng.choice([True, False])],
                    ['fontsize', lambda: 12], ['fontname', lambda: 'times'], ['fontweight', lambda: 'bold'], ['fontstyle', lambda: 'italic'],
                    ['default_style', lambda: rng.choice(['mpl', 'ds9', None, 'ds9'])]]
        elif kind == 'Line2D':
            pool = [['color', col], ['marker', lambda: rng.choice(['x', '+', 'o', 's'])], ['markersize', lambda: rng.choice([4, 8])],
                    ['symsize', lambda: rng.choice([5, 9])], ['linewidth', lambda: rng.choice([1, 2])],
                    ['markeredgewidth', lambda: rng.choice([1, 3])], ['fontsize', lambda: 12], ['fontname', lambda: 'times'],
                    ['fontweight', lambda: 'bold'], ['fontstyle', lambda: 'italic'],
                    ['default_style', lambda: rng.choice(['mpl', 'ds9', None, 'ds9'])]]
        else:
            pool = [['color', col], ['font', lambda: rng.choice(['serif', 'monospace'])], ['fontsize', lambda: rng.choice([10, 16.5])],
                    ['fontstyle', lambda: rng.choice(['italic', 'normal'])], ['fontweight', lambda: rng.choice(['bold', 'normal'])],
                    ['textangle', lambda: rng.choice([0, 30, 90])], ['rotation', lambda: rng.choice([15, 180])],
                    ['linewidth', lambda: 2], ['usetex', lambda: False],
                    ['default_style', lambda: rng.choice(['mpl', 'ds9', None, 'ds9'])]]
        n = rng.randint(1, 5)
        return [[k, f()] for k, f in rng.sample(pool, min(n, len(pool)))]
    # malformed stream: arbitrary valid RegionVisual keys, whether or not the artist knows them
    from regions import RegionVisual
    keys = rng.sample(RegionVisual.valid_keys, rng.randint(1, 4))
    vals = lambda: rng.choice([col(), 1, 2.5, True, False, None, 'x', [2, 2], 'ds9', 'green'])
    return [[k, vals()] for k in keys]


def artist_kind(kind):
    return {'point': 'Line2D', 'text': 'Text'}.get(kind, 'Patch')


NUMTYPES = ['pyfloat', 'pyfloat', 'pyfloat', 'pyint', 'pyint', 'int64', 'int32', 'int16', 'uint8', 'float32', 'float64']
INT_DTYPES = {'pyint': (64, True), 'int64': (64, True), 'int32': (32, True), 'int16': (16, True), 'uint8': (8, False)}
NP_TYPES = {'int64': np.int64, 'int32': np.int32, 'int16': np.int16, 'uint8': np.uint8, 'float32': np.float32, 'float64': np.float64}
ORIGIN_TYPES = ['tuple', 'tuple', 'list', 'array', 'np_scalars']


def gen_origin(rng, d):
    """plot origins: zero, integers, half-integers, dyadic and generic fractions, negative values,
    near the shape and far away; x != y except for the (0, 0) default."""
    cc = G.approx_center(d)
    size = G.approx_size(d)
    while True:
        m = rng.random()
        if m < 0.1:
            return [0, 0]
        if m < 0.3:
            k = rng.choice([5, 50, 300])
            o = [rng.randint(-k, k), rng.randint(-k, k)]
        elif m < 0.45:
            o = [rng.randint(-40, 40) + 0.5, rng.randint(-40, 40) + 0.5]
        elif m < 0.58:
            o = [rng.randint(-400, 400) / 8, rng.randint(-400, 400) / 8]
        elif m < 0.65:
            o = [rng.randint(-50, 50), rng.randint(-400, 400) / 8]          # one Python int, one float
            rng.shuffle(o)
        elif m < 0.8:
            o = [cc[0] + rng.uniform(-3, 3) * size, cc[1] + rng.uniform(-3, 3) * size]
        elif m < 0.9:
            o = [rng.uniform(-100, 100), rng.uniform(-100, 100)]
        else:
            o = [rng.uniform(-1e6, 1e6), rng.uniform(-1e6, 1e6)]
        if o[0] != o[1]:
            return o


def retype_desc(d, nt):
    """make every coordinate / size of the description exactly representable in the numeric
    type `nt` (the description stays the exact value the model sees)."""
    if nt in ('pyfloat', 'float64') or d['kind'] == 'compound':
        return d
    d = dict(d)
    if nt == 'float32':
        cv = lambda v: float(np.float32(v))
        sz = lambda v: max(float(np.float32(v)), float(np.float32(1e-30)))
    else:
        bits, signed = INT_DTYPES[nt]
        hi = {8: 250, 16: 30000, 32: 2 * 10 ** 9, 64: 10 ** 12}[bits]

        def cv(v):
            n = int(round(v))
            if not signed:
                n = abs(n) % (hi + 1)
            return float(max(-hi, min(hi, n)))
        sz = lambda v: float(max(1, min(hi, int(round(v)))))
    for key in ('c', 'a', 'b'):
        if key in d and isinstance(d[key], list):
            d[key] = [cv(d[key][0]), cv(d[key][1])]
    if 'v' in d:
        d['v'] = [[cv(p[0]), cv(p[1])] for p in d['v']]
    for key in ('r', 'w', 'h', 'r1', 'w1', 'h1'):
        if key in d:
            d[key] = sz(d[key])
    for inner, outer in (('r1', 'r2'), ('w1', 'w2'), ('h1', 'h2')):
        if outer in d:
            d[outer] = sz(d[outer])
            if d[outer] <= d[inner]:
                d[outer] = d[inner] + (1.0 if nt != 'float32' else max(1e-3, abs(d[inner])))
                if nt == 'float32':
                    d[outer] = float(np.float32(d[outer]))
    return d


def origin_pyint(case):
    """per component: is it passed to the code as a Python int?"""
    if case.get('origin_type', 'tuple') not in ('tuple', 'list'):
        return [False, False]
    return [isinstance(v, int) and not isinstance(v, bool) for v in case['origin']]


def int_class(case):
    """the input class of finding F182: integer vertex ARRAY of a polygon and a Python-int origin
    component such that numpy's same-dtype subtraction overflows ('overflow': the Python int does not
    fit the dtype) or wraps around ('wrap': a difference does not fit)."""
    d = case.get('region', {})
    nt = case.get('numtype', 'pyfloat')
    if nt not in INT_DTYPES or nt == 'pyint' and d.get('kind') != 'polygon':
        return None
    bits, signed = INT_DTYPES[nt]
    lo, hi = (-(1 << (bits - 1)), (1 << (bits - 1)) - 1) if signed else (0, (1 << bits) - 1)
    if d.get('kind') in ('circle', 'circle_annulus'):
        # F183: the radius is a numpy integer SCALAR of this dtype and matplotlib's Circle doubles it in that dtype
        return 'radius_wrap' if 2 * max(d.get('r', 0), d.get('r2', 0)) > hi else None
    if d.get('kind') != 'polygon':
        return None
    res = None
    for i, isint in enumerate(origin_pyint(case)):
        if not isint:
            continue
        o = case['origin'][i]
        if not (lo <= o <= hi):
            return 'overflow'
        if any(not (lo <= int(p[i]) - o <= hi) for p in d['v']):
            res = 'wrap'
    return res


# ------------------------------------------------------------------ building real objects

def build_visual(items):
    from regions import RegionVisual
    from regions.io.ds9.core import ds9_valid_symbols
    v = RegionVisual()
    for k, val in items:
        if isinstance(val, str) and val.startswith('ds9:'):
            val = ds9_valid_symbols[val[4:]]          # the DS9 reader stores matplotlib Path objects for these symbols
        elif k == 'linestyle' and isinstance(val, list) and len(val) == 2 and isinstance(val[1], list):
            val = (val[0], tuple(val[1]))             # the DS9 reader's dash pattern (offset, (on, off))
        v[k] = val
    return v


def build_typed(d, nt):
    """the real region with every coordinate / size given in the numeric type `nt`."""
    import astropy.units as u
    from regions import (CircleAnnulusPixelRegion, CirclePixelRegion, EllipseAnnulusPixelRegion, EllipsePixelRegion,
                         LinePixelRegion, PixCoord, PointPixelRegion, PolygonPixelRegion, RectangleAnnulusPixelRegion,
                         RectanglePixelRegion, RegularPolygonPixelRegion, TextPixelRegion)
    if nt == 'pyfloat' or d['kind'] == 'compound':
        return G.build(d)
    if nt == 'pyint':
        S = lambda v: int(v)
        A = lambda l: [int(v) for v in l]
    else:
        S = lambda v: NP_TYPES[nt](v)
        A = lambda l: np.array(l, dtype=NP_TYPES[nt])
    P = lambda p: PixCoord(S(p[0]), S(p[1]))
    ANG = lambda a: a[0] * u.Unit(a[1])
    m = G._meta(d)
    k = d['kind']
    if k == 'circle':
        return CirclePixelRegion(P(d['c']), S(d['r']), meta=m)
    if k == 'ellipse':
        return EllipsePixelRegion(P(d['c']), S(d['w']), S(d['h']), angle=ANG(d['angle']), meta=m)
    if k == 'rectangle':
        return RectanglePixelRegion(P(d['c']), S(d['w']), S(d['h']), angle=ANG(d['angle']), meta=m)
    if k == 'polygon':
        return PolygonPixelRegion(PixCoord(A([p[0] for p in d['v']]), A([p[1] for p in d['v']])), meta=m)
    if k == 'regular_polygon':
        return RegularPolygonPixelRegion(P(d['c']), d['n'], S(d['r']), angle=ANG(d['angle']), meta=m)
    if k == 'circle_annulus':
        return CircleAnnulusPixelRegion(P(d['c']), S(d['r1']), S(d['r2']), meta=m)
    if k == 'ellipse_annulus':
        return EllipseAnnulusPixelRegion(P(d['c']), S(d['w1']), S(d['w2']), S(d['h1']), S(d['h2']), angle=ANG(d['angle']), meta=m)
    if k == 'rectangle_annulus':
        return RectangleAnnulusPixelRegion(P(d['c']), S(d['w1']), S(d['w2']), S(d['h1']), S(d['h2']), angle=ANG(d['angle']), meta=m)
    if k == 'point':
        return PointPixelRegion(P(d['c']), meta=m)
    if k == 'text':
        return TextPixelRegion(P(d['c']), d.get('text', 'label'), meta=m)
    if k == 'line':
        return LinePixelRegion(P(d['a']), P(d['b']), meta=m)
    raise ValueError(k)


def conv(nt):
    """(scalar, array) constructors of the numeric type."""
    if nt == 'pyfloat':
        return (lambda v: float(v)), (lambda l: [float(v) for v in l])
    if nt == 'pyint':
        return (lambda v: int(v)), (lambda l: [int(v) for v in l])
    return (lambda v: NP_TYPES[nt](v)), (lambda l: np.array(l, dtype=NP_TYPES[nt]))


def reassign_typed(reg, d, nt):
    """give the EXISTING object the parameters of `d` through the public setters, in the numeric
    type `nt` (regular polygons keep their parameters: their vertices are fixed at construction)."""
    import astropy.units as u
    from regions import PixCoord
    S, A = conv(nt)
    P = lambda p: PixCoord(S(p[0]), S(p[1]))
    ANG = lambda a: a[0] * u.Unit(a[1])
    k = d['kind']
    if k == 'circle':
        reg.center = P(d['c']); reg.radius = S(d['r'])
    elif k in ('ellipse', 'rectangle'):
        reg.angle = ANG(d['angle']); reg.height = S(d['h']); reg.width = S(d['w']); reg.center = P(d['c'])
    elif k == 'polygon':
        reg.vertices = PixCoord(A([p[0] for p in d['v']]), A([p[1] for p in d['v']]))
    elif k == 'circle_annulus':
        reg.center = P(d['c'])
        reg.outer_radius = float(max(d['r2'], float(reg.inner_radius) * 2 + 1))      # keep inner < outer at every step
        reg.inner_radius = S(d['r1']); reg.outer_radius = S(d['r2'])
    elif k in ('ellipse_annulus', 'rectangle_annulus'):
        reg.center = P(d['c'])
        reg.outer_width = float(max(d['w2'], float(reg.inner_width) * 2 + 1))
        reg.outer_height = float(max(d['h2'], float(reg.inner_height) * 2 + 1))
        reg.inner_width = S(d['w1']); reg.inner_height = S(d['h1'])
        reg.outer_width = S(d['w2']); reg.outer_height = S(d['h2'])
        reg.angle = ANG(d['angle'])
    elif k == 'point':
        reg.center = P(d['c'])
    elif k == 'text':
        reg.center = P(d['c']); reg.text = d.get('text', 'label')
    elif k == 'line':
        reg.start = P(d['a']); reg.end = P(d['b'])
    elif k == 'regular_polygon':
        # (the vertices follow the parameters since /repo 32d7f72; the number of vertices is kept)
        reg.center = P(d['c']); reg.radius = S(d['r']); reg.angle = ANG(d['angle'])
    else:
        raise ValueError(k)
    reg.meta.pop('include', None)
    if d.get('include', 'absent') != 'absent':
        reg.meta['include'] = G.INCLUDE_VALUE[d['include']]
    return reg


def use_region(reg, prev):
    """use the object before it is re-parametrised (nothing computed here may survive)."""
    from regions import PixCoord
    o = tuple(prev.get('origin', (0, 0)))
    for what in prev.get('use', []):
        try:
            if what == 'as_artist':
                reg.as_artist(origin=o)
            elif what == 'plot':
                reg.plot(origin=o, ax=plot_axes()).remove()
            elif what == 'bounding_box':
                reg.bounding_box
            elif what == 'contains':
                reg.contains(PixCoord(0.5, 0.25))
            elif what == 'warm':
                G.warm(reg)
        except Exception:
            pass            # the history only has to have happened (e.g. a visual matplotlib rejects)


def build_region(case):
    """the region of a case.  With a 'prev' entry (history) the object is first built with other (or the
    same) parameters and visual attributes, USED (as_artist / plot / bounding_box / contains), and then
    re-parametrised in place through the public setters; the visual dictionary is replaced or mutated."""
    nt = case.get('numtype', 'pyfloat')
    prev = case.get('prev')
    if prev is None or case['region']['kind'] == 'compound':
        reg = build_typed(case['region'], nt)
        reg.visual = build_visual(case.get('visual', []))
        return reg
    reg = build_typed(prev['region'], nt)
    reg.visual = build_visual(prev.get('visual', []))
    with warnings.catch_warnings():
        warnings.simplefilter('ignore')
        use_region(reg, prev)
    reassign_typed(reg, case['region'], nt)
    new = build_visual(case.get('visual', []))
    if prev.get('visual_mode') == 'mutate':
        for k in list(reg.visual):
            del reg.visual[k]
        for k, v in new.items():
            reg.visual[k] = v
    else:
        reg.visual = new
    return reg


def snapshot(reg):
    """everything a drawing call must leave alone: parameters (values, dtypes), meta, visual."""
    from regions import CompoundPixelRegion
    if isinstance(reg, CompoundPixelRegion):
        return ['Compound', reg.operator.__name__, snapshot(reg.region1), snapshot(reg.region2),
                [[k, repr(v)] for k, v in reg.meta.items()], [[k, repr(v)] for k, v in reg.visual.items()]]
    out = [type(reg).__name__]
    names = list(reg._params) + (['vertices'] if hasattr(reg, 'vertices') and 'vertices' not in reg._params else [])
    for name in names:
        v = getattr(reg, name)
        if hasattr(v, 'x') and hasattr(v, 'y'):
            out.append([name, str(np.asarray(v.x).dtype), np.asarray(v.x).tolist(), str(np.asarray(v.y).dtype), np.asarray(v.y).tolist()])
        elif hasattr(v, 'unit'):
            out.append([name, repr(v.value), str(v.unit)])
        else:
            out.append([name, type(v).__name__, repr(v)])
    out.append([[k, repr(v)] for k, v in reg.meta.items()])
    out.append([[k, repr(v)] for k, v in reg.visual.items()])
    return out


def geom_of(art):
    """the geometric state of an artist of any class (for the shared-state / second-origin checks)."""
    n = real_class(art).__name__
    if n == 'Line2D':
        return {'xdata': [float(v) for v in art.get_xdata()], 'ydata': [float(v) for v in art.get_ydata()]}
    if n == 'Text':
        return {'position': [float(v) for v in art.get_position()], 'text': art.get_text()}
    if n == 'Arrow':
        v = art.get_patch_transform().transform_path(art.get_path()).vertices
        return {'verts': [[float(q[0]), float(q[1])] for q in v]}
    return Check._attrs(art)


def shifted(g1, g2, dx, dy, tol):
    """is geometry g2 the geometry g1 moved by (dx, dy), everything else equal?  -> list of differences"""
    errs = []
    if set(g1) != set(g2):
        return [f'attributes {sorted(g1)} vs {sorted(g2)}']
    for k, v1 in g1.items():
        v2 = g2[k]
        if k in ('center', 'xy', 'position') and v1 and not isinstance(v1[0], list):
            if abs(v2[0] - (v1[0] + dx)) > tol or abs(v2[1] - (v1[1] + dy)) > tol:
                errs.append(f'{k}: {v2} expected {[v1[0] + dx, v1[1] + dy]}')
        elif k in ('xy', 'verts'):
            if len(v1) != len(v2) or any(abs(q[0] - (p[0] + dx)) > tol or abs(q[1] - (p[1] + dy)) > tol for p, q in zip(v1, v2)):
                errs.append(f'{k}: vertices are not the first artist\'s moved by the origin difference')
        elif k == 'xdata':
            if len(v1) != len(v2) or any(abs(q - (p + dx)) > tol for p, q in zip(v1, v2)):
                errs.append(f'xdata {v2} expected {[p + dx for p in v1]}')
        elif k == 'ydata':
            if len(v1) != len(v2) or any(abs(q - (p + dy)) > tol for p, q in zip(v1, v2)):
                errs.append(f'ydata {v2} expected {[p + dy for p in v1]}')
        elif isinstance(v1, float):
            if abs(v1 - v2) > 1e-9 * max(1.0, abs(v1)):
                errs.append(f'{k}: {v2} vs {v1}')
        elif v1 != v2:
            errs.append(f'{k}: {v2!r} vs {v1!r}')
    return errs


def origin_arg(case):
    o = case['origin']
    t = case.get('origin_type', 'tuple')
    if t == 'list':
        return list(o)
    if t == 'array':
        return np.array(o)                      # int64 array for two ints, float64 otherwise
    if t == 'np_scalars':
        return tuple(np.int64(v) if isinstance(v, int) else np.float64(v) for v in o)
    return tuple(o)


_AX = None


def plot_axes():
    global _AX
    if _AX is None:
        from matplotlib.figure import Figure
        _AX = Figure().add_subplot(111)
    return _AX


def component_descs(d):
    k = d['kind']
    if k == 'circle_annulus':
        return ({'kind': 'circle', 'c': d['c'], 'r': d['r1']}, {'kind': 'circle', 'c': d['c'], 'r': d['r2']})
    if k in ('ellipse_annulus', 'rectangle_annulus'):
        b = 'ellipse' if k == 'ellipse_annulus' else 'rectangle'
        return ({'kind': b, 'c': d['c'], 'w': d['w1'], 'h': d['h1'], 'angle': d['angle']},
                {'kind': b, 'c': d['c'], 'w': d['w2'], 'h': d['h2'], 'angle': d['angle']})
    if k == 'compound':
        return d['a'], d['b']
    return None


def deg_of(angle):
    import astropy.units as u
    return float((angle[0] * u.Unit(angle[1])).to('deg').value)


def mpl_component_path(d, origin, nt='pyfloat'):
    """the transformed path of matplotlib's Circle/Ellipse for a component (matplotlib is a
    parameter of the model): built here directly with matplotlib, not through `regions`.  The sizes are
    handed over in the numeric type the region stores (matplotlib doubles a Circle's radius in that type)."""
    import matplotlib.patches as mp
    ox, oy = origin
    S = (lambda v: v) if nt in ('pyfloat',) else (lambda v: int(v)) if nt == 'pyint' else (lambda v: NP_TYPES[nt](v))
    if d['kind'] == 'circle':
        r = float(d['r']) if circle_radius_as_float() else S(d['r'])
        p = mp.Circle((d['c'][0] - ox, d['c'][1] - oy), r)
    elif d['kind'] == 'ellipse':
        p = mp.Ellipse((d['c'][0] - ox, d['c'][1] - oy), S(d['w']), S(d['h']), angle=deg_of(d['angle']))
    elif d['kind'] == 'regular_polygon':
        v = G.build(d).vertices
        p = mp.Polygon(np.column_stack([np.subtract(v.x, ox, dtype=float), np.subtract(v.y, oy, dtype=float)]))
    else:
        return None
    tp = p.get_transform().transform_path(p.get_path())
    return {'v': [[frac(F(v[0])), frac(F(v[1]))] for v in tp.vertices], 'c': [int(c) for c in tp.codes]}


def _src(obj):
    import inspect
    return inspect.getsource(obj)


def polygon_subtracts_in_float():
    """does PolygonPixelRegion.as_artist form vertices - origin in float (proposed_fixes/F182.diff)?
    Then the model's exact variant applies to integer vertex arrays as well."""
    from regions import PolygonPixelRegion
    return 'dtype=float' in _src(PolygonPixelRegion.as_artist)


def circle_radius_as_float():
    """does CirclePixelRegion.as_artist hand the radius to matplotlib as a float (proposed_fixes/F183.diff)?"""
    from regions import CirclePixelRegion
    return 'float(self.radius)' in _src(CirclePixelRegion.as_artist)


def text_normalizes():
    """does the current TextPixelRegion.as_artist normalise the keyword spellings
    (proposed_fixes/F181.diff)?  The model has both variants (Artist.regionKwV)."""
    import inspect
    from regions import TextPixelRegion
    return 'normalize_kwargs' in inspect.getsource(TextPixelRegion.as_artist)


def model_region(d, reg=None):
    j = G.model(d, reg)
    if 'angle' in d and d['kind'] != 'regular_polygon':
        j['deg'] = frac(F(deg_of(d['angle'])))
    if d['kind'] == 'text':
        j['text'] = d.get('text', 'label')
    if d['kind'] == 'regular_polygon':
        j['center'] = [frac(F(d['c'][0])), frac(F(d['c'][1]))]      # it has a `center` (compounds ask for it)
    if d['kind'] == 'compound':
        j['a'] = model_region(d['a'])
        j['b'] = model_region(d['b'])
    return j


# ------------------------------------------------------------------ sequences of calls over a pool of regions

# visual attribute -> the matplotlib property it must show up as ("visual overrides defaults"), per artist kind
VISUAL_PROPERTY = {
    'Patch': {'color': 'edgecolor', 'edgecolor': 'edgecolor', 'facecolor': 'facecolor', 'linewidth': 'linewidth',
              'linestyle': 'linestyle', 'fill': 'fill'},
    'Line2D': {'color': 'markeredgecolor', 'marker': 'marker', 'markersize': 'markersize', 'symsize': 'markersize',
               'linewidth': 'markeredgewidth', 'markeredgewidth': 'markeredgewidth'},
    'Text': {'color': 'color', 'fontname': 'fontname', 'font': 'fontfamily', 'fontsize': 'fontsize', 'fontstyle': 'fontstyle',
             'fontweight': 'fontweight', 'textangle': 'rotation', 'rotation': 'rotation'},
}
DS9_LINES = {
    'Patch': ['circle({x},{y},{r}) # width={lw} color={col}', 'circle({x},{y},{r}) # dash=1 width={lw}',
              'box({x},{y},{r},{r2},30) # color={col} width={lw} font="times 14 bold italic"',
              'ellipse({x},{y},{r},{r2},20) # fill=1 color={col}', 'annulus({x},{y},{r},{r3}) # width={lw} color={col}',
              'polygon({x},{y},{x2},{y},{x2},{y2}) # width={lw}', 'line({x},{y},{x2},{y2}) # color={col} width={lw}'],
    'Line2D': ['point({x},{y}) # point=x 7 color={col} width={lw}', 'point({x},{y}) # point=boxcircle color={col}',
               'point({x},{y}) # point=diamond 9 width={lw}'],
    'Text': ['text({x},{y}) # text={{label}} font="times 14 bold italic" color={col}',
             'text({x},{y}) # text={{hi}} font="courier 9 normal roman" textangle=30 width={lw}',
             'text({x},{y}) # text={{a b}} color={col}'],
}


def parse_ds9(line):
    from regions import Regions
    with warnings.catch_warnings():
        warnings.simplefilter('ignore')
        return Regions.parse('image\n' + line + '\n', format='ds9')[0]


def desc_from_region(reg):
    """description (exact floats) of a real region object (used for regions parsed from DS9 text)."""
    n = type(reg).__name__
    c = lambda p: [float(p.x), float(p.y)]
    ang = lambda a: [float(a.to('deg').value), 'deg']
    inc = 'absent'
    if 'include' in reg.meta:
        v = reg.meta['include']
        inc = {True: 'true', False: 'false'}.get(v, str(v)) if isinstance(v, bool) else ('1' if v == 1 else '0')
    d = {'include': inc}
    if n == 'CirclePixelRegion':
        d.update(kind='circle', c=c(reg.center), r=float(reg.radius))
    elif n in ('EllipsePixelRegion', 'RectanglePixelRegion'):
        d.update(kind='ellipse' if n[0] == 'E' else 'rectangle', c=c(reg.center), w=float(reg.width), h=float(reg.height), angle=ang(reg.angle))
    elif n == 'PolygonPixelRegion':
        d.update(kind='polygon', v=[[float(x), float(y)] for x, y in zip(reg.vertices.x, reg.vertices.y)])
    elif n == 'CircleAnnulusPixelRegion':
        d.update(kind='circle_annulus', c=c(reg.center), r1=float(reg.inner_radius), r2=float(reg.outer_radius))
    elif n == 'PointPixelRegion':
        d.update(kind='point', c=c(reg.center))
    elif n == 'TextPixelRegion':
        d.update(kind='text', c=c(reg.center), text=reg.text)
    elif n == 'LinePixelRegion':
        d.update(kind='line', a=c(reg.start), b=c(reg.end))
    else:
        raise ValueError(n)
    return d


def build_pool(case, only=None):
    """the regions of a sequence case; entries with 'share': j use the RegionVisual OBJECT of entry j.
    `only=i` builds entry i alone with a visual object of its own (the fresh region in isolation)."""
    regs = {}
    for i, e in enumerate(case['pool']):
        if only is not None and i != only:
            continue
        if e['src'] == 'ds9':
            reg = parse_ds9(e['line'])
        else:
            reg = build_typed(e['region'], 'pyfloat')
            j = e.get('share')
            src = case['pool'][j] if j is not None else e
            if j is not None and only is None:
                reg.visual = regs[j].visual                     # the same object
            else:
                reg.visual = build_visual(src.get('visual', []))
        regs[i] = reg
    return regs


def style_of(art):
    """every styling property the artist kinds have in common use, canonical and JSON-able."""
    from matplotlib.lines import Line2D
    from matplotlib.patches import Patch
    from matplotlib.text import Text
    col = lambda c: [round(float(v), 6) for v in __import__('matplotlib.colors').colors.to_rgba(c)]
    out = {'alpha': art.get_alpha(), 'zorder': float(art.get_zorder()), 'label': str(art.get_label()), 'visible': bool(art.get_visible())}
    if isinstance(art, Patch):
        out.update(edgecolor=col(art.get_edgecolor()), facecolor=col(art.get_facecolor()), linewidth=float(art.get_linewidth()),
                   linestyle=repr(art.get_linestyle()), dashes=repr(art._dash_pattern), fill=bool(art.get_fill()), hatch=art.get_hatch())
    elif isinstance(art, Line2D):
        out.update(color=col(art.get_color()), marker=canon_val(art.get_marker()), markersize=float(art.get_markersize()),
                   markeredgecolor=col(art.get_markeredgecolor()), markeredgewidth=float(art.get_markeredgewidth()),
                   markerfacecolor=repr(art.get_markerfacecolor()), fillstyle=art.get_fillstyle(), linewidth=float(art.get_linewidth()))
    elif isinstance(art, Text):
        out.update(color=col(art.get_color()), fontsize=float(art.get_fontsize()), fontweight=str(art.get_fontweight()),
                   fontstyle=str(art.get_fontstyle()), fontfamily=list(art.get_fontfamily()), rotation=float(art.get_rotation()),
                   ha=art.get_ha(), va=art.get_va(), text=art.get_text(), usetex=bool(art.get_usetex()))
    return common_json(out)


def style_of(art, _impl=style_of):
    try:
        return _impl(art)
    except Exception as e:           # a stored value matplotlib accepted but cannot report back
        return {'unreadable': f'{type(e).__name__}: {e}'[:120]}


def visual_checks(art, ak, visual, caller):
    """'visual overrides defaults': every stored visual attribute that maps to one matplotlib property, and is
    not overridden by a caller keyword, shows up on the artist.  -> [key, property, expected, observed]"""
    can = CANON[ak]
    table = VISUAL_PROPERTY[ak]
    ds9 = visual.get('default_style') == 'ds9'
    same = lambda p: 'fontfamily' if p == 'fontname' else p          # set_fontname IS set_fontfamily
    props = [same(table[k]) for k in visual if k in table]
    called = {same(can.get(k, k)) for k in caller}
    if ak == 'Patch' and 'color' in called:
        called |= {'edgecolor', 'facecolor'}
    out = []
    for k, v in visual.items():
        prop = table.get(k)
        if prop is None or props.count(same(prop)) != 1 or same(prop) in called or v is None:
            continue
        if prop == 'linestyle' and not isinstance(v, str):
            continue
        if ds9 and isinstance(v, str) and v == 'green':
            v = '#00ff00'
        if prop == 'fontname':
            exp, obs = [v], list(art.get_fontfamily())
        elif prop == 'marker':
            exp, obs = canon_val(v), canon_val(art.get_marker())
        else:
            rb = readback(art, ak, prop, v)
            if rb is None or rb[0] == 'getter':
                continue
            exp, obs = rb
        out.append([k, prop, common_json(exp), common_json(obs)])
    return out


def plausible(k, v):
    """a value of the kind the attribute is meant to hold (the malformed stream is for the single-call cases)."""
    num = lambda x: isinstance(x, (int, float)) and not isinstance(x, bool)
    if k in ('color', 'edgecolor', 'facecolor'):
        return isinstance(v, str) and v in COLORS
    if k in ('linewidth', 'symsize', 'markeredgewidth', 'fontsize', 'textangle', 'rotation'):
        return num(v)
    if k == 'markersize':
        return num(v) or isinstance(v, str) and v.isdigit()
    if k == 'fill':
        return isinstance(v, bool)
    if k == 'linestyle':
        return v in LINESTYLES or isinstance(v, list)
    if k == 'marker':
        return isinstance(v, str) and (v in ('o', 's', 'D', 'x', '+', '*') or v.startswith('ds9:'))
    if k in ('fontname', 'font'):
        return v in ('helvetica', 'times', 'courier', 'serif', 'monospace', 'sans-serif')
    if k == 'fontstyle':
        return v in ('normal', 'italic', 'oblique')
    if k == 'fontweight':
        return v in ('normal', 'bold', 'light')
    if k == 'default_style':
        return v in ('ds9', 'mpl', None)
    return False


def gen_sequence(rng):
    col = lambda: rng.choice(COLORS)
    pool = []
    kinds = rng.sample(['Patch', 'Patch', 'Line2D', 'Text', 'Annulus'], rng.randint(2, 4))
    if not ({'Patch', 'Annulus'} & set(kinds)):
        kinds[0] = 'Patch'
    shared_items = None
    for ak in kinds:
        a = 'Patch' if ak == 'Annulus' else ak
        if rng.random() < 0.4:
            fmt = dict(x=rng.randint(2, 60), y=rng.randint(2, 60), r=rng.randint(2, 9), lw=rng.choice([2, 3, 4]), col=col())
            fmt.update(r2=fmt['r'] + rng.randint(1, 5), r3=fmt['r'] + rng.randint(1, 5), x2=fmt['x'] + rng.randint(3, 9), y2=fmt['y'] + rng.randint(3, 9))
            lines = DS9_LINES[a] if ak != 'Annulus' else [l for l in DS9_LINES['Patch'] if l.startswith('annulus')]
            pool.append({'src': 'ds9', 'line': rng.choice(lines).format(**fmt), 'ak': a})
            continue
        kind = {'Patch': rng.choice(['circle', 'ellipse', 'rectangle', 'polygon', 'regular_polygon', 'line']),
                'Annulus': rng.choice(list(ANNULI)), 'Line2D': 'point', 'Text': 'text'}[ak]
        d = G.gen_simple(rng, kind=kind, scale=rng.choice([1.0, 5.0]), center_scale=rng.choice([0, 10, 100]), include='absent')
        e = {'src': 'desc', 'region': d, 'ak': a}
        if shared_items is not None and rng.random() < 0.6:
            e['share'] = shared_items
        else:
            if rng.random() < 0.5:
                # attributes every artist kind can take: suitable for a visual object shared across kinds
                items = [['color', col()], ['linewidth', rng.choice([2, 3, 5])]]
                if rng.random() < 0.6:
                    items.insert(1, ['default_style', rng.choice(['ds9', 'mpl'])])
                if rng.random() < 0.6:
                    items += FONT_KEYS(rng)
                rng.shuffle(items)
                e['visual'] = items
                shared_items = len(pool)
            else:
                e['visual'] = [it for it in gen_visual(rng, a) if plausible(it[0], it[1])]
        pool.append(e)
    steps = []
    for _ in range(rng.randint(2, 5)):
        i = rng.randrange(len(pool))
        a = pool[i]['ak']
        d0 = pool[i].get('region') or {'kind': 'point', 'c': [10.0, 10.0]}
        steps.append({'i': i, 'via': rng.choice(['as_artist', 'as_artist', 'plot']), 'origin': gen_origin(rng, d0),
                      'origin_type': rng.choice(ORIGIN_TYPES), 'caller': gen_caller(rng, a, 3) if rng.random() < 0.6 else []})
    if all(not st['caller'] for st in steps):
        steps[0]['caller'] = gen_caller(rng, pool[steps[0]['i']]['ak'], 3)
    return {'kind': 'sequence', 'pool': pool, 'steps': steps}


_ISOLATION_BUDGET = 6


def isolated_sequence(case):
    """the observation of a sequence case in a fresh Python process (same source tree)."""
    import os
    import subprocess
    import sys
    code = ('import json, os, sys, warnings\n'
            'sys.path.insert(0, %r)\n'
            'if os.environ.get("REGIONS_SRC"): sys.path.insert(0, os.environ["REGIONS_SRC"])\n'
            'import matplotlib; matplotlib.use("Agg"); warnings.simplefilter("ignore")\n'
            'from harness import c18, common\n'
            'case = json.loads(sys.stdin.read())\n'
            'print("RESULT" + json.dumps(common.jsonable(c18.Check()._real_sequence(case))))\n') % os.path.dirname(os.path.dirname(os.path.abspath(__file__)))
    try:
        p = subprocess.run([sys.executable, '-c', code], input=json.dumps(case), capture_output=True, text=True, timeout=120)
        for line in p.stdout.splitlines():
            if line.startswith('RESULT'):
                r = json.loads(line[6:])
                r['isolated'] = True
                return r
    except Exception:
        pass
    return None


def call_step(reg, st):
    """one as_artist()/plot() call under the recorder -> observation of the artist."""
    caller = {k: v for k, v in st['caller']}
    origin = origin_arg(st)
    rec_out = {}
    if st['via'] == 'plot':
        plot_axes()
    with Recorder() as rec:
        try:
            if st['via'] == 'plot':
                art = reg.plot(origin=origin, ax=plot_axes(), **caller)
                art.remove()
            else:
                art = reg.as_artist(origin=origin, **caller)
        except Exception as e:
            return {'exc': type(e).__name__, 'exc_msg': str(e)[:160]}, None
    rec_out['cls'] = real_class(art).__name__
    rec_out['ctor'] = canon_ctor(*rec.log[-1]) if rec.log else None
    rec_out['geom'] = geom_of(art)
    rec_out['style'] = style_of(art)
    return rec_out, art


def d_kind(d):
    return d['kind']


class Check(PropertyCheck):
    id = 'C18'
    lean_targets = ['RegionsVerif.Props.C18', 'RegionsVerif.Bridge.InlineGlueC18', 'RegionsVerif.Props.C18Bezier']
    namespaces = ['RegionsVerif.Props.C18', 'RegionsVerif.Bridge.InlineGlueC18', 'RegionsVerif.Props.C18B']

    def _inline_glue(self):
        # tie T: normal forms of the glue methods (tools/inlineglue.py, group C18)
        import importlib.util, os
        from .common import VERIF
        spec = importlib.util.spec_from_file_location('inlineglue', os.path.join(VERIF, 'tools', 'inlineglue.py'))
        mod = importlib.util.module_from_spec(spec)
        spec.loader.exec_module(mod)
        return mod.main(['C18'])

    def translate(self):
        return self._inline_glue() + self._bezier_constants()

    @staticmethod
    def _bezier_constants():
        """tie on the constants of Props/C18Bezier.lean: its control-point table is matplotlib's `Path.unit_circle()`
        (8 cubic Beziers, codes MOVETO + 24 x CURVE4 + CLOSEPOLY) to 1e-8 - the theorem `seg_radial_perturbed`
        covers control points within that distance of the ideal ones."""
        import math
        import re
        from .common import VERIF
        try:
            from matplotlib.path import Path
            src = open(os.path.join(VERIF, 'lean', 'RegionsVerif', 'Props', 'C18Bezier.lean')).read()
            env = {'H': math.sqrt(0.5), 'MAGIC': 2652031 / 10000000}

            def table(name):
                body = re.search(r'def %s : Nat → ℝ\n((?:  \|.*\n)+)' % name, src).group(1)
                d = {int(k): eval(e, {}, env) for k, e in re.findall(r'\| (\d+) => ([^|\n]+)', body)}
                return [d[i] for i in range(25)]
            lean = np.array(list(zip(table('vx'), table('vy'))))
            mpl = Path.unit_circle()
            if list(mpl.codes) != [1] + [4] * 24 + [79] or not np.array_equal(mpl.vertices[25], mpl.vertices[0]):
                return ['Path.unit_circle() is no longer MOVETO + 24 x CURVE4 + CLOSEPOLY (C18Bezier models 8 cubic segments)']
            worst = float(np.abs(lean - mpl.vertices[:25]).max())
            if not worst < 1e-8:
                return [f'control points of Props/C18Bezier.lean differ from Path.unit_circle() by {worst}']
        except Exception as e:
            return [f'C18Bezier constants could not be compared with matplotlib: {type(e).__name__}: {e}']
        return []
    level = 'proof'
    parallel = True
    rule = ('circle, ellipse, rectangle, polygon (simple and self-intersecting), regular polygon and the three annuli x sizes 1e-3..1e6 '
            'x centres to 1e6 x angles of any magnitude in deg/rad/arcmin/hourangle x include flag x plot origins (0,0) / integer / '
            'half-integer / dyadic / near / far (1e6) / negative, x != y, given as tuple, list, array or numpy scalars, through '
            'as_artist() and plot(ax); coordinates, vertices and sizes given as Python float/int, numpy int64/int32/int16/uint8, '
            'float32, float64 (the model sees the exact rational); point, line, text regions x positions x origins; concentric and '
            'non-concentric and/or/xor compounds; sequences of 2-5 as_artist()/plot() calls over a pool of 2-4 regions of different '
            'artist kinds (patch, point, text, annulus), built or parsed from DS9 text (width/font/dash/point/fill), some sharing one '
            'RegionVisual object, with and without caller kwargs - every artist against a fresh equal region, the stored visual '
            'attributes against the artist properties, visual dict unchanged (suspicious sequences re-evaluated in a fresh '
            'interpreter); histories (build, use, re-parametrise in place, draw; second artist with another origin); '
            'RegionBoundingBox.as_artist() and .plot(origin, ax) (asymmetric origins of every container type, negative-index boxes: '
            'corners = extent - origin, the as_artist() rectangle moved, added to the axes); mixed-shape same-centre xor compounds '
            '(circle/ellipse/rectangle/regular polygon); visual dictionaries (as the DS9 reader builds them, '
            'user-built mpl-style, arbitrary valid keys) x caller kwargs incl. matplotlib aliases. Query points on a cloud scaled to '
            'the shape and at relative distances 1e-6..1e-1 from its boundary. Non-trivial = a shape case with at least one point '
            'inside and one outside the patch, or a case with caller kwargs.')
    assumptions = [
        'matplotlib patch/path semantics is a PARAMETER of the Lean model (Rectangle = lower-left corner + rotation in degrees about it; '
        'Ellipse = centre + full axes; CLOSEPOLY ignores its vertex; fill = non-zero winding rule); the real run exercises the real '
        'patches through an own Bezier flattening + winding-number computation, not through Path.contains_point',
        'points within 3e-4 (relative, curved shapes: Bezier approximation of arcs) or max(1e-9, 1e-12*(|p|+|o|+|c|)/size) (straight '
        'shapes: float rounding of the anchor) of the boundary are excepted',
        'an excluded region (include False/0) answers contains() with the complement by definition (C01); its artist outlines the '
        'excluded shape, so the oracle compares the patch with the complement of contains() there',
        'self-intersecting polygons: parts wound around an even non-zero number of times are inside under the renderers\' non-zero '
        'rule and outside under contains()\'s even-odd rule (theorem polygon_fill_rules_agree characterises exactly this set); '
        'such points are counted as fill-rule-excepted',
        'visual dictionaries that matplotlib rejects by themselves (a key the artist class does not know, e.g. symbol on a Circle, '
        'or fill=True on a point) are outside the property; they are counted in the bucket mpl_rejects_visual and only the '
        'constructor arguments are compared',
        'astropy unit conversion angle.to("deg") and np.cos/np.sin are parameters',
        'numpy dtype arithmetic (NEP 50: integer array - Python int stays in the array dtype) is a parameter of the integer-polygon '
        'model; float32 vertex arrays are compared within 2^-22*scale (rounding of the caller\'s own dtype)',
        'every artist\'s geometry (centre / xy / width / height / angle / radius / vertices / path corners / arrow ends / text and '
        'point position) is compared with the region\'s parameters minus the plot origin from first principles within 1e-9*scale',
    ]
    validated_only = [
        'that matplotlib\'s real patches have the documented meaning the model assumes (validated by the winding-number oracle on the '
        'real transformed paths)',
        'that the Bezier control polygon of a Circle/Ellipse path has the orientation of the curve (annulus hole): validated on the '
        'flattened real path by signed areas of opposite sign and by membership of points in the hole',
        'that a rotated rectangle\'s / ellipse\'s outline winds exactly once around its interior points (needed to turn annulus_hole '
        'into "ring = outer minus inner"): validated by the oracle',
        'matplotlib honouring the merged keyword dictionary (read back through the artist getters)',
    ]

    # ------------------------------------------------------------------ generation
    def generate(self, rng, tier):
        cases = []
        n = 520 if tier == 'quick' else 12000
        kinds = G.SIMPLE_KINDS + G.EMPTY_KINDS
        for i in range(n):
            kind = kinds[i % len(kinds)] if i < 3 * len(kinds) else rng.choice(kinds)
            m = rng.random()
            if m < 0.6:
                d = G.gen_simple(rng, kind=kind, scale=rng.choice([1e-3, 0.1, 1.0, 1.0, 3.0, 10.0, 100.0, 1e3, 1e6]),
                                 center_scale=rng.choice([0, 1, 10, 100, 1e4, 1e6]))
            else:
                d = G.gen_simple(rng, kind=kind, scale=rng.choice([1.0, 5.0]), center_scale=rng.choice([0, 10, 100]))
            ak = artist_kind(kind)
            nt = rng.choice(NUMTYPES)
            if nt not in ('pyfloat', 'float64') and rng.random() < 0.7:
                # typed coordinates: pixel-like magnitudes
                d = G.gen_simple(rng, kind=kind, scale=rng.choice([3.0, 10.0, 40.0]), center_scale=rng.choice([0, 10, 100, 1e4]),
                                 include=d.get('include'))
            if kind in ('ellipse', 'rectangle') and rng.random() < 0.25:
                d['h'] = d['w']                                     # circular ellipse / square, any angle
            elif kind in ('ellipse_annulus', 'rectangle_annulus') and rng.random() < 0.25:
                d['h1'] = d['w1']; d['h2'] = d['w2']                # circular / square components
            elif kind == 'polygon' and rng.random() < 0.2:
                d['v'] = d['v'] + [list(d['v'][0])] if rng.random() < 0.6 else d['v'][:2] + [list(d['v'][1])] + d['v'][2:]
                # the outline closed explicitly (first vertex repeated at the end) / a vertex given twice
            d = retype_desc(d, nt)
            npts = 0 if kind in G.EMPTY_KINDS else (24 if tier == 'quick' else 30)
            case = {'kind': 'shape', 'region': d, 'numtype': nt, 'origin': gen_origin(rng, d),
                    'origin_type': rng.choice(ORIGIN_TYPES), 'via': rng.choice(['as_artist', 'as_artist', 'plot']),
                    'visual': gen_visual(rng, ak), 'caller': gen_caller(rng, ak),
                    'pts': [list(p) for p in query_points(rng, d, npts)]}
            if rng.random() < 0.6:
                case['origin2'] = gen_origin(rng, d)              # a second artist from the same object
            if rng.random() < 0.4:
                # history: the object was built with other (or the same) parameters, used, and re-parametrised in place
                import copy
                if rng.random() < 0.3:
                    pd = copy.deepcopy(d)
                else:
                    pd = retype_desc(G.gen_simple(rng, kind=kind, scale=rng.choice([1.0, 3.0, 10.0]), center_scale=rng.choice([0, 5, 100])), nt)
                    if kind == 'text':
                        pd['text'] = 'old label'
                    if kind == 'regular_polygon':
                        pd['n'] = d['n']
                uses = ['as_artist', 'plot', 'bounding_box', 'contains', 'warm']
                case['prev'] = {'region': pd, 'visual': gen_visual(rng, ak), 'origin': gen_origin(rng, pd),
                                'use': ['as_artist'] + rng.sample(uses, rng.randint(0, 3)),
                                'visual_mode': rng.choice(['assign', 'mutate'])}
            cases.append(case)
        n2 = 60 if tier == 'quick' else 1500
        for _ in range(n2):
            leaf = lambda k: G.gen_simple(rng, kind=k, scale=rng.choice([1.0, 4.0]), center_scale=5, include='absent')
            leaf_kinds = ['circle', 'ellipse', 'rectangle', 'regular_polygon']
            ka = rng.choice(leaf_kinds)
            kb = rng.choice([k for k in leaf_kinds if k != ka]) if rng.random() < 0.7 else ka     # mostly mixed shapes
            a, b = leaf(ka), leaf(kb)
            if rng.random() < 0.85:
                b['c'] = list(a['c'])
            d = {'kind': 'compound', 'op': rng.choice(['xor', 'xor', 'xor', 'xor', 'and', 'or']), 'a': a, 'b': b, 'include': 'absent'}
            big = a if G.approx_size(a) > G.approx_size(b) else b
            cases.append({'kind': 'compound', 'region': d, 'origin': gen_origin(rng, a), 'origin_type': rng.choice(ORIGIN_TYPES),
                          'via': rng.choice(['as_artist', 'plot']),
                          'visual': gen_visual(rng, 'Patch') if rng.random() < 0.5 else [], 'caller': gen_caller(rng, 'Patch'),
                          'pts': [list(p) for p in query_points(rng, big, 20)]})
        n3 = 200 if tier == 'quick' else 6000
        for _ in range(n3):
            ak = rng.choice(['Patch', 'Line2D', 'Text'])
            cases.append({'kind': 'kwargs', 'artist': ak, 'visual': gen_visual(rng, ak), 'caller': gen_caller(rng, ak, 4)})
        n5 = 120 if tier == 'quick' else 3000
        for _ in range(n5):
            cases.append(gen_sequence(rng))
        n4 = 60 if tier == 'quick' else 1000
        for _ in range(n4):
            k = rng.choice([3, 40, 10 ** 4])
            x0, y0 = rng.randint(-k, k), rng.randint(-k, k)
            box = [x0, x0 + rng.randint(1, 12), y0, y0 + rng.randint(1, 12)]
            case = {'kind': 'bbox', 'box': box, 'caller': gen_caller(rng, 'Patch'), 'via': rng.choice(['as_artist', 'plot', 'plot'])}
            if case['via'] == 'plot' and rng.random() < 0.9:
                # RegionBoundingBox.plot(origin=..., ax=...): asymmetric origins of every container type
                case['origin'] = gen_origin(rng, {'kind': 'rectangle', 'c': [0.5 * (box[0] + box[1]), 0.5 * (box[2] + box[3])],
                                                  'w': box[1] - box[0], 'h': box[3] - box[2]})
                case['origin_type'] = rng.choice(ORIGIN_TYPES)
            cases.append(case)
        return cases

    # ------------------------------------------------------------------ real
    def real(self, case):
        import matplotlib
        matplotlib.use('Agg')
        with warnings.catch_warnings():
            warnings.simplefilter('ignore')
            return self._real(case)

    def _real(self, case):
        from regions import RegionBoundingBox, RegionVisual
        kind = case['kind']
        caller = {k: v for k, v in case.get('caller', [])}
        if kind == 'sequence':
            out = self._real_sequence(case)
            # a sequence must be judged by ITS OWN history: when something looks wrong, evaluate the case again in a
            # fresh interpreter (state left behind by other cases of this process cannot be replayed) - a few times per process
            global _ISOLATION_BUDGET
            if _ISOLATION_BUDGET > 0 and self.oracle(case, out):
                _ISOLATION_BUDGET -= 1
                iso = isolated_sequence(case)
                if iso is not None:
                    out = iso
            return out
        if kind == 'kwargs':
            v = build_visual(case['visual'])
            out = {'visual': canon_kw(v), 'define': canon_kw(v.define_mpl_kwargs(case['artist']))}
            merged = v.define_mpl_kwargs(case['artist'])
            merged.update(caller)
            out['final_by_hand'] = canon_kw(merged)
            return out
        if kind == 'bbox':
            bb = RegionBoundingBox(*case['box'])
            before = repr(bb)
            if case.get('via') == 'plot':
                plot_axes()
            with Recorder() as rec:
                if case.get('via') == 'plot':
                    kw = {'origin': origin_arg(case)} if 'origin' in case else {}
                    art = bb.plot(ax=plot_axes(), **kw, **caller)
                    in_axes = art.axes is plot_axes()
                    art.remove()
                else:
                    art = bb.as_artist(**caller)
                    in_axes = None
            out = {'cls': real_class(art).__name__, 'ctor': canon_ctor(*rec.log[-1]), 'in_axes': in_axes,
                   'bbox_unchanged': repr(bb) == before}
            polys, _ = patch_polys(art)
            out['corners'] = [[float(x), float(y)] for x, y in polys[0][:4]]
            out['getters'] = self._getters(art, 'Patch', caller)
            # the rectangle bbox.as_artist() gives (no origin argument there)
            ref, _ = patch_polys(bb.as_artist())
            out['as_artist_corners'] = [[float(x), float(y)] for x, y in ref[0][:4]]
            return out
        # shape / compound
        d = case['region']
        reg = build_region(case)
        ak = artist_kind(d['kind'])
        out = {'visual': canon_kw(reg.visual), 'artist_kind': ak}
        out['define'] = canon_kw(reg.visual.define_mpl_kwargs(getattr(reg, '_mpl_artist', 'Patch')))
        out['model_region'] = model_region(d, reg)
        origin = origin_arg(case)
        origin_before = repr(origin)
        snap0 = snapshot(reg)
        art = None
        if case.get('via') == 'plot' or case.get('prev'):
            plot_axes()                          # created outside the recorder
        with Recorder() as rec:
            try:
                if case.get('via') == 'plot':
                    art = reg.plot(origin=origin, ax=plot_axes(), **caller)
                    out['in_axes'] = art.axes is plot_axes()
                    art.remove()
                else:
                    art = reg.as_artist(origin=origin, **caller)
            except Exception as e:
                out['exc'] = type(e).__name__
                out['exc_msg'] = str(e)[:160]
        if d['kind'] == 'polygon':
            out['vertex_dtype'] = str(reg.vertices.x.dtype)
        # the top-level constructor call is the last one recorded (components of an annulus come first)
        expected_top = {'point': 'Line2D', 'text': 'Text', 'line': 'Arrow', 'circle': 'Circle', 'ellipse': 'Ellipse',
                        'rectangle': 'Rectangle', 'polygon': 'Polygon', 'regular_polygon': 'Polygon'}.get(d['kind'], 'PathPatch')
        tops = [e for e in rec.log if e[0] == expected_top]
        out['ctor'] = canon_ctor(*tops[-1]) if tops else None
        out['n_ctor_calls'] = len(rec.log)
        if art is None:
            # is it the combination that fails?  (each dictionary alone acceptable to matplotlib)
            out['alone'] = {}
            for label, vis, cal in (('visual_only', case.get('visual', []), {}), ('caller_only', [], caller), ('bare', [], {})):
                c2 = dict(case, visual=vis)
                try:
                    build_region(c2).as_artist(origin=origin, **cal)
                    out['alone'][label] = 'ok'
                except Exception as e:
                    out['alone'][label] = type(e).__name__
            return out
        out['cls'] = real_class(art).__name__
        out['cls_module'] = real_class(art).__module__
        # drawing leaves the region and the origin argument alone; a second artist made from the same object
        # with another origin is that origin's artist and does not share state with the first one
        g1 = geom_of(art)
        if 'origin2' in case:
            o2 = origin_arg(dict(case, origin=case['origin2']))
            try:
                art2 = reg.as_artist(origin=o2, **caller)
                out['geom1'] = g1
                out['geom2'] = geom_of(art2)
                out['second_is_new_object'] = art2 is not art
                out['first_unchanged'] = geom_of(art) == g1
            except Exception as e:
                out['second_exc'] = f'{type(e).__name__}: {e}'[:160]
        out['region_unchanged'] = snapshot(reg) == snap0
        out['origin_unchanged'] = repr(origin) == origin_before
        out['getters'] = self._getters(art, ak, dict(caller, **({'width': caller.get('width', 0.1)} if d['kind'] == 'line' else {})))
        ox, oy = float(case['origin'][0]), float(case['origin'][1])
        from matplotlib.lines import Line2D
        from matplotlib.patches import Patch
        from matplotlib.text import Text
        # what can be observed depends on the class that actually came back, not on the one expected
        if isinstance(art, Line2D):
            out['data'] = [[float(v) for v in np.ravel(art.get_xdata())], [float(v) for v in np.ravel(art.get_ydata())]]
        elif isinstance(art, Text):
            out['position'] = [float(v) for v in art.get_position()]
            out['text'] = art.get_text()
        elif isinstance(art, Patch):
            polys, tp = patch_polys(art)
            if out['cls'] == 'Arrow' and len(tp.vertices) >= 5:
                v = tp.vertices
                out['arrow_tail'] = [float(0.5 * (v[0][0] + v[1][0])), float(0.5 * (v[0][1] + v[1][1]))]
                out['arrow_tip'] = [float(v[4][0]), float(v[4][1])]
            out['n_sub'] = len(polys)
            out['areas'] = [signed_area(p) for p in polys]
            out['attrs'] = self._attrs(art)
            from regions import PixCoord
            xs = np.array([p[0] for p in case['pts']], dtype=float)
            ys = np.array([p[1] for p in case['pts']], dtype=float)
            out['contains'] = [bool(b) for b in np.ravel(reg.contains(PixCoord(xs, ys)))] if len(xs) else []
            out['winding'] = [[winding(p, x - ox, y - oy) for p in polys] for x, y in zip(xs, ys)]
            out['spec'] = []
            for p in case['pts']:
                ins, mg = self._spec(d, F(p[0]), F(p[1]))
                out['spec'].append([bool(ins), float(mg)])
        return out

    def _real_sequence(self, case):
        regs = build_pool(case)
        out = {'pool': [], 'steps': []}
        for i in sorted(regs):
            out['pool'].append({'desc': desc_from_region(regs[i]) if case['pool'][i]['src'] == 'ds9' else case['pool'][i]['region'],
                                'visual': canon_kw(regs[i].visual), 'cls': type(regs[i]).__name__})
        for st in case['steps']:
            reg = regs[st['i']]
            ak = case['pool'][st['i']]['ak']
            vis0 = canon_kw(reg.visual)
            snap0 = snapshot(reg)
            visual_plain = dict(reg.visual)
            o, art = call_step(reg, st)
            o['visual_unchanged'] = canon_kw(reg.visual) == vis0
            o['region_unchanged'] = snapshot(reg) == snap0
            caller = {k: v for k, v in st['caller']}
            if art is not None:
                if d_kind(out['pool'][st['i']]['desc']) == 'line':
                    caller = dict(caller, width=caller.get('width', 0.1))
                o['getters'] = self._getters(art, ak, caller)
                o['visual_checks'] = visual_checks(art, ak, visual_plain, caller)
            # the same call on a FRESH equal region built in isolation
            fresh = build_pool(case, only=st['i'])[st['i']]
            f, _ = call_step(fresh, st)
            o['fresh'] = f
            out['steps'].append(o)
        return out

    @staticmethod
    def _spec(d, x, y):
        """exact membership in the SHAPE (include flag ignored) and relative margin."""
        if d['kind'] == 'compound':
            a, ma = G.spec_raw(d['a'], x, y)
            b, mb = G.spec_raw(d['b'], x, y)
            return {'and': a and b, 'or': a or b, 'xor': a != b}[d['op']], min(ma, mb)
        return G.spec_raw(d, x, y)

    @staticmethod
    def _attrs(art):
        n = real_class(art).__name__
        if n == 'Circle':
            return {'center': [float(v) for v in art.get_center()], 'radius': float(art.get_radius())}
        if n == 'Ellipse':
            return {'center': [float(v) for v in art.get_center()], 'width': float(art.get_width()),
                    'height': float(art.get_height()), 'angle': float(art.get_angle())}
        if n == 'Rectangle':
            return {'xy': [float(v) for v in art.get_xy()], 'width': float(art.get_width()), 'height': float(art.get_height()),
                    'angle': float(art.get_angle()), 'rotation_point': art.rotation_point}
        if n == 'Polygon':
            return {'xy': [[float(v[0]), float(v[1])] for v in art.get_xy()], 'closed': bool(art.get_closed())}
        if n == 'PathPatch':
            p = art.get_path()
            return {'verts': [[float(v[0]), float(v[1])] for v in p.vertices], 'codes': [int(c) for c in p.codes]}
        return {}

    @staticmethod
    def _getters(art, ak, caller):
        out = []
        for k, v in caller.items():
            rb = readback(art, ak, k, v)
            if rb is not None:
                out.append([k, common_json(rb[0]), common_json(rb[1])])
        return out

    # ------------------------------------------------------------------ model
    def requests(self, case):
        kind = case['kind']
        cv = lambda items: [[k, canon_val(v)] for k, v in items]
        if kind == 'kwargs':
            v = build_visual(case['visual'])
            return [{'op': 'c18.kwargs', 'artist': case['artist'], 'visual': canon_kw(v), 'caller': cv(case['caller'])}]
        if kind == 'bbox':
            if case.get('via') == 'plot':
                # plot = to_region().plot(origin, ax): RectanglePixelRegion(PixCoord(*center[::-1]), width=nx, height=ny), angle 0
                x0, x1, y0, y1 = case['box']
                o = case.get('origin', [0, 0])
                reg = {'kind': 'rectangle', 'include': 'absent', 'c': [frac(Fraction(x1 - 1 + x0, 2)), frac(Fraction(y1 - 1 + y0, 2))],
                       'w': str(x1 - x0), 'h': str(y1 - y0), 'dir': ['1', '0'], 'deg': '0'}
                return [{'op': 'c18.artist', 'region': reg, 'origin': [frac(F(o[0])), frac(F(o[1]))], 'visual': [],
                         'caller': cv(case['caller'])}]
            return [{'op': 'c18.bbox', 'box': case['box']}]
        if kind == 'sequence':
            regs = build_pool(case)
            reqs = []
            for st in case['steps']:
                reg = regs[st['i']]
                e = case['pool'][st['i']]
                d = desc_from_region(reg) if e['src'] == 'ds9' else e['region']
                req = {'op': 'c18.artist', 'region': model_region(d, reg), 'origin': [frac(F(st['origin'][0])), frac(F(st['origin'][1]))],
                       'visual': canon_kw(reg.visual), 'caller': cv(st['caller']), 'text_normalize': text_normalizes()}
                comps = component_descs(d)
                if comps:
                    o = (float(st['origin'][0]), float(st['origin'][1]))
                    req['inner_path'] = mpl_component_path(comps[0], o)
                    req['outer_path'] = mpl_component_path(comps[1], o)
                reqs.append(req)
            return reqs
        d = case['region']
        reg = build_region(case)
        req = {'op': 'c18.artist', 'region': model_region(d, reg), 'origin': [frac(F(case['origin'][0])), frac(F(case['origin'][1]))],
               'visual': canon_kw(reg.visual), 'caller': cv(case['caller']), 'text_normalize': text_normalizes()}
        nt = case.get('numtype', 'pyfloat')
        if d['kind'] == 'polygon' and nt in INT_DTYPES and not polygon_subtracts_in_float():
            bits, signed = INT_DTYPES[nt]
            req['vdtype'] = {'bits': bits, 'signed': signed}
            req['v_int'] = [[int(p[0]), int(p[1])] for p in d['v']]
            req['origin_pyint'] = origin_pyint(case)
        comps = component_descs(d)
        if comps:
            import matplotlib
            matplotlib.use('Agg')
            o = (float(case['origin'][0]), float(case['origin'][1]))
            with warnings.catch_warnings():
                warnings.simplefilter('ignore')
                req['inner_path'] = mpl_component_path(comps[0], o, nt)
                req['outer_path'] = mpl_component_path(comps[1], o, nt)
        return [req]

    def model(self, case, replies):
        return list(replies) if case['kind'] == 'sequence' else replies[0]

    @staticmethod
    def _tol(case):
        d = case['region']
        cc = G.approx_center(d)
        return 1e-9 * (G.approx_size(d) + abs(cc[0]) + abs(cc[1]) + abs(case['origin'][0]) + abs(case['origin'][1]) + 1e-12)

    def _args_equal(self, case, rargs, margs, cls):
        """constructor arguments: numbers the code passes through or obtains by ONE float
        subtraction are compared exactly (the model's exact value rounded to double); the
        rectangle anchor and rectangle paths (several float operations) within 1e-9*scale."""
        Q = Fraction
        ex = lambda m, r: float(Q(m)) == float(r)
        tol = self._tol(case)
        cl = lambda m, r: abs(float(Q(m)) - float(r)) <= tol
        if set(rargs) != set(margs):
            return False
        for key, rv in rargs.items():
            mv = margs[key]
            if key == 's':
                ok = rv == mv
            elif key == 'codes':
                ok = [int(c) for c in mv] == rv
            elif key == 'xy' and cls == 'Rectangle':
                ok = cl(mv[0], rv[0]) and cl(mv[1], rv[1])
            elif key == 'xy' and cls == 'Polygon':
                if case.get('numtype') == 'float32':
                    # float32 vertex array - origin may be formed in float32: the code's own rounding
                    t32 = 2.0 ** -22 * (tol / 1e-9)
                    cmpf = lambda m, r: abs(float(Q(m)) - float(r)) <= t32
                else:
                    cmpf = ex
                ok = len(mv) == len(rv) and all(cmpf(m[0], r[0]) and cmpf(m[1], r[1]) for m, r in zip(mv, rv))
            elif key == 'xy':
                ok = ex(mv[0], rv[0]) and ex(mv[1], rv[1])
            elif key == 'verts':
                rect = case['region']['kind'] == 'rectangle_annulus' or (
                    case['region']['kind'] == 'compound' and {'rectangle', 'regular_polygon'} & {case['region']['a']['kind'], case['region']['b']['kind']})
                cmpf = cl if rect else ex
                ok = len(mv) == len(rv) and all(cmpf(m[0], r[0]) and cmpf(m[1], r[1]) for m, r in zip(mv, rv))
            elif key in ('xdata', 'ydata'):
                ok = len(mv) == len(rv) and all(ex(m, r) for m, r in zip(mv, rv))
            else:
                ok = ex(mv, rv)
            if not ok:
                return False
        return True

    def equal(self, case, real, model):
        if model is None or 'fail' in model:
            return False
        kind = case['kind']
        if kind == 'sequence':
            if len(model) != len(real['steps']):
                return False
            for st, o, m in zip(case['steps'], real['steps'], model):
                if 'fail' in m:
                    return False
                if 'exc' in o or 'exc' in m or 'kw_exc' in m:
                    if 'exc' in o and 'exc' not in m and 'kw_exc' not in m and 'exc' not in o['fresh']:
                        return False          # only THIS object's call failed
                    continue                  # matplotlib rejections are not modelled
                ctor = o['ctor']
                pc = {'kind': 'shape', 'region': real['pool'][st['i']]['desc'], 'origin': st['origin'], 'numtype': 'pyfloat'}
                if ctor is None or ctor['name'] != m['kind'] or not self._args_equal(pc, ctor['args'], m['args'], m['kind']):
                    return False
                if ctor['kw'] != m['kw']:
                    return False
            return True
        if kind == 'kwargs':
            return real['define'] == model['define'] and real['final_by_hand'] == model['final']
        if kind == 'bbox' and case.get('via') == 'plot':
            pc = {'kind': 'shape', 'region': {'kind': 'rectangle', 'c': [0.5 * (case['box'][0] + case['box'][1]), 0.5 * (case['box'][2] + case['box'][3])],
                                              'w': case['box'][1] - case['box'][0], 'h': case['box'][3] - case['box'][2]},
                  'origin': case.get('origin', [0, 0])}
            return (real['cls'] == model['kind'] == real['ctor']['name']
                    and self._args_equal(pc, real['ctor']['args'], model['args'], 'Rectangle') and real['ctor']['kw'] == model['kw'])
        if kind == 'bbox':
            ra, ma = real['ctor']['args'], model['args']
            ex = lambda m, r: float(Fraction(m)) == float(r)
            return (real['cls'] == model['kind'] == real['ctor']['name'] and Fraction(ma['angle']) == 0
                    and ex(ma['xy'][0], ra['xy'][0]) and ex(ma['xy'][1], ra['xy'][1])
                    and ex(ma['width'], ra['width']) and ex(ma['height'], ra['height'])
                    and real['ctor']['kw'] == [[k, canon_val(v)] for k, v in case['caller']])
        if 'exc' in model:
            # the model only predicts the code's own ValueError (a compound that is not a concentric xor),
            # raised before any matplotlib constructor is called
            return real.get('exc') == model['exc'] and real['n_ctor_calls'] == 0
        if real['define'] != model['define']:
            return False
        ctor = real['ctor']
        if 'kw_exc' in model:
            # normalising variant: cbook.normalize_kwargs refuses one of the two dictionaries before the constructor
            return real.get('exc') == model['kw_exc'] and ctor is None
        if ctor is None:
            # matplotlib rejected a COMPONENT patch's keywords before the top-level constructor was reached
            return 'exc' in real and real['n_ctor_calls'] >= 1
        if ctor['name'] != model['kind']:
            return False
        if 'cls' in real and real['cls'] != model['kind']:
            return False
        if not self._args_equal(case, ctor['args'], model['args'], model['kind']):
            return False
        if ctor['kw'] != model['kw']:
            return False
        # the model's reading of how matplotlib consumes the dictionary (Artist.mplRejects / mplEffective)
        mpl = model['mpl']
        if 'exc' in real:
            alone = real.get('alone', {})
            if alone.get('visual_only') == 'ok' and alone.get('caller_only') == 'ok':
                return mpl['rejects_final'] and not mpl['rejects_define']
            return True                      # matplotlib rejects one dictionary by itself: not modelled
        if mpl['rejects_final']:
            return False
        ov = dict((k, b) for k, b in mpl['override'])
        for k, exp, obs in real.get('getters', []):
            if k in ov and exp != 'getter' and (exp == obs) != ov[k]:
                return False
        return True

    # ------------------------------------------------------------------ oracle
    def _band(self, case, p):
        d = case['region']
        kinds = [d['kind']] if d['kind'] != 'compound' else [d['a']['kind'], d['b']['kind']]
        s = G.approx_size(d)
        cc = G.approx_center(d)
        b = max(1e-9, 1e-12 * (abs(p[0]) + abs(p[1]) + abs(case['origin'][0]) + abs(case['origin'][1]) + abs(cc[0]) + abs(cc[1])) / s)
        if any(k in CURVED for k in kinds):
            b = max(b, CURVE_BAND)
        return b

    # ------------------------------------------------------------------ geometry = region - origin
    def _geometry(self, case, real, bad):
        """every geometric attribute of the artist against the region's parameters minus the plot origin,
        from first principles (exact rationals, independent 50-digit trigonometry); tolerance 1e-9*scale
        (float32 vertex arrays: 2^-22*scale, the rounding of the caller's own dtype)."""
        d = case['region']
        k = d['kind']
        a = real.get('attrs')
        if k in ('point', 'text', 'line'):
            return True
        if not a:
            return False
        cls = real.get('cls')
        combos = {('circle', 'Circle'), ('ellipse', 'Ellipse'), ('ellipse', 'Circle'), ('rectangle', 'Rectangle'),
                  ('polygon', 'Polygon'), ('regular_polygon', 'Polygon')} | {(x, 'PathPatch') for x in ANNULI}
        if (k, cls) not in combos or (k, cls) == ('ellipse', 'Circle') and d['w'] != d['h']:
            return False                      # no attribute-wise comparison for this class: the point set decides
        try:
            return self._geometry_checked(case, real, bad, a, cls)
        except (KeyError, IndexError, TypeError, ValueError) as e:
            bad('patch_geometry_wrong', f'artist attribute missing or malformed: {type(e).__name__}: {e}')
            return False

    def _geometry_checked(self, case, real, bad, a, cls):
        d = case['region']
        k = d['kind']
        Q = Fraction
        ox, oy = Q(case['origin'][0]), Q(case['origin'][1])
        tol = self._tol(case)
        if case.get('numtype') == 'float32' and k == 'polygon':
            tol = 2.0 ** -22 * (tol / 1e-9)
        errs = []

        def chk(name, got, exp, t=None):
            if abs(float(got) - float(exp)) > (tol if t is None else t):
                errs.append(f'{name}: artist {float(got)!r}, region - origin {float(exp)!r}')

        def deg_exact(angle):
            v = Q(angle[0])
            return {'deg': v, 'arcmin': v / 60, 'hourangle': v * 15,
                    'rad': v * 180 / Q(G.PI)}[angle[1]]
        rel = lambda x: 1e-9 * max(1.0, abs(float(x)))
        if k == 'circle':
            chk('center.x', a['center'][0], Q(d['c'][0]) - ox); chk('center.y', a['center'][1], Q(d['c'][1]) - oy)
            chk('radius', a['radius'], d['r'], rel(d['r']))
        elif k == 'ellipse' and cls == 'Circle':
            # a circular ellipse (width == height) drawn as a Circle: the radius must be HALF the width
            chk('center.x', a['center'][0], Q(d['c'][0]) - ox); chk('center.y', a['center'][1], Q(d['c'][1]) - oy)
            chk('radius', a['radius'], Q(d['w']) / 2, rel(d['w']))
        elif k == 'ellipse':
            chk('center.x', a['center'][0], Q(d['c'][0]) - ox); chk('center.y', a['center'][1], Q(d['c'][1]) - oy)
            chk('width', a['width'], d['w'], rel(d['w'])); chk('height', a['height'], d['h'], rel(d['h']))
            dg = deg_exact(d['angle']); chk('angle', a['angle'], dg, rel(dg))
        elif k == 'rectangle':
            c, s_ = G.exact_dir(d['angle'])
            w2, h2 = Q(d['w']) / 2, Q(d['h']) / 2
            chk('xy.x', a['xy'][0], Q(d['c'][0]) - (w2 * c - h2 * s_) - ox)
            chk('xy.y', a['xy'][1], Q(d['c'][1]) - (w2 * s_ + h2 * c) - oy)
            chk('width', a['width'], d['w'], rel(d['w'])); chk('height', a['height'], d['h'], rel(d['h']))
            dg = deg_exact(d['angle']); chk('angle', a['angle'], dg, rel(dg))
            if a.get('rotation_point') != 'xy':
                errs.append(f'rotation_point {a.get("rotation_point")!r}')
        elif k in ('polygon', 'regular_polygon'):
            vs = [(Q(p[0]), Q(p[1])) for p in d['v']] if k == 'polygon' else G.regular_vertices_exact(d)
            xy = a['xy']
            if not (len(xy) == len(vs) + 1 and xy[0] == xy[-1] or len(xy) == len(vs) and xy[0] == xy[-1]) or not a.get('closed'):
                errs.append(f'{len(xy)} patch vertices (closed={a.get("closed")}) for {len(vs)} region vertices')
            else:
                for i, (v, g) in enumerate(zip(vs, xy)):
                    chk(f'vertex[{i}].x', g[0], v[0] - ox); chk(f'vertex[{i}].y', g[1], v[1] - oy)
        elif k in ANNULI:
            V_ = np.array(a['verts'], dtype=float)
            n = len(V_) // 2
            for name, part in (('outer', V_[:n]), ('inner', V_[n:])):
                # both outlines are point-symmetric about the centre
                chk(f'{name} outline centre.x', 0.5 * (part[:, 0].min() + part[:, 0].max()), Q(d['c'][0]) - ox)
                chk(f'{name} outline centre.y', 0.5 * (part[:, 1].min() + part[:, 1].max()), Q(d['c'][1]) - oy)
            if k == 'circle_annulus':
                chk('outer diameter', V_[:n, 0].max() - V_[:n, 0].min(), 2 * Q(d['r2']), tol + rel(d['r2']))
                chk('inner diameter', V_[n:, 0].max() - V_[n:, 0].min(), 2 * Q(d['r1']), tol + rel(d['r1']))
            if k == 'rectangle_annulus' and len(V_) == 10:
                c, s_ = G.exact_dir(d['angle'])

                def corners(w, h):
                    w2, h2 = Q(w) / 2, Q(h) / 2
                    return [(Q(d['c'][0]) + c * qa - s_ * qb - ox, Q(d['c'][1]) + s_ * qa + c * qb - oy)
                            for qa, qb in ((-w2, -h2), (w2, -h2), (w2, h2), (-w2, h2))]
                exp = corners(d['w2'], d['h2']) + [None] + list(reversed(corners(d['w1'], d['h1'])))
                for i, e in enumerate(exp):
                    if e is not None:
                        chk(f'path vertex[{i}].x', V_[i, 0], e[0]); chk(f'path vertex[{i}].y', V_[i, 1], e[1])
        if errs:
            bad('patch_geometry_wrong', '; '.join(errs[:4]))
        return True

    def oracle(self, case, real):
        V = []
        kind = case['kind']

        icls = int_class(case) if kind == 'shape' else None

        def bad(k, detail, **kw):
            ctx = {x: case[x] for x in ('pool', 'steps', 'region', 'numtype', 'via', 'origin', 'origin2', 'origin_type', 'via', 'prev', 'visual', 'caller', 'artist', 'box') if x in case}
            V.append(dict(kind=k, detail=f'{detail} :: {ctx}', int_class=icls, **kw))
        if kind == 'sequence':
            for n, (st, o) in enumerate(zip(case['steps'], real['steps'])):
                e = case['pool'][st['i']]
                who = f'step {n} ({st["via"]} on pool[{st["i"]}] {real["pool"][st["i"]]["cls"]}, caller={st["caller"]})'
                if not o.get('visual_unchanged', True):
                    bad('visual_changed_by_drawing', f'{who}: the region\'s visual dictionary differs after the call')
                elif not o.get('region_unchanged', True):
                    bad('region_changed_by_drawing', f'{who}: parameters / meta of the region differ after the call')
                f = o['fresh']
                if 'exc' in o:
                    if 'exc' not in f:
                        bad('artist_depends_on_call_history', f'{who} raised {o["exc"]}: {o.get("exc_msg")}; the same call on a fresh '
                            f'equal region succeeds')
                    continue
                if 'exc' in f:
                    bad('artist_depends_on_call_history', f'{who} succeeded but the same call on a fresh equal region raises {f["exc"]}')
                    continue
                diffs = []
                if o['cls'] != f['cls']:
                    diffs.append(f'class {o["cls"]} vs {f["cls"]}')
                if o['ctor'] != f['ctor']:
                    ko, kf = dict(map(lambda kv: (kv[0], json.dumps(kv[1])), (o['ctor'] or {}).get('kw', []))), \
                        dict(map(lambda kv: (kv[0], json.dumps(kv[1])), (f['ctor'] or {}).get('kw', [])))
                    dk = sorted(k for k in set(ko) | set(kf) if ko.get(k) != kf.get(k))
                    diffs.append('constructor keywords ' + ', '.join(f'{k}: {ko.get(k)} vs fresh {kf.get(k)}' for k in dk[:4])
                                 if dk else 'constructor arguments differ')
                if o['geom'] != f['geom']:
                    diffs.append('geometry differs')
                for k in o['style']:
                    if o['style'][k] != f['style'].get(k):
                        diffs.append(f'{k}: {o["style"][k]!r} vs fresh {f["style"].get(k)!r}')
                if diffs:
                    bad('artist_depends_on_call_history', f'{who}: the artist differs from the artist of a fresh equal region given the '
                        f'same call: ' + '; '.join(diffs[:5]))
                for k, exp, obs in o.get('getters', []):
                    if exp != 'getter' and exp != obs:
                        can = CANON.get(e['ak'], {})
                        defined = [k2 for k2, _ in (o['ctor'] or {}).get('kw', []) if k2 != k and can.get(k2, k2) == can.get(k, k)]
                        bad('caller_kwarg_not_honoured', f'{who}: {k}: expected {exp!r}, artist has {obs!r}', key=k, artist=e['ak'],
                            alias_of=defined[0] if defined else None)
                for k, prop, exp, obs in o.get('visual_checks', []):
                    if exp != obs:
                        bad('visual_attribute_not_honoured', f'{who}: visual[{k!r}] must show as {prop}={exp!r}, artist has {obs!r}; '
                            f'visual={real["pool"][st["i"]]["visual"]}', key=k)
            return V
        if kind == 'kwargs':
            # first principles: defaults <| visual <| caller, per key
            fin = {k: v for k, v in real['final_by_hand']}
            for k, v in case['caller']:
                if fin.get(k, 'missing') != canon_val(v):
                    bad('caller_kwarg_not_in_final_dict', f'{k}={v!r} final={fin.get(k)!r}')
            return V
        caller = case.get('caller', [])
        for k, exp, obs in real.get('getters', []):
            if exp == 'getter':
                bad('harness_exception', f'getter for {k}: {obs}')
            elif exp != obs:
                ak = real.get('artist_kind', 'Patch')
                can = CANON.get(ak, {})
                shadow = [k2 for k2, _ in real.get('define', []) if k2 != k and can.get(k2, k2) == can.get(k, k)]
                bad('caller_kwarg_not_honoured', f'{k}: expected {exp!r}, artist has {obs!r}' +
                    (f' (define_mpl_kwargs sends the same property as {shadow[0]!r})' if shadow else ''),
                    key=k, artist=ak, alias_of=shadow[0] if shadow else None)
        if kind == 'bbox':
            x0, x1, y0, y1 = case['box']
            ext = [[x0 - 0.5, y0 - 0.5], [x1 - 0.5, y0 - 0.5], [x1 - 0.5, y1 - 0.5], [x0 - 0.5, y1 - 0.5]]
            if not real.get('bbox_unchanged', True):
                bad('bbox_changed_by_drawing', 'the bounding box differs after drawing it')
            if real['as_artist_corners'] != ext:
                bad('bbox_patch_wrong', f'as_artist(): corners {real["as_artist_corners"]}, extent {ext}')
            if case.get('via') == 'plot':
                # the drawn corners are extent - origin, x with x and y with y: the as_artist() rectangle moved by -origin
                o = case.get('origin', [0, 0])
                exp = [[c[0] - float(o[0]), c[1] - float(o[1])] for c in ext]
                t = 1e-9 * (max(abs(v) for v in case['box']) + abs(o[0]) + abs(o[1]) + 1)
                if real['cls'] != 'Rectangle' or any(abs(g[0] - e[0]) > t or abs(g[1] - e[1]) > t for g, e in zip(real['corners'], exp)):
                    bad('bbox_plot_wrong', f'plot(origin={o}): a {real["cls"]} with corners {real.get("corners")}; extent - origin = {exp}')
                if not real.get('in_axes'):
                    bad('plot_artist_not_in_axes', 'RegionBoundingBox.plot() did not add the patch to the axes given')
            elif real['cls'] != 'Rectangle' or real['corners'] != ext:
                bad('bbox_patch_wrong', f'corners {real.get("corners")} expected {ext}')
            return V
        d = case['region']
        ox, oy = float(case['origin'][0]), float(case['origin'][1])
        if 'exc' in real:
            if kind == 'compound':
                annulus_like = d['op'] == 'xor' and d['a']['c'] == d['b']['c']
                if real['exc'] == 'ValueError' and not annulus_like and real['ctor'] is None and real['n_ctor_calls'] == 0:
                    return V                     # documented: unable to convert region to matplotlib artist
            alone = real.get('alone', {})
            if alone.get('bare') != 'ok':
                bad('as_artist_raised', f'as_artist(origin) raised {alone.get("bare")} with empty visual and no keyword arguments',
                    exc=alone.get('bare'))
            elif alone.get('visual_only') == 'ok' and alone.get('caller_only') == 'ok':
                conflict = self._alias_conflict(case, real)
                bad('caller_kwargs_rejected', f'as_artist raised {real["exc"]}: {real.get("exc_msg")} although matplotlib accepts the '
                    f'visual-derived and the caller keywords separately', exc=real['exc'], alias_conflict=conflict,
                    artist=real.get('artist_kind'))
            elif alone.get('visual_only') != 'ok':
                pass                              # matplotlib rejects the visual dictionary by itself: outside the property
            else:
                pass                              # matplotlib rejects the caller's keywords by themselves
            return V
        exp_cls = {'circle': 'Circle', 'ellipse': 'Ellipse', 'rectangle': 'Rectangle', 'polygon': 'Polygon', 'regular_polygon': 'Polygon',
                   'line': 'Arrow', 'point': 'Line2D', 'text': 'Text'}.get(d['kind'], 'PathPatch')
        if not real['cls_module'].startswith('matplotlib.'):
            bad('artist_class', f'{real["cls_module"]}.{real["cls"]} is not a matplotlib artist')
        cls_ok = real['cls'] == exp_cls
        cls_msg = f'as_artist returned a matplotlib {real["cls"]}, the documented class is {exp_cls}' 
        if not real.get('region_unchanged', True):
            bad('region_changed_by_drawing', 'parameters / vertex arrays / meta / visual of the region differ after as_artist/plot')
        if not real.get('origin_unchanged', True):
            bad('origin_argument_changed_by_drawing', 'the origin object passed by the caller was modified')
        if 'second_exc' in real:
            bad('second_artist_raised', real['second_exc'])
        if 'geom2' in real:
            if not real['second_is_new_object'] or not real['first_unchanged']:
                bad('artists_share_state', 'making a second artist returned the same object or changed the first one')
            o1, o2 = case['origin'], case['origin2']
            t2 = self._tol(case) + 1e-9 * (abs(o2[0]) + abs(o2[1]))
            if case.get('numtype') == 'float32' and d['kind'] == 'polygon':
                t2 = 2.0 ** -22 * (t2 / 1e-9)
            errs = shifted(real['geom1'], real['geom2'], float(o1[0]) - float(o2[0]), float(o1[1]) - float(o2[1]), t2)
            if errs:
                bad('second_artist_wrong', f'origin2={o2}: ' + '; '.join(errs[:3]))
        if case.get('via') == 'plot' and not real.get('in_axes'):
            bad('plot_artist_not_in_axes', 'plot() returned an artist that was not added to the given axes')
        tol = self._tol(case)
        near = lambda a, b: abs(a - b) <= tol
        comparable = self._geometry(case, real, bad) if kind == 'shape' else True
        if d['kind'] in ('point', 'text', 'line') and not cls_ok:
            need = {'point': ['data'], 'text': ['position', 'text'], 'line': ['arrow_tail', 'arrow_tip']}[d['kind']]
            if any(k not in real for k in need):
                # nothing to judge a position by: the artist is not of a kind that has one
                bad('patch_class_unexpected', cls_msg + ' (no position / end points to compare)')
                return V
        if d['kind'] in ('point', 'text'):
            pos = [real['data'][0][0], real['data'][1][0]] if d['kind'] == 'point' else real['position']
            if d['kind'] == 'point' and (len(real['data'][0]) != 1 or len(real['data'][1]) != 1):
                bad('point_not_single', str(real['data']))
            if not (near(pos[0], d['c'][0] - ox) and near(pos[1], d['c'][1] - oy)):
                bad('position_wrong', f'artist at {pos}, region position - origin = {[d["c"][0] - ox, d["c"][1] - oy]}')
            if d['kind'] == 'text' and real['text'] != d.get('text', 'label'):
                bad('text_wrong', real['text'])
            return V
        if d['kind'] == 'line':
            t = tol + 1e-9 * (abs(d['b'][0] - d['a'][0]) + abs(d['b'][1] - d['a'][1]))
            if not (abs(real['arrow_tail'][0] - (d['a'][0] - ox)) <= t and abs(real['arrow_tail'][1] - (d['a'][1] - oy)) <= t):
                bad('line_start_wrong', f'tail {real["arrow_tail"]} expected {[d["a"][0] - ox, d["a"][1] - oy]}')
            if not (abs(real['arrow_tip'][0] - (d['b'][0] - ox)) <= t and abs(real['arrow_tip'][1] - (d['b'][1] - oy)) <= t):
                bad('line_end_wrong', f'tip {real["arrow_tip"]} expected {[d["b"][0] - ox, d["b"][1] - oy]}')
            return V
        # outlines
        if d['kind'] in ANNULI or kind == 'compound':
            if real['n_sub'] != 2:
                bad('annulus_subpaths', f'{real["n_sub"]} sub-paths')
            else:
                a_out, a_in = real['areas']
                if not (a_out * a_in < 0):
                    bad('annulus_inner_not_reversed', f'signed areas outer={a_out} inner={a_in} (same orientation fills the hole)')
                if d['kind'] in ANNULI and not (abs(a_out) > abs(a_in) > 0):
                    bad('annulus_areas', f'outer={a_out} inner={a_in}')
        elif real['n_sub'] != 1:
            bad('subpaths', f'{real["n_sub"]} sub-paths for a simple shape')
        inc = G.truthy(d.get('include', 'absent'))
        differs = False
        compared = 0
        if 'winding' not in real:
            bad('patch_class_unexpected', cls_msg + ' (not a patch: no outline to compare with the region)')
            return V
        for p, wn, (sp, mg), rc in zip(case['pts'], real['winding'], real['spec'], real['contains']):
            if mg < self._band(case, p):
                continue
            total = sum(wn)
            if d['kind'] in ('polygon', 'regular_polygon') and total != 0 and total % 2 == 0:
                continue                     # fill-rule-excepted (self-intersecting outline)
            inside = total != 0
            shape_member = rc if inc else (not rc)
            compared += 1
            if inside != shape_member:
                bad('patch_differs_from_contains', f'point={p} (patch coords {[p[0] - ox, p[1] - oy]}) winding={wn} '
                    f'contains={rc} include={d.get("include")} margin={mg:.3g}; artist class {real["cls"]}', point=p)
                differs = True
                break
            if inside != sp:
                bad('patch_differs_from_spec', f'point={p} winding={wn} spec={sp} margin={mg:.3g}; artist class {real["cls"]}', point=p)
                differs = True
                break
        if not cls_ok and (differs or not comparable and compared == 0):
            # another patch class is a violation only when it does not outline the region (a Circle of the right
            # radius for a circular ellipse is fine); with no point to judge by, an incomparable class is reported too
            bad('patch_class_unexpected', cls_msg + (' and its point set differs from the region' if differs else
                                                     ' and neither attributes nor points could be compared'))
        return V

    @staticmethod
    def _alias_conflict(case, real):
        """the caller used a matplotlib alias of a key that define_mpl_kwargs produced under another
        spelling (Text.update -> cbook.normalize_kwargs refuses both)."""
        ak = real.get('artist_kind')
        can = CANON.get(ak, {})
        defined = {k for k, _ in real.get('define', [])}
        for k, _ in case.get('caller', []):
            for k2 in defined:
                if k != k2 and can.get(k, k) == can.get(k2, k2):
                    return [k, k2]
        return None

    def finding_match(self, finding, violation):
        if finding['id'] in ('F182', 'F182b', 'F183'):
            return self._finding_match_int(finding, violation)
        if finding.get('kind') != violation.get('kind'):
            return False
        if finding['id'] == 'F181':
            return (violation.get('artist') == 'Text' and violation.get('exc') == 'TypeError'
                    and violation.get('alias_conflict') is not None)
        if finding['id'] == 'F181b':
            return violation.get('artist') == 'Text' and violation.get('alias_of') is not None
        return False

    def _finding_match_int(self, finding, violation):
        if finding['id'] == 'F182':
            return (violation.get('int_class') == 'wrap'
                    and violation.get('kind') in ('patch_geometry_wrong', 'patch_differs_from_contains', 'patch_differs_from_spec'))
        if finding['id'] == 'F183':
            return (violation.get('int_class') == 'radius_wrap'
                    and violation.get('kind') in ('patch_geometry_wrong', 'patch_differs_from_contains', 'patch_differs_from_spec',
                                                  'annulus_areas', 'annulus_inner_not_reversed'))
        if finding['id'] == 'F182b':
            return (violation.get('int_class') == 'overflow' and violation.get('kind') == 'as_artist_raised'
                    and violation.get('exc') == 'OverflowError')
        return False

    def nontrivial(self, case, real):
        if case['kind'] == 'sequence':
            return any('exc' not in o for o in real['steps'])
        if case['kind'] in ('kwargs', 'bbox'):
            return bool(case.get('caller'))
        w = real.get('winding')
        if w:
            return len({sum(x) != 0 for x in w}) == 2
        return bool(case.get('caller')) or 'cls' in real

    def bucket(self, case, real):
        if case['kind'] == 'kwargs':
            return f"kwargs/{case['artist']}"
        if case['kind'] == 'bbox':
            return 'bbox/' + case.get('via', 'as_artist') + ('(origin)' if 'origin' in case else '')
        if case['kind'] == 'sequence':
            return f"sequence/{len(case['steps'])} calls/{'shared visual' if any('share' in e for e in case['pool']) else 'own visuals'}"
        b = f"{case['kind']}/{case['region']['kind']}"
        if 'exc' in real:
            alone = real.get('alone', {})
            if real['exc'] == 'ValueError' and case['kind'] == 'compound' and real.get('n_ctor_calls') == 0:
                return b + '/ValueError(not an annulus)'
            if alone.get('visual_only') != 'ok':
                return b + '/mpl_rejects_visual'
            if alone.get('caller_only') != 'ok':
                return b + '/mpl_rejects_caller'
            return b + '/combination_rejected'
        return b


def common_json(x):
    if isinstance(x, (np.floating, np.integer)):
        return float(x)
    if isinstance(x, (np.bool_,)):
        return bool(x)
    if isinstance(x, (list, tuple)):
        return [common_json(v) for v in x]
    return x
