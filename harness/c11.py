"""C11 — CRTF text round-trips and is read according to the CASA conventions.

Three kinds of cases:
  write : region specs + serialiser options.  Real: build FRESH region objects, serialise, serialise
          the same objects again (F6), serialise fresh objects again (determinism), parse, serialise
          the parsed regions, parse again (fixed point).  Model: `crtf.roundtrip`.
  read  : structured CRTF lines (grammar).  Model renders them to text and parses the structure;
          real parses the text.  Oracle: an independent reference reading of the structure.
  file  : the bundled .crtf files: oracle only (parse -> serialise -> parse on the real code).
"""
import math
import warnings
from fractions import Fraction

from .common import frac
from .runner import PropertyCheck

SKY_FRAMES = ['fk5', 'fk4', 'icrs', 'galactic', 'supergalactic', 'geocentrictrueecliptic']
CRTF_NAME = {'image': 'IMAGE', 'fk5': 'J2000', 'fk4': 'B1950', 'galactic': 'GALACTIC',
             'geocentrictrueecliptic': 'ECLIPTIC', 'supergalactic': 'SUPERGAL', 'icrs': 'ICRS'}
SYMBOLS = ['.', ',', 'o', 'v', '^', '<', '>', '1', '2', '3', '4', 's', 'p', '*', 'h', 'H', '+', 'x',
           'D', 'd', '|', '_']
# scalar CRTF keys the writer emits as key=value and the reader accepts
SCALAR_META = ['frame', 'veltype', 'restfreq']
SCALAR_VIS = ['color', 'linewidth', 'linestyle', 'symsize', 'symthick', 'font', 'fontsize', 'fontstyle',
              'usetex', 'labelpos', 'labelcolor']
LIST_KEYS = ['range', 'corr', 'labeloff']
WORDCH = 'abcdefghijklmnopqrstuvwxyzABCDEFGHIJKLMNOPQRSTUVWXYZ0123456789'
TEXTCH = WORDCH + ' _.:;!?-' * 2


# ------------------------------------------------------------------ small helpers

def F(x):
    return Fraction(float(x))


def word(rng, n=None, chars=WORDCH):
    n = n or rng.randint(1, 8)
    return ''.join(rng.choice(chars) for _ in range(n))


def phrase(rng):
    """ordinary label / text strings: no comma, quote, bracket, '=', no leading/trailing blank."""
    s = word(rng, rng.randint(1, 12), TEXTCH).strip()
    return s or 'x'


# strings with quote characters / blanks at the ends, only quotes, empty, '#': a text region keeps them,
# `regex_meta` (labels and other key=value items) mangles them in a way the model reproduces (F36)
QUOTEY = ['beam 3.5"', "FOV 5'", '"M42"', "'q'", '', '"', "'", "''", '""', 'a"b', "it's", 'a\'b"c', ' lead', 'trail ',
          ' ', "' '", 'say "hi"', '#x', 'a#b', '"\'', '\'"', ' "x" ', "5' 3\""]
# braces: harmless characters for CRTF, replacement fields for a careless str.format
BRACEY = ['H$_{2}$O', '{0}', '{}', '{name}', '}{', '{{', '{', '}', '{0:.3f}', 'a{1}b', '{text}', '{symbol}', '}}', '{0}{1}{2}', '{!r}', 'x{']
# strings whose effect spills over the neighbouring items (comma, bracket, '='): not modelled, oracle only
SPILL = ['a, b', 'a [x]', 'a]b', 'a[b', 'x,', '[', ']', "x', color=red", "a, label='z", '[[1deg, 2deg]]', "it's, ok", 'k=v "q"']
TEXT_OK_EXTRA = ['a, b', 'a]b', 'x,', ']', '3deg]', ', ', "x', y"]       # fine inside text[[…], '…'] (no '[' and no '=')
TEXT_SPILL = ['a [x]', 'a[b', '[', 'a=b', 'coord=ICRS', '[[1deg, 2deg]]', "x', color=red"]
QCH = WORDCH + ' ' * 6 + '\'"' * 8 + '_.:;!?-#\t' + '{}' * 5 + '$'


def spills(s):
    return isinstance(s, str) and any(c in s for c in ',[]=')


def hostile(s):
    """a value `regex_meta` does not hand back unchanged."""
    return isinstance(s, str) and (any(c in s for c in '\'",[]') or s != s.strip())


def value_string(rng):
    """label / scalar metadata strings: -> (string, spills)"""
    t = rng.random()
    if t < 0.7:
        return phrase(rng), False
    if t < 0.78:
        return rng.choice(QUOTEY), False
    if t < 0.86:
        return rng.choice(BRACEY), False
    if t < 0.96:
        return word(rng, rng.randint(0, 8), QCH), False
    return rng.choice(SPILL), True


def text_string(rng):
    """strings of text regions: -> (string, spills)"""
    t = rng.random()
    if t < 0.5:
        return phrase(rng), False
    if t < 0.62:
        return rng.choice(QUOTEY + TEXT_OK_EXTRA), False
    if t < 0.72:
        return rng.choice(BRACEY), False
    if t < 0.96:
        return word(rng, rng.randint(0, 8), QCH + ',]'), False
    return rng.choice(TEXT_SPILL), True


def exc_name(e):
    return type(e).__name__


def enc_val(v):
    """metadata value -> model MVal json (None if the value is outside the modelled types)."""
    import astropy.units as u
    if isinstance(v, bool):
        return {'b': v}
    if isinstance(v, int):
        return {'i': str(v)}
    if isinstance(v, str):
        return {'s': v}
    if isinstance(v, list):
        if all(isinstance(x, str) for x in v):
            return {'ss': list(v)}
        if all(isinstance(x, int) and not isinstance(x, bool) for x in v):
            return {'is': [str(x) for x in v]}
        if all(isinstance(x, (str, u.Quantity)) for x in v):
            return {'ss': [str(x) for x in v]}
    return {'s': 'UNSUPPORTED:' + repr(v)}


def enc_meta(d):
    return [[k, enc_val(v)] for k, v in d.items()]


# ------------------------------------------------------------------ spec -> real region objects

def build_region(s):
    import astropy.units as u
    from astropy.coordinates import Angle, SkyCoord
    import regions as R
    sky = s['sky']

    attrs = s.get('attrs') or {}

    def pt(p):
        return SkyCoord(p[0], p[1], unit='deg', frame=s['frame'], **attrs) if sky else R.PixCoord(p[0], p[1])

    def pts(ps):
        if sky:
            return SkyCoord([p[0] for p in ps], [p[1] for p in ps], unit='deg', frame=s['frame'], **attrs)
        return R.PixCoord([p[0] for p in ps], [p[1] for p in ps])

    def sz(v):
        return u.Quantity(v[0], v[1]) if sky else v[0]

    def ang(v):
        return Angle(v[0], v[1]) if s.get('angle_cls') == 'Angle' else u.Quantity(v[0], v[1])
    cls = s['cls']
    P = 'Sky' if sky else 'Pixel'
    if cls == 'circle':
        r = getattr(R, f'Circle{P}Region')(pt(s['pts'][0]), sz(s['sizes'][0]))
    elif cls == 'circleannulus':
        r = getattr(R, f'CircleAnnulus{P}Region')(pt(s['pts'][0]), sz(s['sizes'][0]), sz(s['sizes'][1]))
    elif cls == 'ellipse':
        r = getattr(R, f'Ellipse{P}Region')(pt(s['pts'][0]), sz(s['sizes'][0]), sz(s['sizes'][1]), ang(s['angle']))
    elif cls == 'rectangle':
        r = getattr(R, f'Rectangle{P}Region')(pt(s['pts'][0]), sz(s['sizes'][0]), sz(s['sizes'][1]), ang(s['angle']))
    elif cls == 'polygon':
        r = getattr(R, f'Polygon{P}Region')(pts(s['pts']))
    elif cls == 'line':
        r = getattr(R, f'Line{P}Region')(pt(s['pts'][0]), pt(s['pts'][1]))
    elif cls == 'point':
        r = getattr(R, f'Point{P}Region')(pt(s['pts'][0]))
    elif cls == 'text':
        r = getattr(R, f'Text{P}Region')(pt(s['pts'][0]), s['text'])
    elif cls == 'ellipseannulus':
        r = getattr(R, f'EllipseAnnulus{P}Region')(pt(s['pts'][0]), sz(s['sizes'][0]), sz(s['sizes'][2]),
                                                   sz(s['sizes'][1]), sz(s['sizes'][3]), ang(s['angle']))
    elif cls == 'compound':
        r = R.CirclePixelRegion(pt(s['pts'][0]), 2.0) | R.CirclePixelRegion(pt(s['pts'][0]), 1.0)
    else:
        raise ValueError(cls)
    if cls != 'compound':
        meta = {}
        for k, v in s['meta']:
            if k == 'range' and s.get('range_q'):
                v = [u.Quantity(x) for x in v]
            meta[k] = v
        r.meta = R.RegionMeta(meta)
        r.visual = R.RegionVisual({k: v for k, v in s['visual']})
    return r


def kind_of(region):
    from regions import RegularPolygonPixelRegion, SkyRegion
    n = type(region).__name__
    if isinstance(region, SkyRegion):
        return n[:-9].lower()
    if isinstance(region, RegularPolygonPixelRegion):
        return 'polygon'
    return n[:-11].lower()


ATTRS = {'circle': ['radius'], 'circleannulus': ['inner_radius', 'outer_radius'],
         'ellipse': ['width', 'height'], 'rectangle': ['width', 'height'],
         'ellipseannulus': ['inner_width', 'inner_height', 'outer_width', 'outer_height'],
         'rectangleannulus': ['inner_width', 'inner_height', 'outer_width', 'outer_height']}


def points_of(region, kind):
    if kind == 'polygon':
        return list(region.vertices)
    if kind == 'line':
        return [region.start, region.end]
    if kind == 'compound':
        return []
    return [region.center]


def wreg_of(region, coordsys, radunit):
    """the writer model's view of a real region; astropy's transform / unit conversion are
    applied here with the same calls the code makes (they are parameters of the model)."""
    import astropy.units as u
    from astropy.coordinates import Angle, frame_transform_graph
    from regions import SkyRegion
    sky = isinstance(region, SkyRegion)
    kind = kind_of(region)
    image = coordsys in ('image', 'physical')
    pts = []
    kept = []
    frame = frame_transform_graph.lookup_name(coordsys) if sky else None
    for p in points_of(region, kind):
        if sky:
            if frame is None:
                pts.append(['0', '0'])
                kept.append(['0', '0'])
            else:
                # `pts`: in the frame the CRTF name denotes (default attributes: J2000, B1950, ...);
                # `pts_kept`: what transform_to(FrameClass) gives, i.e. with the source's own equinox / obstime
                # carried into the target frame (F34).  Equal for coordinates with default attributes.
                t = p.transform_to(frame(), merge_attributes=False)
                pts.append([frac(float(Angle(t.spherical.lon).value)), frac(float(Angle(t.spherical.lat).value))])
                k = p.transform_to(frame)
                kept.append([frac(float(Angle(k.spherical.lon).value)), frac(float(Angle(k.spherical.lat).value))])
        else:
            pts.append([frac(float(p.x)), frac(float(p.y))])
            kept.append([frac(float(p.x)), frac(float(p.y))])
    sizes = []
    for a in ATTRS.get(kind, []):
        v = getattr(region, a)
        if sky and not image and radunit:
            try:
                sizes.append(frac(float(u.Quantity(v).to(radunit).value)))
            except Exception:
                sizes.append(frac(float(u.Quantity(v).value)))
        else:
            sizes.append(frac(float(getattr(v, 'value', v))))
    angle = None
    if hasattr(region, 'angle') and kind != 'compound':
        angle = frac(float(u.Quantity(region.angle).to('deg').value))
    return {'kind': kind, 'sky': sky, 'pts': pts, 'pts_kept': kept, 'sizes': sizes, 'angle': angle,
            'text': getattr(region, 'text', '') if kind == 'text' else '',
            'meta': enc_meta(region.meta) if kind != 'compound' else [],
            'visual': enc_meta(region.visual) if kind != 'compound' else []}


# ------------------------------------------------------------------ real parsed region -> canonical

def canon_q(q):
    """Quantity/Angle/number -> [exact value, unit string]."""
    import astropy.units as u
    if isinstance(q, u.Quantity):
        un = q.unit.to_string()
        return [frac(float(q.value)), {'hourangle': 'hour'}.get(un, un)]
    return [frac(float(q)), '']


def canon_region(r):
    import astropy.units as u
    from regions import SkyRegion
    sky = isinstance(r, SkyRegion)
    kind = kind_of(r)
    pts = []
    for p in points_of(r, kind):
        if sky:
            pts.append([frac(float(p.spherical.lon.to_value(u.deg))), frac(float(p.spherical.lat.to_value(u.deg)))])
        else:
            pts.append([frac(float(p.x)), frac(float(p.y))])
    frame = points_of(r, kind)[0].frame.name if sky else 'image'
    return {'kind': kind, 'frame': frame, 'pts': pts,
            'sizes': [canon_q(getattr(r, a)) for a in ATTRS.get(kind, [])],
            'angle': canon_q(r.angle) if hasattr(r, 'angle') else None,
            'text': r.text if kind == 'text' else None,
            'meta': enc_meta(r.meta), 'visual': enc_meta(r.visual)}


def close(a, b, rel=1e-13):
    """exact rationals: equal after the code's own final rounding to a double."""
    a = Fraction(a); b = Fraction(b)
    if a == b or float(a) == float(b):
        return True
    return abs(a - b) <= rel * max(1, abs(a), abs(b))


RAD = Fraction(math.pi)


def model_deg(q):
    """model Q json [v, unit, ang] -> degrees (exact for deg/hour/arcmin/arcsec)."""
    v = Fraction(q[0]); un = q[1]
    return {'deg': v, 'hour': v * 15, 'arcmin': v / 60, 'arcsec': v / 3600, '': v}.get(un, v * 180 / RAD)


def same_parsed(model, real):
    """model RReg json vs canonical real region."""
    if model['kind'] != real['kind'] or model['frame'] != real['frame']:
        return False
    if len(model['pts']) != len(real['pts']) or len(model['sizes']) != len(real['sizes']):
        return False
    sky = real['frame'] != 'image'
    for mp, rp in zip(model['pts'], real['pts']):
        for i in (0, 1):
            if sky:
                m = model_deg(mp[i]); r = Fraction(rp[i])
                rel = 1e-13 if mp[i][1] in ('deg',) else 1e-11
                if i == 0:
                    if not (close(m, r, rel) or close(m % 360, r % 360, rel) or close(m - 360, r, rel)):
                        return False
                elif not close(m, r, rel):
                    return False
            else:
                if mp[i][1] != '' or not close(mp[i][0], rp[i], 1e-12):
                    return False
    for ms, rs in zip(model['sizes'], real['sizes']):
        if ms[1] != rs[1] or not close(ms[0], rs[0]):
            return False
    if (model['angle'] is None) != (real['angle'] is None):
        return False
    if model['angle'] is not None:
        if model['angle'][1] != real['angle'][1] or not close(model['angle'][0], real['angle'][0]):
            return False
    return model['text'] == real['text'] and model['meta'] == real['meta'] and model['visual'] == real['visual']


import re as _re
_NEGZERO = _re.compile(r'-(0(?:\.0*)?)(?![0-9.])')


def nz(text):
    """-0.000 and 0.000 are the same number (IEEE negative zero is not a rational): compare texts modulo that."""
    return _NEGZERO.sub(r'\1', text) if isinstance(text, str) else text


def qtable_for(strings):
    import astropy.units as u
    out = {}
    todo = set(strings)
    for _ in range(4):            # closed under write (spaces removed) -> read again
        new = set()
        for s in sorted(todo):
            if s in out:
                continue
            try:
                out[s] = str(u.Quantity(s))
                new.add(out[s].replace(' ', ''))
            except Exception:
                pass
        todo = new
    return [[k, v] for k, v in sorted(out.items())]


# ------------------------------------------------------------------ write-side generator

FRAME_ATTRS = {'fk5': [{'equinox': 'J1975'}, {'equinox': 'J2010.5'}, {'equinox': 'B1950'}],
               'fk4': [{'equinox': 'B1975'}, {'equinox': 'B1950', 'obstime': 'J1990'}, {'equinox': 'B1975', 'obstime': 'J1990'}],
               'geocentrictrueecliptic': [{'equinox': 'J1975'}, {'obstime': 'J1990'}, {'equinox': 'J1975', 'obstime': 'J2010'}]}
RADUNITS = {'deg': (0.01, 5.0, 3), 'arcmin': (0.5, 300.0, 1), 'arcsec': (1.0, 5000.0, 0), 'rad': (0.001, 0.1, 4)}
WRITE_CLASSES = ['circle', 'circleannulus', 'ellipse', 'rectangle', 'polygon', 'line', 'text', 'point']


def gen_number(rng, lo, hi):
    x = rng.uniform(lo, hi)
    t = rng.random()
    if t < 0.15:
        y = round(x * 8) / 8          # dyadic: exact rounding ties for small precisions
    elif t < 0.3:
        y = round(x, rng.randint(0, 4))
    else:
        y = x
    return y if lo <= y <= hi else x


def gen_meta(rng, cls, sky):
    meta, vis = [], []
    t = rng.random()
    if t < 0.3:
        meta.append(['include', rng.choice([False, False, False, 0, True, 1])])
    if rng.random() < 0.45:
        meta.append(['label', value_string(rng)[0]])
    if rng.random() < 0.25:
        meta.append(['type', rng.choice(['ann', 'ann', 'reg'])])
    if rng.random() < 0.25:
        meta.append(['frame', rng.choice(['BARY', 'LSRK', 'TOPO', 'bary']) if rng.random() < 0.9 else value_string(rng)[0]])
    if rng.random() < 0.15:
        meta.append(['veltype', rng.choice(['RADIO', 'OPTICAL', 'Z']) if rng.random() < 0.9 else value_string(rng)[0]])
    if rng.random() < 0.12:
        meta.append(['restfreq', rng.choice(['1.42GHz', '115.271GHz', '1420405751.786Hz'])])
    rq = False
    if rng.random() < 0.2:
        un = rng.choice(['GHz', 'km/s', 'MHz', 'chan' if False else 'Hz'])
        a = rng.choice([1.42, 1.420, -1240, 100, 0.5, 1421.5])
        b = a + rng.choice([1, 0.001, 2480, 10])
        sp = rng.choice(['', ' '])
        meta.append(['range', [f'{a}{sp}{un}', f'{b}{sp}{un}']])
        rq = rng.random() < 0.5
    if rng.random() < 0.25:
        meta.append(['corr', rng.sample(['I', 'Q', 'U', 'V', 'RR', 'LL', 'XX'], rng.randint(1, 4))])
    # keys outside the CRTF vocabulary: must be filtered out
    if rng.random() < 0.2:
        meta.append(rng.choice([['tag', ['g1', 'g2']], ['comment', 'a remark'], ['name', 'n1'], ['source', 1],
                                ['text', 'meta text'], ['delete', 0]]))
    if rng.random() < 0.4:
        vis.append(['color', rng.choice(['red', 'green', 'blue', '2ee6d6', 'light blue', '#00ff00'])
                    if rng.random() < 0.9 else value_string(rng)[0]])
    if rng.random() < 0.3:
        vis.append(['linewidth', rng.choice([1, 2, 3, '2'])])
    if rng.random() < 0.15:
        vis.append(['linestyle', rng.choice(['-', '--', ':', '-.']) if rng.random() < 0.9 else value_string(rng)[0]])
    if rng.random() < 0.15:
        vis.append(['symsize', rng.choice([1, 2, 5])])
    if rng.random() < 0.1:
        vis.append(['symthick', rng.choice([1, 2])])
    if rng.random() < 0.12:
        vis.append(['font', rng.choice(['Helvetica', 'Times New Roman', 'courier'])
                    if rng.random() < 0.85 else value_string(rng)[0]])
    if rng.random() < 0.12:
        vis.append(['fontsize', rng.choice([8, 10, 12, '11'])])
    if rng.random() < 0.1:
        vis.append(['fontstyle', rng.choice(['bold', 'normal', 'italic']) if rng.random() < 0.9 else value_string(rng)[0]])
    if rng.random() < 0.1:
        vis.append(['usetex', rng.choice([True, False, 'false'])])
    if rng.random() < 0.1:
        vis.append(['labelpos', rng.choice(['top', 'bottom', 'left', 'right']) if rng.random() < 0.9 else value_string(rng)[0]])
    if rng.random() < 0.05:
        vis.append(['labelcolor', rng.choice(['green', 'red'])])
    if rng.random() < 0.05:
        vis.append(['labeloff', rng.choice([[1, 2], [0, -3], ['1', '2']])])
    if rng.random() < 0.15:
        vis.append(rng.choice([['fill', True], ['dash', '1'], ['textangle', 30], ['fontweight', 'bold'],
                               ['facecolor', 'red'], ['marker', 'o']]))
    if cls == 'point':
        if rng.random() < 0.85:
            vis.append(['symbol', rng.choice(SYMBOLS)])
    elif rng.random() < 0.04:
        vis.append(['symbol', rng.choice(SYMBOLS)])
    rng.shuffle(meta)
    rng.shuffle(vis)
    return meta, vis, rq


def gen_region(rng, cls, sky, frame, radunit, prec, tiny=False):
    import astropy.units as u
    s = {'cls': cls, 'sky': sky, 'frame': frame if sky else 'image', 'sizes': [], 'angle': None, 'text': ''}
    if sky and frame in FRAME_ATTRS and rng.random() < 0.12:
        # a coordinate in the same frame family with its own equinox / obstime
        s['attrs'] = dict(rng.choice(FRAME_ATTRS[frame]))

    def pt():
        if sky:
            return [gen_number(rng, 0.0, 359.99), gen_number(rng, -85.0, 85.0)]
        return [gen_number(rng, -50.0, 500.0), gen_number(rng, -50.0, 500.0)]

    def size(lo=None):
        if sky:
            a, b, _ = RADUNITS.get(radunit, RADUNITS['deg'])
            v = gen_number(rng, a, b) if lo is None else lo * rng.uniform(1.2, 3.0)
            if tiny and lo is None:
                v = rng.uniform(0.05, 0.45) * 10.0 ** (-prec)
            un = radunit if radunit in RADUNITS else 'deg'
            if rng.random() < 0.3:
                other = rng.choice(['deg', 'arcmin', 'arcsec', 'rad'])
                return v, [float(u.Quantity(v, un).to(other).value), other]
            return v, [v, un]
        v = gen_number(rng, 1.0, 60.0) if lo is None else lo * rng.uniform(1.2, 3.0)
        if tiny and lo is None:
            v = rng.uniform(0.05, 0.45) * 10.0 ** (-prec)
        return v, [v, '']
    n = {'polygon': rng.randint(3, 7), 'line': 2}.get(cls, 1)
    s['pts'] = [pt() for _ in range(n)]
    if cls == 'circle':
        s['sizes'] = [size()[1]]
    elif cls == 'circleannulus':
        v, a = size()
        s['sizes'] = [a, size(v)[1]]
    elif cls in ('ellipse', 'rectangle'):
        s['sizes'] = [size()[1], size()[1]]
    elif cls == 'ellipseannulus':
        v1, a = size(); v2, b = size()
        s['sizes'] = [a, b, size(v1 * 2)[1], size(v2 * 2)[1]]
    if cls in ('ellipse', 'rectangle', 'ellipseannulus'):
        if rng.random() < 0.75:
            s['angle'] = [gen_number(rng, 0.0, 360.0), 'deg']
        else:
            s['angle'] = [rng.uniform(0.0, 6.28), 'rad']
        s['angle_cls'] = rng.choice(['Angle', 'Quantity'])
    if cls == 'text':
        s['text'] = text_string(rng)[0]
    meta, vis, rq = gen_meta(rng, cls, sky)
    s['meta'], s['visual'], s['range_q'] = meta, vis, rq
    return s


def mark_spill(case):
    """strings with comma / bracket / '=' in a label or scalar value (F36) or '[' / '=' in a text region (F37): their effect
    on the reader's regular expressions spills over the whole line; such cases are not sent to the model (oracle only)."""
    if case['kind'] == 'write':
        vals = [v for r in case['regions'] for k, v in r['meta'] + r['visual'] if isinstance(v, str) and k != 'text']
        texts = [r['text'] for r in case['regions'] if r['cls'] == 'text']
    else:
        regs = [l for l in case['lines'] if l['t'] in ('region', 'global')]
        vals = [it['s'] for l in regs for it in l['items'] if it and 's' in it]
        texts = [l['body']['s'] for l in regs if l['t'] == 'region' and l['body']['n'] == 'text']
    case['spill'] = any(spills(v) for v in vals)
    case['text_spill'] = any('[' in t or '=' in t for t in texts)
    if case['spill'] or case['text_spill']:
        case['nomodel'] = True
    return case


def share_positions(rng, regs):
    """give the regions of a list numerically identical positions in pairwise different source frames."""
    pool = list(regs[0]['pts'])
    while len(pool) < 3:
        pool.append([gen_number(rng, 0.0, 359.99), gen_number(rng, -85.0, 85.0)])
    used = [(regs[0]['frame'], json_key(regs[0].get('attrs')))]
    for r in regs[1:]:
        for _ in range(20):
            f = rng.choice(SKY_FRAMES)
            a = dict(rng.choice(FRAME_ATTRS[f])) if f in FRAME_ATTRS and rng.random() < 0.4 else None
            if (f, json_key(a)) not in used:
                break
        used.append((f, json_key(a)))
        r['frame'] = f
        if a:
            r['attrs'] = a
        else:
            r.pop('attrs', None)
        k = rng.randrange(len(pool))
        if r['cls'] == 'polygon':
            # some (or all) vertices are shared
            idx = rng.sample(range(len(r['pts'])), rng.randint(1, len(r['pts'])))
            for j, i in enumerate(idx):
                r['pts'][i] = list(pool[(k + j) % len(pool)])
            if len({tuple(p) for p in r['pts']}) < 3:
                r['pts'] = [list(pool[(k + j) % len(pool)]) for j in range(3)]
        else:
            for j in range(len(r['pts'])):
                r['pts'][j] = list(pool[(k + j) % len(pool)])
        if r['cls'] == 'line' and r['pts'][0] == r['pts'][1]:
            r['pts'][1] = list(pool[(k + 1) % len(pool)])


def json_key(x):
    import json
    return json.dumps(x, sort_keys=True)


def gen_write_case(rng):
    t = rng.random()
    sky = rng.random() < 0.65
    prec = rng.choice([0, 1, 2, 3, 3, 4, 4, 5, 6, 6, 6, 7, 8, 9, 10, 12])
    case = {'kind': 'write'}
    if sky:
        radunit = rng.choice(['deg', 'deg', 'deg', 'arcsec', 'arcmin', 'rad'])
        prec = max(prec, RADUNITS[radunit][2]) if rng.random() < 0.97 else prec
        same = rng.random() < 0.5
        f0 = rng.choice(SKY_FRAMES)
        coordsys = f0 if same or rng.random() < 0.3 else rng.choice(SKY_FRAMES)
    else:
        radunit = rng.choice(['deg', 'deg', 'pix'])
        coordsys = 'image'
        prec = max(prec, 1) if rng.random() < 0.97 else prec
        same, f0 = True, 'image'
    n = rng.choice([1, 1, 1, 2, 3, 4, 6, 8])
    regs = []
    for _ in range(n):
        cls = rng.choice(WRITE_CLASSES)
        frame = f0 if (same or not sky) else rng.choice(SKY_FRAMES)
        regs.append(gen_region(rng, cls, sky, frame, radunit, prec, tiny=rng.random() < 0.01))
    # the same lon/lat NUMBERS reused across regions that live in different source frames (or the same frame family
    # with another equinox / obstime): every one must land where ITS frame says (a per-call cache keyed by the numbers
    # alone would write the later ones at the first one's transformed position)
    if sky and rng.random() < 0.2:
        while len(regs) < 2 or (len(regs) < 4 and rng.random() < 0.5):
            regs.append(gen_region(rng, rng.choice(WRITE_CLASSES), True, rng.choice(SKY_FRAMES), radunit, prec))
        share_positions(rng, regs)
        case['shared_positions'] = True
    # the malformed / unsupported stream
    if t < 0.015:
        coordsys = rng.choice(SKY_FRAMES) if not sky else 'image'
    elif t < 0.025:
        coordsys = rng.choice(['j2000', 'FK5', 'ecliptic'])
    elif t < 0.04:
        regs.insert(rng.randrange(len(regs) + 1),
                    gen_region(rng, rng.choice(['ellipseannulus', 'compound'] if not sky else ['ellipseannulus']),
                               sky, f0, radunit, prec))
    elif t < 0.045 and not sky:
        radunit = 'arcsec'
    case.update({'coordsys': coordsys, 'fmt': f'.{prec}f', 'radunit': radunit, 'regions': regs})
    mark_spill(case)
    return case


# ------------------------------------------------------------------ real side

def _opts(case):
    return dict(coordsys=case['coordsys'], fmt=case['fmt'], radunit=case['radunit'])


def expected_inputs(case):
    """what the property says must come back, from the spec and astropy alone."""
    import astropy.units as u
    from astropy.coordinates import SkyCoord
    out = []
    cs, ru = case['coordsys'], case['radunit']
    for s in case['regions']:
        e = {'cls': s['cls'], 'sky': s['sky']}
        try:
            if s['sky']:
                from astropy.coordinates import frame_transform_graph
                c = SkyCoord([p[0] for p in s['pts']], [p[1] for p in s['pts']], unit='deg', frame=s['frame'],
                             **(s.get('attrs') or {}))
                # the frame a CRTF name denotes has its default attributes (J2000 = FK5 at equinox J2000, ...)
                c = c.transform_to(frame_transform_graph.lookup_name(cs)(), merge_attributes=False)
                e['pts'] = [[frac(float(a)), frac(float(b))] for a, b in
                            zip(c.spherical.lon.to_value(u.deg), c.spherical.lat.to_value(u.deg))]
                e['sizes'] = [frac(float(u.Quantity(v[0], v[1]).to(ru).value)) for v in s['sizes']]
            else:
                e['pts'] = [[frac(p[0]), frac(p[1])] for p in s['pts']]
                e['sizes'] = [frac(v[0]) for v in s['sizes']]
            e['angle'] = None if s['angle'] is None else frac(float(u.Quantity(s['angle'][0], s['angle'][1]).to(u.deg).value))
        except Exception as ex:
            e['unavailable'] = exc_name(ex)
        out.append(e)
    return out


def real_write(case):
    from regions import Regions
    opts = _opts(case)
    out = {}
    regs = [build_region(s) for s in case['regions']]
    snap = [(enc_meta(r.meta), enc_meta(r.visual)) if hasattr(r, 'visual') and r.meta is not None else None for r in regs]
    with warnings.catch_warnings():
        warnings.simplefilter('ignore')
        try:
            text = Regions(regs).serialize(format='crtf', **opts)
        except Exception as e:
            out['exc'] = exc_name(e)
            return out
        out['text'] = text
        after = [(enc_meta(r.meta), enc_meta(r.visual)) if hasattr(r, 'visual') and r.meta is not None else None for r in regs]
        out['mutated'] = [i for i in range(len(regs)) if snap[i] != after[i]]
        try:
            out['file'] = file_checks(text)
        except Exception as e:
            out['file'] = [{'ending': '?', 'what': 'harness', 'file': exc_name(e) + ': ' + str(e)[:100], 'parse': '', 'tail': ''}]
        try:
            out['text_twice'] = Regions(regs).serialize(format='crtf', **opts)
        except Exception as e:
            out['text_twice'] = 'EXC ' + exc_name(e)
        try:
            out['text_fresh'] = Regions([build_region(s) for s in case['regions']]).serialize(format='crtf', **opts)
        except Exception as e:
            out['text_fresh'] = 'EXC ' + exc_name(e)
        try:
            parsed = Regions.parse(text, format='crtf')
        except Exception as e:
            out['parse_exc'] = exc_name(e)
            out['parse_msg'] = str(e)[:200]
            out['inputs'] = expected_inputs(case)
            return out
        out['parsed'] = [canon_region(r) for r in parsed]
        out['inputs'] = expected_inputs(case)
        # fixed point: serialise what was parsed (fresh objects: parse again), parse, serialise
        try:
            p1 = Regions.parse(text, format='crtf')
            text2 = Regions(p1).serialize(format='crtf', **opts)
            out['text2'] = text2
            p2 = Regions.parse(text2, format='crtf')
            out['parsed2'] = [canon_region(r) for r in p2]
            out['text3'] = Regions(Regions.parse(text2, format='crtf')).serialize(format='crtf', **opts)
        except Exception as e:
            out['fp_exc'] = exc_name(e) + ': ' + str(e)[:200]
    return out


# ------------------------------------------------------------------ oracle (Spec level, independent of the Lean model)

def excluded(v):
    return v is False or (isinstance(v, int) and not isinstance(v, bool) and v == 0) or v == '-'


def meta_dict(entries):
    return {k: v for k, v in entries}


def dec_prints_zero(x, p):
    """does f'{x:.{p}f}' show only zeros?  (exact: round-half-even of the exact value)"""
    return float(f'{float(Fraction(x)):.{p}f}') == 0.0


def representable(case):
    cs, ru = case['coordsys'], case['radunit']
    if cs != 'image' and cs not in SKY_FRAMES:
        return False
    if (cs == 'image' and ru not in ('deg', 'pix')) or (cs != 'image' and ru not in RADUNITS):
        return False
    for s in case['regions']:
        if s['cls'] not in WRITE_CLASSES or s['sky'] != (cs != 'image'):
            return False
    return True


_OPEN = None


def open_findings():
    """ids of the C11 findings that are still open (a fixed finding explains nothing any more)."""
    global _OPEN
    if _OPEN is None:
        from .common import load_findings
        _OPEN = {f['id'] for f in load_findings() if f['property'] == 'C11' and f.get('status') == 'open'}
    return _OPEN


def unreadable_causes(case, inputs):
    """known reasons for which the current tree cannot read back what it wrote."""
    p = int(case['fmt'][1:-1])
    causes = set()
    for s, e in zip(case['regions'], inputs):
        vis = meta_dict(s['visual'])
        if s['cls'] == 'point' and 'symbol' not in vis:
            causes.add('F20')
        if case['coordsys'] == 'image' and s['cls'] in ('polygon', 'line'):
            causes.add('F21')
        if case['radunit'] == 'arcsec' and s['cls'] in ('circleannulus', 'ellipse', 'rectangle'):
            causes.add('F33')
        if s['cls'] == 'text' and ('[' in s['text'] or '=' in s['text']):
            causes.add('F37')
        if any(spills(v) for k, v in s['meta'] + s['visual'] if k != 'text'):
            causes.add('F36')
        sizes = [Fraction(x) for x in e.get('sizes', [])]
        written = [x / 2 for x in sizes] if s['cls'] == 'ellipse' else sizes
        if any(dec_prints_zero(x, p) for x in written):
            causes.add('F19')
        if s['cls'] == 'circleannulus' and len(written) == 2 and \
                float(f'{float(written[0]):.{p}f}') >= float(f'{float(written[1]):.{p}f}'):
            causes.add('F19')
    return sorted(causes & open_findings())


# a value with a comma / bracket / '=' (F36) or a text with '[' / '=' (F37) changes how the reader's regular expressions cut
# the WHOLE line (e.g. an unquoted `label=[` opens a list that swallows the following `coord=ICRS`): in such a case every
# reading-rule / round-trip clause about that file may fail as a consequence of the same finding.  `file_read_differs`
# (the file layer), `unitless_length_accepted`, `serialize_exception`, `nondeterministic`, `input_mutated` are NOT in the list.
SPILL_KINDS = ('label_lost', 'meta_lost', 'meta_changed', 'text_lost', 'not_fixed_point', 'region_count', 'class_changed',
               'geometry_off', 'include_sense', 'annotation_type',
               'valid_file_rejected', 'override_rule', 'frame_rule', 'kind_rule', 'include_rule', 'ann_rule', 'coordinate_rule',
               'length_rule', 'ellipse_rule', 'box_rule', 'text_rule')


def primary_cause(v):
    c = [x for x in ('F37', 'F36', 'F20', 'F21', 'F33', 'F19') if x in v.get('causes', [])]
    return c[0] if c else None


def canon_unordered(c):
    d = dict(c)
    d['meta'] = sorted(map(repr, c['meta']))
    d['visual'] = sorted(map(repr, c['visual']))
    return d


def oracle_write(case, real):
    V = []
    if not representable(case):
        return V
    p = int(case['fmt'][1:-1])
    half = Fraction(1, 2) / 10 ** p

    def bad(kind, detail, **kw):
        V.append(dict({'kind': kind, 'detail': f"{detail} :: coordsys={case['coordsys']} fmt={case['fmt']} "
                                                f"radunit={case['radunit']} classes={[s['cls'] for s in case['regions']]}",
                       'spill': bool(case.get('spill')), 'text_spill': bool(case.get('text_spill'))}, **kw))
    if 'exc' in real:
        bad('serialize_exception', real['exc'])
        return V
    if real['text_fresh'] != real['text']:
        bad('nondeterministic', 'fresh objects serialise differently')
    if real['mutated']:
        keys = [[k for k, _ in case['regions'][i]['meta']] for i in real['mutated']]
        bad('input_mutated', f"regions {real['mutated']} changed by serialize()", mutated_has_include=all('include' in k for k in keys))
    if real['text_twice'] != real['text']:
        ex = [i for i, s in enumerate(case['regions']) if excluded(meta_dict(s['meta']).get('include', True))]
        bad('serialize_twice_differs', f'second serialisation of the same objects differs; excluded regions {ex}',
            some_excluded=bool(ex))
    inputs = real.get('inputs', [])
    if 'parse_exc' in real:
        bad('roundtrip_unreadable', f"{real['parse_exc']}: {real.get('parse_msg')}", causes=unreadable_causes(case, inputs))
        return V
    parsed = real['parsed']
    if len(parsed) != len(case['regions']):
        bad('region_count', f'{len(parsed)} regions read for {len(case["regions"])} written')
        return V
    ru_name = {'deg': 'deg', 'arcmin': 'arcmin', 'arcsec': 'arcsec', 'rad': 'rad', 'pix': ''}[case['radunit']]
    for i, (s, e, g) in enumerate(zip(case['regions'], inputs, parsed)):
        if 'unavailable' in e:
            continue
        sky = s['sky']
        if g['kind'] != s['cls'] or g['frame'] != case['coordsys']:
            bad('class_changed', f"region {i}: {s['cls']}/{case['coordsys']} came back as {g['kind']}/{g['frame']}")
            continue
        eps = Fraction(1, 10 ** 10)
        ok = len(g['pts']) == len(e['pts'])
        for a, b in zip(e['pts'], g['pts']) if ok else []:
            dx = abs(Fraction(a[0]) - Fraction(b[0]))
            if sky:
                dx = min(dx, abs(dx - 360))
            if dx > half + eps or abs(Fraction(a[1]) - Fraction(b[1])) > half + eps:
                ok = False
        tol = 2 * half if s['cls'] == 'ellipse' else half
        if len(g['sizes']) != len(e['sizes']):
            ok = False
        for a, b in zip(e['sizes'], g['sizes']):
            if abs(Fraction(a) - Fraction(b[0])) > tol + eps * max(1, abs(Fraction(a))) or b[1] != (ru_name if sky else ''):
                ok = False
        if (e['angle'] is None) != (g['angle'] is None):
            ok = False
        elif e['angle'] is not None:
            if abs(Fraction(e['angle']) - Fraction(g['angle'][0])) > half + eps * 400 or g['angle'][1] != 'deg':
                ok = False
        if not ok:
            bad('geometry_off', f"region {i} {s['cls']}: expected {e} got pts={g['pts']} sizes={g['sizes']} angle={g['angle']}",
                nondefault_attrs=bool(s.get('attrs')) and case['coordsys'] in FRAME_ATTRS, attrs=s.get('attrs'))
        im = meta_dict(s['meta'])
        iv = meta_dict(s['visual'])
        gm = {k: list(v.values())[0] for k, v in g['meta']}
        gv = {k: list(v.values())[0] for k, v in g['visual']}
        if gm.get('include') != (not excluded(im.get('include', True))):
            bad('include_sense', f"region {i}: include={im.get('include', True)!r} came back as {gm.get('include')}")
        if gm.get('type') != ('ann' if im.get('type') == 'ann' else 'reg'):
            bad('annotation_type', f"region {i}: type={im.get('type')!r} came back as {gm.get('type')}")
        if s['cls'] == 'text':
            if g['text'] != s['text']:
                bad('text_lost', f"region {i}: text {s['text']!r} came back as {g['text']!r}", text_in_meta=('text' in im))
        elif str(im.get('label', '')) != '' and gm.get('label') != str(im['label']):
            bad('label_lost', f"region {i}: label {im['label']!r} came back as {gm.get('label')!r}", hostile=hostile(im['label']))
        if s['cls'] == 'point' and 'symbol' in iv and gv.get('symbol') != str(iv['symbol']):
            bad('meta_lost', f'region {i}: symbol', key='symbol')
        for k in SCALAR_META + SCALAR_VIS:
            src, dst = (iv, gv) if k in SCALAR_VIS else (im, gm)
            if k in src and str(src[k]) != '' and dst.get(k) != str(src[k]):
                bad('meta_lost', f"region {i}: {k}={src[k]!r} came back as {dst.get(k)!r}", key=k, hostile=hostile(src[k]))
        if 'corr' in im and gm.get('corr') != [str(x) for x in im['corr']]:
            bad('meta_lost', f"region {i}: corr={im['corr']!r} came back as {gm.get('corr')!r}", key='corr')
        if 'labeloff' in iv and gv.get('labeloff') != [str(x) for x in iv['labeloff']]:
            bad('meta_changed', f"region {i}: labeloff={iv['labeloff']!r} came back as {gv.get('labeloff')!r}", key='labeloff',
                strings=any(isinstance(x, str) for x in iv['labeloff']))
        if 'range' in im:
            import astropy.units as u
            exp = [str(u.Quantity(x)) for x in im['range']]
            if gm.get('range') != exp:
                bad('meta_lost', f"region {i}: range={im['range']!r} came back as {gm.get('range')!r}", key='range')
    # fixed point: parse -> serialise -> parse
    if 'fp_exc' in real:
        bad('not_fixed_point', 'serialising / re-reading the parsed regions failed: ' + real['fp_exc'], keys=[])
    else:
        a = [canon_unordered(c) for c in parsed]
        b = [canon_unordered(c) for c in real['parsed2']]
        if a != b:
            keys = sorted({k for x, y in zip(parsed, real['parsed2']) for k in
                           {e[0] for e in x['meta'] + x['visual'] if e not in y['meta'] + y['visual']} |
                           {e[0] for e in y['meta'] + y['visual'] if e not in x['meta'] + x['visual']}})
            geo = any({k: v for k, v in x.items() if k not in ('meta', 'visual')} != {k: v for k, v in y.items() if k not in ('meta', 'visual')}
                      for x, y in zip(parsed, real['parsed2']))
            hk = bool(keys) and not geo and all(any(hostile(v) for sr in case['regions'] for kk, v in sr['meta'] + sr['visual'] if kk == k)
                                                for k in keys)
            bad('not_fixed_point', f'parse(serialize(parse)) differs from parse; keys {keys} geometry {geo}', keys=keys, geometry=geo,
                hostile=hk)
        elif real['text3'] != real['text2']:
            bad('not_fixed_point', 'serialising the re-read regions gives another text', keys=[], geometry=False)
    return V



# ------------------------------------------------------------------ reference reading of structured lines (CASA rules)

REF_FRAMES = {'j2000': 'fk5', 'b1950': 'fk4', 'icrs': 'icrs', 'galactic': 'galactic', 'supergal': 'supergalactic',
              'ecliptic': 'geocentrictrueecliptic', 'image': 'image', 'fk5': 'fk5', 'fk4': 'fk4',
              'supergalactic': 'supergalactic', 'geocentrictrueecliptic': 'geocentrictrueecliptic'}
REF_KIND = {'circle': 'circle', 'annulus': 'circleannulus', 'ellipse': 'ellipse', 'box': 'rectangle',
            'centerbox': 'rectangle', 'rotbox': 'rectangle', 'poly': 'polygon', 'line': 'line', 'symbol': 'point',
            'text': 'text'}
REF_KEYS = ['frame', 'veltype', 'restfreq', 'color', 'linewidth', 'linestyle', 'symsize', 'symthick', 'font',
            'fontsize', 'fontstyle', 'usetex', 'labelpos', 'labelcolor']
REF_VIS = set(SCALAR_VIS) | {'labeloff', 'symbol'}


def ref_coord_deg(c):
    """a coordinate token in degrees (pixels for `pix`)."""
    if c['t'] == 'dec':
        v = dec_val(c['d'])
        return v * 180 / RAD if c['u'] == 'rad' else v
    # the sign is the sign CHARACTER, whatever the fields are (-00.30.00.0 is minus half a degree)
    v = c['a'] + Fraction(c['b'], 60) + (dec_val(c['s']) / 3600 if 's' in c else 0)
    v = -v if c['neg'] else v
    return v * 15 if c['t'] in ('hms', 'colon', 'hm') else v


def ref_lens(b):
    return [b[f] for f in ('r', 'r1', 'r2', 'a', 'b', 'w', 'h', 'ang') if f in b and isinstance(b[f], dict)]


def oracle_read(case, real):
    V = []

    def bad(kind, detail, **kw):
        V.append(dict({'kind': kind, 'detail': f"{detail} :: {real['text'][:300]!r}",
                       'spill': bool(case.get('spill')), 'text_spill': bool(case.get('text_spill'))}, **kw))
    regs = [l for l in case['lines'] if l['t'] == 'region']
    unitless = any(l['u'] == 'none' for r in regs for l in ref_lens(r['body']))
    if unitless:
        # lengths require units => the file is rejected
        if real.get('exc') != 'CRTFRegionParserError':
            bad('unitless_length_accepted', f"result {real.get('exc', 'parsed')}")
        return V
    if 'exc' in real:
        if case['note'] == 'plain':
            quote = any(l['u'] in ('dq', 'sq') for r in regs for f in (('r1', 'r2'), ('a', 'b'), ('w', 'h'))
                        for l in [r['body'].get(f[0]), r['body'].get(f[1])] if isinstance(l, dict))
            bad('valid_file_rejected', f"{real['exc']}: {real.get('msg')}", quote_pair=quote)
        return V
    parsed = real['parsed']
    if len(parsed) != len(regs):
        bad('region_count', f'{len(parsed)} regions for {len(regs)} region lines')
        return V
    gmeta = {}
    it = iter(parsed)
    for l in case['lines']:
        if l['t'] == 'global':
            for x in l['items']:
                if x and (x.get('s') != '' or x.get('q', 'none') != 'none' or 'l' in x):
                    gmeta[x['k'].lower()] = x
            continue
        if l['t'] != 'region':
            continue
        g = next(it)
        inline = {}
        for x in l['items']:
            if x and (x.get('s') != '' or x.get('q', 'none') != 'none' or 'l' in x):
                inline[x['k']] = x
        merged = dict(gmeta)
        merged.update(inline)
        # coord= selects the frame; no coord => image
        name = merged['coord']['s'].lower() if 'coord' in merged else 'image'
        frame = REF_FRAMES.get(name)
        b = l['body']
        if frame is None or b['n'] not in REF_KIND:
            continue
        if g['frame'] != frame:
            bad('frame_rule', f"coord={name} read as {g['frame']}")
            continue
        if g['kind'] != REF_KIND[b['n']]:
            bad('kind_rule', f"{b['n']} read as {g['kind']}")
            continue
        gm = {k: list(v.values())[0] for k, v in g['meta']}
        gv = {k: list(v.values())[0] for k, v in g['visual']}
        if gm.get('include') != (not l.get('excl', False)):
            bad('include_rule', f"excl={l.get('excl')} read as include={gm.get('include')}")
        if gm.get('type') != ('ann' if l.get('ann') else 'reg'):
            bad('ann_rule', f"ann={l.get('ann')} read as {gm.get('type')}")
        # global defaults, inline override
        for k in REF_KEYS + ['label']:
            exp = merged[k]['s'] if k in merged and 's' in merged[k] else None
            if k == 'label' and b['n'] == 'text':
                exp = exp if 'label' in inline else b['s']
            got = (gv if k in REF_VIS else gm).get(k)
            if exp != got:
                bad('override_rule', f"{k}: inline={inline.get(k)} global={gmeta.get(k)} read as {got!r}", key=k,
                    hostile=hostile(exp) or exp == '')
        if 'corr' in merged and gm.get('corr') != (merged['corr'].get('l') if 'l' in merged['corr'] else [merged['corr']['s']]):
            bad('override_rule', f"corr read as {gm.get('corr')}", key='corr')
        # geometry
        pixel = frame == 'image'

        def near(a, bb):
            return abs(Fraction(a) - Fraction(bb)) <= Fraction(1, 10 ** 9) * max(1, abs(Fraction(a)))

        def lenval(ln):
            return dec_val(ln['d'])
        unit_name = {'deg': 'deg', 'rad': 'rad', 'arcmin': 'arcmin', 'arcsec': 'arcsec', 'dq': 'arcsec', 'sq': 'arcmin', 'pix': ''}

        def ptdeg(pt):
            if pixel:
                return [dec_val(pt[0]['d']) if pt[0]['t'] == 'dec' else None, dec_val(pt[1]['d']) if pt[1]['t'] == 'dec' else None]
            return [ref_coord_deg(pt[0]), ref_coord_deg(pt[1])]
        n = b['n']
        if n == 'box':
            c1, c2 = ptdeg(b['c1']), ptdeg(b['c2'])
            if None not in c1 + c2:
                cx, cy = (c1[0] + c2[0]) / 2, (c1[1] + c2[1]) / 2
                gx = Fraction(g['pts'][0][0])
                # a sky longitude is stored wrapped into [0, 360): same position
                if not ((near(cx, gx) or (not pixel and near(cx % 360, gx % 360))) and near(cy, g['pts'][0][1])):
                    bad('box_rule', f"corner form: centre {g['pts'][0]} expected {(cx, cy)}")
                if pixel and not (near(abs(c1[0] - c2[0]), g['sizes'][0][0]) and near(abs(c1[1] - c2[1]), g['sizes'][1][0])):
                    bad('box_rule', f"corner form: size {g['sizes']}")
                if g['angle'] is None or Fraction(g['angle'][0]) != 0:
                    bad('box_rule', f"corner form: angle {g['angle']}")
        else:
            pts = {'poly': b.get('vs'), 'line': [b.get('p'), b.get('q')]}.get(n) or [b['c']]
            for pt, gp in zip(pts, g['pts']):
                e = ptdeg(pt)
                for j in (0, 1):
                    if e[j] is not None and not (near(e[j], gp[j]) or (not pixel and j == 0 and near(e[j] % 360, Fraction(gp[j]) % 360))):
                        bad('coordinate_rule', f"{n}: {gp} expected {e}")
            if len(pts) != len(g['pts']):
                bad('coordinate_rule', f'{n}: {len(g["pts"])} points for {len(pts)}')
        if n == 'ellipse':
            # [a, b] are the [major, minor] SEMI-axes: width = 2*b, height = 2*a; the angle is as written
            if not (near(2 * lenval(b['b']), g['sizes'][0][0]) and near(2 * lenval(b['a']), g['sizes'][1][0])
                    and near(lenval(b['ang']), g['angle'][0]) and g['angle'][1] == unit_name.get(b['ang']['u'], '')):
                bad('ellipse_rule', f"axes {r_len(b['a'])},{r_len(b['b'])} angle {r_len(b['ang'])} read as {g['sizes']} {g['angle']}")
        sz = {'circle': ['r'], 'annulus': ['r1', 'r2'], 'centerbox': ['w', 'h'], 'rotbox': ['w', 'h']}.get(n, [])
        for f, gs in zip(sz, g['sizes']):
            un = '' if pixel else unit_name.get(b[f]['u'], '')
            if not near(lenval(b[f]), gs[0]) or gs[1] != un:
                bad('length_rule', f"{n}.{f}={r_len(b[f])} read as {gs}")
        if n == 'rotbox' and not (near(lenval(b['ang']), g['angle'][0]) and g['angle'][1] == unit_name.get(b['ang']['u'], '')):
            bad('length_rule', f"rotbox angle {r_len(b['ang'])} read as {g['angle']}")
        if n == 'centerbox' and (g['angle'] is None or Fraction(g['angle'][0]) != 0):
            bad('box_rule', f"centerbox angle {g['angle']}")
        if n == 'text' and g['text'] != b['s']:
            bad('text_rule', f"text {b['s']!r} read as {g['text']!r}")
        if n == 'symbol' and gv.get('symbol') != b['sym']:
            bad('text_rule', f"symbol {b['sym']!r} read as {gv.get('symbol')!r}")
    return V


# ------------------------------------------------------------------ bundled files: parse -> serialise -> parse on the real code

DATA_FILES = ['CRTFgeneral.crtf', 'CRTFgeneraloutput.crtf', 'CRTF_CARTA.crtf', 'CRTF_labelcolor.crtf',
              'CRTF_labelcolor_output.crtf', 'crtf_carta_sexagesimal.crtf']


def real_file(case):
    import os
    import regions
    from regions import Regions
    path = os.path.join(os.path.dirname(regions.__file__), 'io', 'crtf', 'tests', 'data', case['file'])
    out = {}
    with warnings.catch_warnings():
        warnings.simplefilter('ignore')
        try:
            r1 = Regions.read(path, format='crtf')
            out['n'] = len(r1)
            out['p1'] = [canon_region(r) for r in r1]
            opts = dict(coordsys=case['coordsys'], fmt=case['fmt'], radunit='deg')
            t2 = Regions.read(path, format='crtf').serialize(format='crtf', **opts)
            r2 = Regions.parse(t2, format='crtf')
            out['p2'] = [canon_region(r) for r in r2]
            t3 = Regions.parse(t2, format='crtf').serialize(format='crtf', **opts)
            out['t2'], out['t3'] = t2, t3
            out['p3'] = [canon_region(r) for r in Regions.parse(t3, format='crtf')]
        except Exception as e:
            out['exc'] = exc_name(e) + ': ' + str(e)[:200]
    return out


def oracle_file(case, real):
    V = []

    def bad(kind, detail, **kw):
        V.append(dict({'kind': kind, 'detail': f"{case['file']}: {detail}"}, **kw))
    if 'exc' in real:
        bad('file_roundtrip_exception', real['exc'])
        return V
    if len(real['p2']) != real['n'] or [c['kind'] for c in real['p2']] != [c['kind'] for c in real['p1']]:
        bad('region_count', 'classes change through serialise/parse')
    for a, b in zip(real['p1'], real['p2']):
        ka = {e[0]: e[1] for e in a['meta'] + a['visual']}
        kb = {e[0]: e[1] for e in b['meta'] + b['visual']}
        for k in ka:
            if k not in kb:
                bad('meta_lost', f'{k} of the parsed region is not in its serialisation', key=k)
                break
    if [canon_unordered(c) for c in real['p2']] != [canon_unordered(c) for c in real['p3']] or real['t2'] != real['t3']:
        keys = sorted({e[0] for x, y in zip(real['p2'], real['p3']) for e in x['meta'] + x['visual'] if e not in y['meta'] + y['visual']})
        bad('not_fixed_point', f'second serialise/parse differs; keys {keys}', keys=keys, geometry=False)
    return V



class Check(PropertyCheck):
    id = 'C11'
    lean_targets = ['RegionsVerif.Props.C11']
    namespaces = ['RegionsVerif.Props.C11']
    parallel = True
    rule = ('write: lists of 1..8 regions of the 8 CRTF classes (circle, circle annulus, ellipse, rectangle with angle, '
            'polygon, line, text, point/symbol), all sky (each region in its own frame of fk5/fk4/icrs/galactic/'
            'supergalactic/geocentrictrueecliptic) or all pixel, x coordsys (own frame or another sky frame; image) '
            'x fmt .0f .. .12f x radunit deg/arcmin/arcsec/rad (image: deg/pix) x sizes in radunit or another angular unit '
            'x angle deg/rad as Angle/Quantity x metadata (include absent/True/False/0/1, label incl. empty, type, frame, veltype, '
            'restfreq, range as str/Quantity, corr, color, linewidth, linestyle, symsize, symthick, font, fontsize, fontstyle, '
            'usetex, labelpos, labelcolor, labeloff, symbol, keys outside the CRTF vocabulary) in shuffled order; text strings and '
            'label / color / font values also with quote characters at the ends or inside, only quotes, empty, blanks at the ends, '
            '#, and (text) commas and ]; strings with comma / bracket / = in a key=value item or [ / = in a text region go to an '
            'oracle-only stream (no model); sky coordinates with their own equinox / obstime; dyadic and '
            'few-decimal numbers for exact rounding ties; a malformed stream (pixel/sky mismatch, unknown coordsys, classes '
            'without template, arcsec with image, sizes below the precision). read: files of 1..6 region lines from the grammar '
            '(every keyword incl. box/centerbox/rotbox, notations deg / bare / rad / pix / 12h30m15s / -12d30m15s / 12:30:15 / '
            '-012.30.15, length units deg arcmin arcsec " \' rad pix and unknown, global lines incl. several and key case, inline '
            'coord=, -, +, ann, comma/space variants, quotes) plus a malformed stream (no unit, bad key, upper-case key, pix in a sky '
            'frame, point keyword, bad symbol, 2-vertex polygon, unknown frame, zero size, unknown unit, quote pair). file: the '
            'bundled .crtf files. Non-trivial = something was written and read back, or a file was parsed into >= 1 region.')
    assumptions = [
        'astropy is a parameter: SkyCoord.transform_to / spherical lon-lat, Quantity.to(radunit), Angle/Quantity string parsing '
        '(sexagesimal and rad notations are compared to 1e-11 relative, decimal degrees exactly), str(Quantity) for `range` '
        '(table sent with each request); astropy Longitude wrapping into [0, 360) at parse time IS modelled (wrapLon in Impl/CrtfRead.lean; rad via a 30-digit 180/pi), and the comparison additionally tolerates a whole turn at the float boundary',
        'Python float formatting f"{x:.Nf}" is the correctly rounded (half-even on the exact value) decimal: modelled as fmtDec on '
        'exact rationals and compared as strings on every written number',
        'fmt is of the form ".Nf"; metadata values are str / int / bool / list of str / list of int (no floats); label, text and '
        'scalar values contain no comma, quote, bracket or "=" and no leading/trailing blank (the reader\'s regular-expression '
        'tokenisation is NOT modelled: the reader model is tied to the real parser through render, i.e. real parse(render L) vs '
        'model parse L, and the writer model through string equality of the whole text)',
        'errors="strict" (the Regions.parse default)']
    validated_only = [
        'character level: the real reader\'s regex tokenisation (regex_line / regex_region / regex_coordinate / regex_length / '
        'regex_meta) is not modelled in Lean and there is no lex(render L) = L theorem; conformance of the tokenisation is decided '
        'by the differential run only (real parse of the rendered text vs model parse of the structure) and by the bundled files '
        '(oracle only)',
        'fixed point for ARBITRARY input text (numbers with more decimals than fmt, other frames/units): checked by the oracle on '
        'the real code (second and third serialisation identical); the Lean theorem crtf_fixed_point covers what the writer '
        'itself produced (any region, then parse -> serialise -> parse is exact)',
        'metadata clauses of crtf_roundtrip are theorems for include, type, label, text and the scalar keys; for the list keys '
        '(corr, range, labeloff) preservation is checked by the correspondence and the oracle, not proved',
        'frame transformation of coordinates, unit conversion and Quantity/Angle parsing are astropy\'s (parameters)',
        'after an exception in the middle of a list the partial mutation of earlier regions (F6) is not modelled',
        'strings whose effect on the reader\'s regular expressions spills over the line (comma, bracket, "=" in a label or other '
        'key=value string; "[" or "=" in the string of a text region) are not modelled: those cases run on the real code against '
        'the oracle only (known findings F36 / F37); quote characters and blanks at the ends ARE modelled (MTok.lexed)']

    # ---------------------------------------------------------------- generation
    def generate(self, rng, tier):
        n_w, n_r = (700, 1000) if tier == 'quick' else (25000, 40000)
        cases = [{'kind': 'file', 'file': f, 'coordsys': cs, 'fmt': fm}
                 for f in DATA_FILES for cs, fm in (('fk4', '.3f'), ('fk5', '.6f'), ('galactic', '.8f'))]
        cases += [gen_write_case(rng) for _ in range(n_w)]
        cases += [gen_read_case(rng) for _ in range(n_r)]
        return cases

    # ---------------------------------------------------------------- real
    def real(self, case):
        if case['kind'] == 'write':
            return real_write(case)
        if case['kind'] == 'read':
            return real_read(case)
        if case['kind'] == 'file':
            return real_file(case)
        raise ValueError(case['kind'])

    # ---------------------------------------------------------------- model
    def requests(self, case):
        if case.get('nomodel'):
            return []          # oracle only (see mark_spill)
        if case['kind'] == 'write':
            with warnings.catch_warnings():
                warnings.simplefilter('ignore')
                regs = [build_region(s) for s in case['regions']]
                ws = [wreg_of(r, case['coordsys'], case['radunit']) for r in regs]
            rstr = []
            for w in ws:
                for k, v in w['meta']:
                    if k == 'range' and 'ss' in v:
                        rstr += [x.replace(' ', '') for x in v['ss']]
            return [{'op': 'crtf.roundtrip', 'coordsys': case['coordsys'], 'fmt': case['fmt'],
                     'radunit': case['radunit'], 'regions': ws, 'qtable': qtable_for(rstr)}]
        if case['kind'] == 'read':
            rstr = []
            for l in case['lines']:
                for it in l.get('items', []):
                    if it and it['k'].lower() == 'range':
                        rstr += it.get('l', [it.get('s')])
            return [{'op': 'crtf.parse', 'lines': case['lines'], 'qtable': qtable_for([x for x in rstr if x])}]
        return []

    def model(self, case, replies):
        return replies[0] if replies else None

    def equal(self, case, real, model):
        if case['kind'] == 'file' or case.get('nomodel'):
            return True          # no model: oracle only
        if model is None or 'fail' in model:
            return False
        if case['kind'] == 'write':
            ser = model['ser']
            if 'exc' in real:
                return ser.get('err') == real['exc']
            if nz(ser.get('ok')) != nz(real['text']):
                return False
            tw = model['ser2']
            if nz(tw.get('ok') if 'ok' in tw else 'EXC ' + tw['err']) != nz(real['text_twice']):
                return False
            mp = model['parse']
            if 'parse_exc' in real:
                return mp.get('err') == real['parse_exc']
            if 'ok' not in mp or len(mp['ok']) != len(real['parsed']):
                return False
            if not all(same_parsed(m, r) for m, r in zip(mp['ok'], real['parsed'])):
                return False
            # fixed point: serialise the parsed regions, parse again
            if 'fp_exc' in real:
                return False
            fs = model.get('fp_ser')
            if not isinstance(fs, dict) or nz(fs.get('ok')) != nz(real['text2']):
                return False
            fpp = model.get('fp_parse') or {}
            if 'ok' not in fpp or len(fpp['ok']) != len(real['parsed2']):
                return False
            return all(same_parsed(m, r) for m, r in zip(fpp['ok'], real['parsed2']))
        if case['kind'] == 'read':
            if model['text'] != real['text']:
                return False
            mp = model['parse']
            if 'exc' in real:
                return mp.get('err') == real['exc']
            if 'ok' not in mp or len(mp['ok']) != len(real['parsed']):
                return False
            return all(same_parsed(m, r) for m, r in zip(mp['ok'], real['parsed']))
        return False

    # ---------------------------------------------------------------- oracle / findings
    def oracle(self, case, real):
        if case['kind'] == 'write':
            V = oracle_write(case, real)
        elif case['kind'] == 'read':
            V = oracle_read(case, real)
        else:
            return oracle_file(case, real)
        # the FILE path must give what parsing the same characters gives
        for d in real.get('file', []):
            V.append({'kind': 'file_read_differs',
                      'detail': f"Regions.read of a file (ending={d['ending']!r}, suffix={d.get('suffix')!r}, format={d.get('format')!r}) "
                                f"gives {d['file']!r}, Regions.parse of the same text gives {d['parse']!r}; end of file: {d['tail']!r}"})
        return V

    def finding_match(self, f, v):
        """a violation is a known finding only if it is of the finding's kind AND the input is in its class."""
        k, fid = v.get('kind'), f['id']
        if fid == 'F6':
            return (k == 'input_mutated' and v.get('mutated_has_include')) or \
                   (k == 'serialize_twice_differs' and v.get('some_excluded'))
        if fid == 'F7':
            return k == 'text_lost'
        if fid in ('F19', 'F20', 'F21', 'F33'):
            causes = [c for c in ('F37', 'F36', 'F20', 'F21', 'F33', 'F19') if c in v.get('causes', [])]
            if k == 'roundtrip_unreadable' and causes and causes[0] == fid:
                return True
            return fid == 'F33' and k == 'valid_file_rejected' and bool(v.get('quote_pair'))
        if fid == 'F36':
            # labels / scalar values that regex_meta does not hand back unchanged
            return (k in ('label_lost', 'meta_lost', 'override_rule', 'not_fixed_point') and bool(v.get('hostile'))) or \
                   (bool(v.get('spill')) and k in SPILL_KINDS) or \
                   (k == 'roundtrip_unreadable' and primary_cause(v) == 'F36')
        if fid == 'F37':
            return (k == 'roundtrip_unreadable' and primary_cause(v) == 'F37') or \
                   (bool(v.get('text_spill')) and k in SPILL_KINDS)
        if fid == 'F34':
            return k == 'geometry_off' and bool(v.get('nondefault_attrs'))
        if fid == 'F31':
            return k == 'meta_lost' and v.get('key') == 'labelcolor'
        if fid == 'F32':
            return (k == 'meta_changed' and v.get('key') == 'labeloff' and v.get('strings')) or \
                   (k == 'not_fixed_point' and v.get('keys') == ['labeloff'] and not v.get('geometry'))
        return False

    def nontrivial(self, case, real):
        if case['kind'] == 'write':
            return 'parsed' in real
        if case['kind'] == 'read':
            return bool(real.get('parsed'))
        return real.get('n', 0) > 0

    def search(self, rng, tier, disagreements):
        return [gen_write_case(rng) for _ in range(1500)] + [gen_read_case(rng) for _ in range(1500)]

    def bucket(self, case, real):
        if case['kind'] == 'write':
            st = 'exc' if 'exc' in real else ('unreadable' if 'parse_exc' in real else 'ok')
            return f"write/{'image' if case['coordsys'] == 'image' else 'sky'}/{case['radunit']}/{st}"
        if case['kind'] == 'read':
            return f"read/{case['note']}/{real.get('exc', 'ok')}"
        return 'file/' + case['file']


# ------------------------------------------------------------------ read side: structured lines

def pad(n, w):
    return str(n).rjust(w, '0')


def r_dec(d):
    neg, mant, scale = d[0], int(d[1]), int(d[2])
    ip, fp = divmod(mant, 10 ** scale)
    return ('-' if neg else '') + str(ip) + ('' if scale == 0 else '.' + pad(fp, scale))


def dec_val(d):
    v = Fraction(int(d[1]), 10 ** int(d[2]))
    return -v if d[0] else v


def r_coord(c):
    t = c['t']
    if t == 'dec':
        return r_dec(c['d']) + {'deg': 'deg', 'rad': 'rad', 'pix': 'pix', 'bare': ''}[c['u']]
    sg = '-' if c['neg'] else ('+' if c.get('plus') else '')
    a, b = c['a'], c['b']
    if t == 'hm':
        return f'{sg}{a}h{b}m'
    if t == 'dm':
        return f'{sg}{a}d{b}m'
    s = r_dec(c['s'])
    if t == 'hms':
        return f'{sg}{pad(a, 2)}h{pad(b, 2)}m{s}s'
    if t == 'dms':
        return f'{sg}{pad(a, 2)}d{pad(b, 2)}m{s}s'
    if t == 'colon':
        return f'{sg}{pad(a, 2)}:{pad(b, 2)}:{s}'
    return f'{sg}{pad(a, 3)}.{pad(b, 2)}.{s}'


LUNIT_TXT = {'deg': 'deg', 'rad': 'rad', 'arcmin': 'arcmin', 'arcsec': 'arcsec', 'pix': 'pix', 'dq': '"', 'sq': "'",
             'none': ''}


def r_len(l):
    u = l['u']
    return r_dec(l['d']) + (u[6:] if u.startswith('other:') else LUNIT_TXT[u])


def r_pt(p):
    return '[' + r_coord(p[0]) + ', ' + r_coord(p[1]) + ']'


def r_pair(a, b):
    return '[' + r_len(a) + ', ' + r_len(b) + ']'


def r_body(b):
    n = b['n']
    if n == 'circle':
        return r_pt(b['c']) + ', ' + r_len(b['r'])
    if n == 'annulus':
        return r_pt(b['c']) + ', ' + r_pair(b['r1'], b['r2'])
    if n == 'ellipse':
        return r_pt(b['c']) + ', ' + r_pair(b['a'], b['b']) + ', ' + r_len(b['ang'])
    if n == 'box':
        return r_pt(b['c1']) + ', ' + r_pt(b['c2'])
    if n == 'centerbox':
        return r_pt(b['c']) + ', ' + r_pair(b['w'], b['h'])
    if n == 'rotbox':
        return r_pt(b['c']) + ', ' + r_pair(b['w'], b['h']) + ', ' + r_len(b['ang'])
    if n == 'poly':
        return ', '.join(r_pt(p) for p in b['vs'])
    if n == 'line':
        return r_pt(b['p']) + ', ' + r_pt(b['q'])
    if n == 'symbol':
        return r_pt(b['c']) + ', ' + b['sym']
    if n == 'point':
        return r_pt(b['c'])
    if n == 'text':
        return r_pt(b['c']) + ", '" + b['s'] + "'"
    raise ValueError(n)


def r_item(it):
    if it is None:
        return ''
    if 'l' in it:
        return it['k'] + '=[' + ', '.join(it['l']) + ']'
    q = {'none': '', 'single': "'", 'double': '"'}[it.get('q', 'none')]
    return it['k'] + '=' + q + it['s'] + q


def r_line(l):
    t = l['t']
    if t == 'blank':
        return ''
    if t == 'comment':
        return '#' + l['s']
    if t == 'global':
        return 'global ' + ', '.join(r_item(i) for i in l['items'])
    pre = ('-' if l.get('excl') else ('+' if l.get('plus') else '')) + ('ann ' if l.get('ann') else '')
    s = pre + l['body']['n'] + (' ' if l.get('space') else '') + '[' + r_body(l['body']) + ']'
    if l['items']:
        s += (', ' if l.get('comma', True) else ' ') + ', '.join(r_item(i) for i in l['items'])
    return s


def render_lines(lines):
    return ''.join(r_line(l) + '\n' for l in lines)


# ------------------------------------------------------------------ read side: generator

COORD_NAMES = {'fk5': ['J2000', 'j2000', 'fk5', 'J2000'], 'fk4': ['B1950', 'b1950', 'fk4'], 'icrs': ['ICRS', 'icrs'],
               'galactic': ['GALACTIC', 'galactic', 'Galactic'], 'supergalactic': ['SUPERGAL', 'supergal', 'supergalactic'],
               'geocentrictrueecliptic': ['ECLIPTIC', 'ecliptic'], 'image': ['IMAGE', 'image', 'Image']}


def json_copy(x):
    import json
    return json.loads(json.dumps(x))


def g_dec(rng, lo, hi, maxscale=7):
    scale = rng.randint(0, maxscale)
    x = rng.uniform(lo, hi)
    mant = int(round(abs(x) * 10 ** scale))
    if mant == 0 and lo > 0:
        mant = 1
    return [bool(x < 0 and mant > 0), str(mant), scale]


def g_sexa(rng, kinds, amax, neg_ok):
    """a sexagesimal token; zero leading fields, negative values with a zero first field (-00.30.00.0, -00:00:01,
    -0d30m) and explicit '+' signs are frequent on purpose."""
    t = rng.choice(kinds)
    a = 0 if rng.random() < 0.3 else rng.randint(0, amax)
    b = 0 if rng.random() < 0.25 else rng.randint(0, 59)
    sec = g_dec(rng, 0, 59.9, rng.choice([0, 0, 1, 2, 4]))
    if rng.random() < 0.15:
        sec = [False, '0', sec[2]]
    neg = neg_ok and rng.random() < 0.5
    if neg and a == 0 and b == 0 and int(sec[1]) == 0 and t not in ('hm', 'dm'):
        sec = [False, str(5 * 10 ** max(0, sec[2] - 1) or 1), sec[2]] if sec[2] else [False, '1', 0]
    if neg and a == 0 and b == 0 and t in ('hm', 'dm'):
        b = rng.randint(1, 59)
    c = {'t': t, 'neg': neg, 'a': a, 'b': b}
    if t not in ('hm', 'dm'):
        c['s'] = sec
    if not neg and rng.random() < 0.2:
        c['plus'] = True
    return c


def g_lon(rng, pixel):
    if pixel:
        return {'t': 'dec', 'd': g_dec(rng, -50, 500, 4), 'u': 'pix'}
    t = rng.random()
    if t < 0.4:
        return {'t': 'dec', 'd': g_dec(rng, 0, 359.9), 'u': 'deg'}
    if t < 0.5:
        return {'t': 'dec', 'd': g_dec(rng, 0, 359.9), 'u': 'bare'}
    if t < 0.6:
        return {'t': 'dec', 'd': g_dec(rng, 0, 6.28, 9), 'u': 'rad'}
    if t < 0.9:
        # hours; a negative longitude is legal (it is wrapped: -00:30:00 is 23h30m)
        return g_sexa(rng, ['hms', 'hms', 'colon', 'colon', 'hm'], 23, rng.random() < 0.25)
    # a longitude in sexagesimal DEGREES (dd.mm.ss.sss / ddXmmXss) is legal too
    return g_sexa(rng, ['dms', 'dots', 'dm'], 359, rng.random() < 0.4)


def g_lat(rng, pixel):
    if pixel:
        return {'t': 'dec', 'd': g_dec(rng, -50, 500, 4), 'u': 'pix'}
    t = rng.random()
    if t < 0.4:
        return {'t': 'dec', 'd': g_dec(rng, -85, 85), 'u': 'deg'}
    if t < 0.5:
        return {'t': 'dec', 'd': g_dec(rng, -85, 85), 'u': 'bare'}
    if t < 0.6:
        return {'t': 'dec', 'd': g_dec(rng, -1.4, 1.4, 9), 'u': 'rad'}
    return g_sexa(rng, ['dms', 'dms', 'dots', 'dots', 'dm'], 84, True)


def g_pt(rng, pixel):
    return [g_lon(rng, pixel), g_lat(rng, pixel)]


def g_len(rng, pixel, lo=None, unit=None):
    if pixel:
        u = unit or rng.choice(['pix'] * 6 + ['deg', 'arcsec', 'other:mas'])
        a, b = 1, 60
    else:
        u = unit or rng.choice(['deg'] * 8 + ['arcmin', 'arcmin', 'arcsec', 'arcsec', 'dq', 'sq', 'rad', 'rad'])
        a, b = {'deg': (0.01, 5), 'arcmin': (0.5, 300), 'sq': (0.5, 300), 'arcsec': (1, 5000), 'dq': (1, 5000),
                'rad': (0.001, 0.1)}[u]
    if lo is not None:
        a, b = lo * 1.2, lo * 3
    d = g_dec(rng, a, b, 6)
    if int(d[1]) == 0:
        d[1] = '1'
    return {'d': d, 'u': u}


def g_ang(rng):
    if rng.random() < 0.8:
        return {'d': g_dec(rng, 0, 360, 5), 'u': 'deg'}
    return {'d': g_dec(rng, 0, 6.28, 7), 'u': 'rad'}


def g_body(rng, pixel):
    n = rng.choice(['circle', 'annulus', 'ellipse', 'box', 'centerbox', 'rotbox', 'poly', 'line', 'symbol', 'text'])
    if n == 'circle':
        return {'n': n, 'c': g_pt(rng, pixel), 'r': g_len(rng, pixel)}
    if n == 'annulus':
        r1 = g_len(rng, pixel)
        r2 = g_len(rng, pixel, lo=float(dec_val(r1['d'])), unit=r1['u'])
        while dec_val(r2['d']) <= dec_val(r1['d']):
            r2 = {'d': [False, str(int(r2['d'][1]) * 2 + 1), r2['d'][2]], 'u': r2['u']}
        return {'n': n, 'c': g_pt(rng, pixel), 'r1': r1, 'r2': r2}
    if n == 'ellipse':
        return {'n': n, 'c': g_pt(rng, pixel), 'a': g_len(rng, pixel), 'b': g_len(rng, pixel), 'ang': g_ang(rng)}
    if n == 'box':
        c1 = g_pt(rng, pixel)
        c2 = g_pt(rng, pixel)
        # both corners in the same notation (per axis), different values
        for i in (0, 1):
            gen = g_lon if i == 0 else g_lat
            for _ in range(300):
                if (c1[i]['t'], c1[i].get('u')) == (c2[i]['t'], c2[i].get('u')) and \
                        ref_coord_deg(c1[i]) != ref_coord_deg(c2[i]):
                    break
                c2[i] = gen(rng, pixel)
            else:
                c2[i] = json_copy(c1[i])
                if c2[i]['t'] == 'dec':
                    m = int(c2[i]['d'][1])
                    c2[i]['d'] = [c2[i]['d'][0], str(m - 1 if m > 1 else m + 1), c2[i]['d'][2]]
                else:
                    c2[i]['b'] = (c2[i]['b'] + 1) % 60
        return {'n': n, 'c1': c1, 'c2': c2}
    if n == 'centerbox':
        return {'n': n, 'c': g_pt(rng, pixel), 'w': g_len(rng, pixel), 'h': g_len(rng, pixel)}
    if n == 'rotbox':
        return {'n': n, 'c': g_pt(rng, pixel), 'w': g_len(rng, pixel), 'h': g_len(rng, pixel), 'ang': g_ang(rng)}
    if n == 'poly':
        return {'n': n, 'vs': [g_pt(rng, pixel) for _ in range(rng.randint(3, 6))]}
    if n == 'line':
        return {'n': n, 'p': g_pt(rng, pixel), 'q': g_pt(rng, pixel)}
    if n == 'symbol':
        return {'n': n, 'c': g_pt(rng, pixel), 'sym': rng.choice(SYMBOLS)}
    return {'n': 'text', 'c': g_pt(rng, pixel), 's': text_string(rng)[0]}


def g_items(rng, is_global, frames):
    items = []
    if rng.random() < (0.7 if is_global else 0.3):
        f = rng.choice(frames)
        items.append({'k': 'coord' if rng.random() < 0.9 or not is_global else 'Coord', 's': rng.choice(COORD_NAMES[f])})
    if not is_global and rng.random() < 0.4:
        items.append({'k': 'label', 's': value_string(rng)[0], 'q': rng.choice(['single', 'single', 'double', 'none'])})
    for k, vals in [('color', ['red', 'green', 'blue', '2ee6d6']), ('linewidth', ['1', '2', '3']),
                    ('linestyle', ['-', '--', ':']), ('symsize', ['1', '2']), ('symthick', ['1', '2']),
                    ('font', ['Helvetica', 'courier']), ('fontsize', ['10', '12']), ('fontstyle', ['bold', 'normal']),
                    ('usetex', ['false', 'true']), ('labelpos', ['top', 'left']), ('labelcolor', ['green', 'red']),
                    ('frame', ['BARY', 'LSRK', 'TOPO']), ('veltype', ['RADIO', 'OPTICAL']),
                    ('restfreq', ['1.42GHz', '115.271GHz'])]:
        if rng.random() < 0.12:
            items.append({'k': k, 's': rng.choice(vals), 'q': 'double' if rng.random() < 0.05 else 'none'})
    if rng.random() < 0.2:
        items.append({'k': 'corr', 'l': rng.sample(['I', 'Q', 'U', 'V'], rng.randint(1, 3))} if rng.random() < 0.9
                     else {'k': 'corr', 's': 'I'})
    if rng.random() < 0.15:
        un = rng.choice(['GHz', 'km/s', 'MHz'])
        a = rng.choice(['1.42', '1.420', '-1240', '100', '0.5'])
        items.append({'k': 'range', 'l': [a + un, str(float(a) + 5) + un]})
    if rng.random() < 0.06:
        items.append({'k': 'labeloff', 'l': [str(rng.randint(-3, 3)), str(rng.randint(-3, 3))]})
    rng.shuffle(items)
    return items


def gen_read_case(rng):
    lines = []
    if rng.random() < 0.7:
        lines.append({'t': 'comment', 's': rng.choice(['CRTFv0', 'CRTF', 'CRTFv0 CASA Region Text Format version 0'])})
    mode = rng.random()
    frames = ['image'] if mode < 0.25 else (SKY_FRAMES if mode < 0.9 else SKY_FRAMES + ['image'])
    cur_global = None          # frame named by the accumulated global meta
    n = rng.choice([1, 1, 2, 3, 4, 6])
    bad = rng.random() < 0.12
    for i in range(n):
        if rng.random() < (0.8 if i == 0 else 0.15):
            it = g_items(rng, True, frames)
            lines.append({'t': 'global', 'items': it})
            for x in it:
                if x['k'].lower() == 'coord':
                    cur_global = x['s']
        if rng.random() < 0.1:
            lines.append(rng.choice([{'t': 'blank'}, {'t': 'comment', 's': ' a remark'}]))
        items = g_items(rng, False, frames)
        name = cur_global
        for x in items:
            if x['k'] == 'coord':
                name = x['s']
        pixel = name is None or name.lower() == 'image'
        body = g_body(rng, pixel)
        line = {'t': 'region', 'excl': rng.random() < 0.25, 'ann': rng.random() < 0.2, 'body': body, 'items': items,
                'comma': rng.random() < 0.85, 'space': rng.random() < 0.15}
        if not line['excl'] and rng.random() < 0.1:
            line['plus'] = True
        lines.append(line)
    if bad:
        regs = [l for l in lines if l['t'] == 'region']
        l = rng.choice(regs)
        b = l['body']
        k = rng.choice(['nounit', 'badkey', 'pixsky', 'point', 'badsym', 'poly2', 'unknownframe', 'zerosize',
                        'otherunit', 'quotepair', 'globalbadkey', 'upperkey'])
        case_note = k
        if k == 'nounit':
            for f in ('r', 'r1', 'a', 'w', 'ang'):
                if f in b:
                    b[f] = {'d': b[f]['d'], 'u': 'none'}
                    break
        elif k == 'badkey':
            l['items'].append({'k': rng.choice(['tag', 'include', 'foo', 'text']), 's': 'v'})
        elif k == 'upperkey':
            l['items'].append({'k': 'Color', 's': 'red'})
        elif k == 'globalbadkey':
            lines.insert(1 if lines[0]['t'] == 'comment' else 0, {'t': 'global', 'items': [{'k': 'label', 's': 'v'}]})
        elif k == 'pixsky':
            if 'c' in b:
                b['c'] = g_pt(rng, True)
        elif k == 'point':
            if 'c' in b:
                l['body'] = {'n': 'point', 'c': b['c']}
        elif k == 'badsym':
            if b['n'] == 'symbol':
                b['sym'] = rng.choice(['q', 'Z', '12deg'])
        elif k == 'poly2':
            if b['n'] == 'poly':
                b['vs'] = b['vs'][:2]
        elif k == 'unknownframe':
            l['items'].append({'k': 'coord', 's': rng.choice(['B1950_VLA', 'AZEL', 'TOPO'])})
        elif k == 'zerosize':
            for f in ('r', 'a', 'w'):
                if f in b:
                    b[f] = {'d': [False, '0', 3], 'u': b[f]['u']}
                    break
        elif k == 'otherunit':
            for f in ('r', 'r2', 'b', 'h'):
                if f in b:
                    b[f] = {'d': b[f]['d'], 'u': 'other:mas'}
                    break
        elif k == 'quotepair':
            for f in ('r1', 'a', 'w'):
                if f in b:
                    b[f] = {'d': b[f]['d'], 'u': 'dq'}
                    break
    else:
        case_note = 'plain'
    return mark_spill({'kind': 'read', 'lines': lines, 'note': case_note,
                       'ser_coordsys': rng.choice(SKY_FRAMES), 'ser_fmt': f'.{rng.choice([3, 4, 6, 8, 10])}f'})


# ------------------------------------------------------------------ the FILE path: Regions.read(file) == Regions.parse(text)

FILE_ENDINGS = ['none', 'nl', 'crlf', 'crlf_none', 'blank', 'trail', 'trail_none', 'tab']
FILE_NAMES = [('.crtf', None), ('', 'crtf'), ('.crtf', 'crtf'), ('', None), ('.CRTF', None)]


def file_variant(text, ending):
    """the bytes of a file holding `text` (a '#CRTF' first line is what `Regions.read` requires)."""
    if not text.startswith('#CRTF'):
        text = '#CRTFv0\n' + text
    body = text[:-1] if text.endswith('\n') else text
    if ending == 'none':
        return body                                   # no newline at the end of the file
    if ending == 'nl':
        return body + '\n'
    if ending == 'crlf':
        return (body + '\n').replace('\n', '\r\n')
    if ending == 'crlf_none':
        return body.replace('\n', '\r\n')
    if ending == 'blank':
        return body + '\n\n'                          # an empty last line
    if ending == 'trail':
        return body + '   \n'                         # blanks after the last line
    if ending == 'trail_none':
        return body + '  '
    return body + '\t\n'


def _outcome(f):
    try:
        return [canon_region(r) for r in f()]
    except Exception as e:
        return 'EXC ' + exc_name(e)


def file_checks(text):
    """read `text` through real files (two of the line-end variants, chosen by the text, always the one without a final
    newline) and compare with Regions.parse of the same characters (universal newlines).  -> list of differences."""
    import hashlib
    import os
    import tempfile
    from regions import Regions
    h = int(hashlib.sha1(text.encode()).hexdigest()[:8], 16)
    endings = ['none', FILE_ENDINGS[1 + h % (len(FILE_ENDINGS) - 1)]]
    diffs = []
    for i, ending in enumerate(endings):
        content = file_variant(text, ending)
        suffix, fmt = FILE_NAMES[(h // 7 + i) % len(FILE_NAMES)]
        ref = _outcome(lambda: Regions.parse(content.replace('\r\n', '\n'), format='crtf'))
        fd, name = tempfile.mkstemp(suffix=suffix, prefix='c11_')
        try:
            with os.fdopen(fd, 'wb') as fh:
                fh.write(content.encode('utf-8'))
            got = _outcome(lambda: Regions.read(name, format=fmt) if fmt else Regions.read(name))
        finally:
            os.unlink(name)
        if got != ref:
            what = 'exception' if isinstance(got, str) or isinstance(ref, str) else 'regions differ'
            k = next((j for j, (a, b) in enumerate(zip(got, ref)) if a != b), None) if what == 'regions differ' else None
            diffs.append({'ending': ending, 'suffix': suffix, 'format': fmt, 'what': what,
                          'file': got if isinstance(got, str) else (got[k] if k is not None else len(got)),
                          'parse': ref if isinstance(ref, str) else (ref[k] if k is not None else len(ref)),
                          'tail': content[-60:]})
    # a file that does not begin with '#CRTF' is not a CRTF file
    if h % 16 == 0:
        raw = text.split('\n', 1)[1] if text.startswith('#CRTF') and '\n' in text else text
        if raw.strip() and not raw.startswith('#CRTF'):
            fd, name = tempfile.mkstemp(suffix='.crtf', prefix='c11_')
            try:
                with os.fdopen(fd, 'wb') as fh:
                    fh.write(raw.encode('utf-8'))
                got = _outcome(lambda: Regions.read(name, format='crtf'))
            finally:
                os.unlink(name)
            if got != 'EXC CRTFRegionParserError':
                diffs.append({'ending': 'no #CRTF first line', 'what': 'accepted', 'file': got if isinstance(got, str) else len(got),
                              'parse': 'EXC CRTFRegionParserError', 'tail': raw[:60], 'suffix': '.crtf', 'format': 'crtf'})
    return diffs



def real_read(case):
    from regions import Regions
    text = render_lines(case['lines'])
    out = {'text': text}
    with warnings.catch_warnings():
        warnings.simplefilter('ignore')
        try:
            out['file'] = file_checks(text)
        except Exception as e:
            out['file'] = [{'ending': '?', 'what': 'harness', 'file': exc_name(e) + ': ' + str(e)[:100], 'parse': '', 'tail': ''}]
        try:
            parsed = Regions.parse(text, format='crtf')
        except Exception as e:
            out['exc'] = exc_name(e)
            out['msg'] = str(e)[:200]
            return out
        out['parsed'] = [canon_region(r) for r in parsed]
    return out
