"""C11 — CRTF text round-trips and is read according to the CASA conventions.

Three kinds of cases:
  write : region specs + serialiser options.  Real: build FRESH region objects, serialise, serialise
          the same objects again (F6), serialise fresh objects again (determinism), parse, serialise
          the parsed regions, parse again (fixed point).  Model: `crtf.roundtrip`.
  read  : structured CRTF lines (grammar).  Model renders them to text and parses the structure;
          real parses the text.  Oracle: an independent reference reading of the structure.
  file  : the bundled .crtf files: oracle only (parse -> serialise -> parse on the real code).
"""
import math
import warnings
from fractions import Fraction

from .common import frac
from .runner import PropertyCheck

SKY_FRAMES = ['fk5', 'fk4', 'icrs', 'galactic', 'supergalactic', 'geocentrictrueecliptic']
CRTF_NAME = {'image': 'IMAGE', 'fk5': 'J2000', 'fk4': 'B1950', 'galactic': 'GALACTIC',
             'geocentrictrueecliptic': 'ECLIPTIC', 'supergalactic': 'SUPERGAL', 'icrs': 'ICRS'}
SYMBOLS = ['.', ',', 'o', 'v', '^', '<', '>', '1', '2', '3', '4', 's', 'p', '*', 'h', 'H', '+', 'x',
           'D', 'd', '|', '_']
# scalar CRTF keys the writer emits as key=value and the reader accepts
SCALAR_META = ['frame', 'veltype', 'restfreq']
SCALAR_VIS = ['color', 'linewidth', 'linestyle', 'symsize', 'symthick', 'font', 'fontsize', 'fontstyle',
              'usetex', 'labelpos', 'labelcolor']
LIST_KEYS = ['range', 'corr', 'labeloff']
WORDCH = 'abcdefghijklmnopqrstuvwxyzABCDEFGHIJKLMNOPQRSTUVWXYZ0123456789'
TEXTCH = WORDCH + ' _.:;!?-' * 2


# ------------------------------------------------------------------ small helpers

def F(x):
    return Fraction(float(x))


def word(rng, n=None, chars=WORDCH):
    n = n or rng.randint(1, 8)
    return ''.join(rng.choice(chars) for _ in range(n))


def phrase(rng):
    """label / text strings: no comma, quote, bracket, '=', no leading/trailing blank."""
    s = word(rng, rng.randint(1, 12), TEXTCH).strip()
    return s or 'x'


def exc_name(e):
    return type(e).__name__


def enc_val(v):
    """metadata value -> model MVal json (None if the value is outside the modelled types)."""
    import astropy.units as u
    if isinstance(v, bool):
        return {'b': v}
    if isinstance(v, int):
        return {'i': str(v)}
    if isinstance(v, str):
        return {'s': v}
    if isinstance(v, list):
        if all(isinstance(x, str) for x in v):
            return {'ss': list(v)}
        if all(isinstance(x, int) and not isinstance(x, bool) for x in v):
            return {'is': [str(x) for x in v]}
        if all(isinstance(x, (str, u.Quantity)) for x in v):
            return {'ss': [str(x) for x in v]}
    return {'s': 'UNSUPPORTED:' + repr(v)}


def enc_meta(d):
    return [[k, enc_val(v)] for k, v in d.items()]


# ------------------------------------------------------------------ spec -> real region objects

def build_region(s):
    import astropy.units as u
    from astropy.coordinates import Angle, SkyCoord
    import regions as R
    sky = s['sky']

    def pt(p):
        return SkyCoord(p[0], p[1], unit='deg', frame=s['frame']) if sky else R.PixCoord(p[0], p[1])

    def pts(ps):
        if sky:
            return SkyCoord([p[0] for p in ps], [p[1] for p in ps], unit='deg', frame=s['frame'])
        return R.PixCoord([p[0] for p in ps], [p[1] for p in ps])

    def sz(v):
        return u.Quantity(v[0], v[1]) if sky else v[0]

    def ang(v):
        return Angle(v[0], v[1]) if s.get('angle_cls') == 'Angle' else u.Quantity(v[0], v[1])
    cls = s['cls']
    P = 'Sky' if sky else 'Pixel'
    if cls == 'circle':
        r = getattr(R, f'Circle{P}Region')(pt(s['pts'][0]), sz(s['sizes'][0]))
    elif cls == 'circleannulus':
        r = getattr(R, f'CircleAnnulus{P}Region')(pt(s['pts'][0]), sz(s['sizes'][0]), sz(s['sizes'][1]))
    elif cls == 'ellipse':
        r = getattr(R, f'Ellipse{P}Region')(pt(s['pts'][0]), sz(s['sizes'][0]), sz(s['sizes'][1]), ang(s['angle']))
    elif cls == 'rectangle':
        r = getattr(R, f'Rectangle{P}Region')(pt(s['pts'][0]), sz(s['sizes'][0]), sz(s['sizes'][1]), ang(s['angle']))
    elif cls == 'polygon':
        r = getattr(R, f'Polygon{P}Region')(pts(s['pts']))
    elif cls == 'line':
        r = getattr(R, f'Line{P}Region')(pt(s['pts'][0]), pt(s['pts'][1]))
    elif cls == 'point':
        r = getattr(R, f'Point{P}Region')(pt(s['pts'][0]))
    elif cls == 'text':
        r = getattr(R, f'Text{P}Region')(pt(s['pts'][0]), s['text'])
    elif cls == 'ellipseannulus':
        r = getattr(R, f'EllipseAnnulus{P}Region')(pt(s['pts'][0]), sz(s['sizes'][0]), sz(s['sizes'][2]),
                                                   sz(s['sizes'][1]), sz(s['sizes'][3]), ang(s['angle']))
    elif cls == 'compound':
        r = R.CirclePixelRegion(pt(s['pts'][0]), 2.0) | R.CirclePixelRegion(pt(s['pts'][0]), 1.0)
    else:
        raise ValueError(cls)
    if cls != 'compound':
        meta = {}
        for k, v in s['meta']:
            if k == 'range' and s.get('range_q'):
                v = [u.Quantity(x) for x in v]
            meta[k] = v
        r.meta = R.RegionMeta(meta)
        r.visual = R.RegionVisual({k: v for k, v in s['visual']})
    return r


def kind_of(region):
    from regions import RegularPolygonPixelRegion, SkyRegion
    n = type(region).__name__
    if isinstance(region, SkyRegion):
        return n[:-9].lower()
    if isinstance(region, RegularPolygonPixelRegion):
        return 'polygon'
    return n[:-11].lower()


ATTRS = {'circle': ['radius'], 'circleannulus': ['inner_radius', 'outer_radius'],
         'ellipse': ['width', 'height'], 'rectangle': ['width', 'height'],
         'ellipseannulus': ['inner_width', 'inner_height', 'outer_width', 'outer_height'],
         'rectangleannulus': ['inner_width', 'inner_height', 'outer_width', 'outer_height']}


def points_of(region, kind):
    if kind == 'polygon':
        return list(region.vertices)
    if kind == 'line':
        return [region.start, region.end]
    if kind == 'compound':
        return []
    return [region.center]


def wreg_of(region, coordsys, radunit):
    """the writer model's view of a real region; astropy's transform / unit conversion are
    applied here with the same calls the code makes (they are parameters of the model)."""
    import astropy.units as u
    from astropy.coordinates import Angle, frame_transform_graph
    from regions import SkyRegion
    sky = isinstance(region, SkyRegion)
    kind = kind_of(region)
    image = coordsys in ('image', 'physical')
    pts = []
    frame = frame_transform_graph.lookup_name(coordsys) if sky else None
    for p in points_of(region, kind):
        if sky:
            if frame is None:
                pts.append(['0', '0'])
            else:
                pts.append([frac(float(Angle(p.transform_to(frame).spherical.lon).value)),
                            frac(float(Angle(p.transform_to(frame).spherical.lat).value))])
        else:
            pts.append([frac(float(p.x)), frac(float(p.y))])
    sizes = []
    for a in ATTRS.get(kind, []):
        v = getattr(region, a)
        if sky and not image and radunit:
            try:
                sizes.append(frac(float(u.Quantity(v).to(radunit).value)))
            except Exception:
                sizes.append(frac(float(u.Quantity(v).value)))
        else:
            sizes.append(frac(float(getattr(v, 'value', v))))
    angle = None
    if hasattr(region, 'angle') and kind != 'compound':
        angle = frac(float(u.Quantity(region.angle).to('deg').value))
    return {'kind': kind, 'sky': sky, 'pts': pts, 'sizes': sizes, 'angle': angle,
            'text': getattr(region, 'text', '') if kind == 'text' else '',
            'meta': enc_meta(region.meta) if kind != 'compound' else [],
            'visual': enc_meta(region.visual) if kind != 'compound' else []}


# ------------------------------------------------------------------ real parsed region -> canonical

def canon_q(q):
    """Quantity/Angle/number -> [exact value, unit string]."""
    import astropy.units as u
    if isinstance(q, u.Quantity):
        un = q.unit.to_string()
        return [frac(float(q.value)), {'hourangle': 'hour'}.get(un, un)]
    return [frac(float(q)), '']


def canon_region(r):
    import astropy.units as u
    from regions import SkyRegion
    sky = isinstance(r, SkyRegion)
    kind = kind_of(r)
    pts = []
    for p in points_of(r, kind):
        if sky:
            pts.append([frac(float(p.spherical.lon.to_value(u.deg))), frac(float(p.spherical.lat.to_value(u.deg)))])
        else:
            pts.append([frac(float(p.x)), frac(float(p.y))])
    frame = points_of(r, kind)[0].frame.name if sky else 'image'
    return {'kind': kind, 'frame': frame, 'pts': pts,
            'sizes': [canon_q(getattr(r, a)) for a in ATTRS.get(kind, [])],
            'angle': canon_q(r.angle) if hasattr(r, 'angle') else None,
            'text': r.text if kind == 'text' else None,
            'meta': enc_meta(r.meta), 'visual': enc_meta(r.visual)}


def close(a, b, rel=1e-13):
    """exact rationals: equal after the code's own final rounding to a double."""
    a = Fraction(a); b = Fraction(b)
    if a == b or float(a) == float(b):
        return True
    return abs(a - b) <= rel * max(1, abs(a), abs(b))


RAD = Fraction(math.pi)


def model_deg(q):
    """model Q json [v, unit, ang] -> degrees (exact for deg/hour/arcmin/arcsec)."""
    v = Fraction(q[0]); un = q[1]
    return {'deg': v, 'hour': v * 15, 'arcmin': v / 60, 'arcsec': v / 3600, '': v}.get(un, v * 180 / RAD)


def same_parsed(model, real):
    """model RReg json vs canonical real region."""
    if model['kind'] != real['kind'] or model['frame'] != real['frame']:
        return False
    if len(model['pts']) != len(real['pts']) or len(model['sizes']) != len(real['sizes']):
        return False
    sky = real['frame'] != 'image'
    for mp, rp in zip(model['pts'], real['pts']):
        for i in (0, 1):
            if sky:
                m = model_deg(mp[i]); r = Fraction(rp[i])
                rel = 1e-13 if mp[i][1] in ('deg',) else 1e-11
                if i == 0:
                    if not (close(m, r, rel) or close(m % 360, r % 360, rel) or close(m - 360, r, rel)):
                        return False
                elif not close(m, r, rel):
                    return False
            else:
                if mp[i][1] != '' or not close(mp[i][0], rp[i], 1e-12):
                    return False
    for ms, rs in zip(model['sizes'], real['sizes']):
        if ms[1] != rs[1] or not close(ms[0], rs[0]):
            return False
    if (model['angle'] is None) != (real['angle'] is None):
        return False
    if model['angle'] is not None:
        if model['angle'][1] != real['angle'][1] or not close(model['angle'][0], real['angle'][0]):
            return False
    return model['text'] == real['text'] and model['meta'] == real['meta'] and model['visual'] == real['visual']


def qtable_for(strings):
    import astropy.units as u
    out = {}
    todo = set(strings)
    for _ in range(4):            # closed under write (spaces removed) -> read again
        new = set()
        for s in sorted(todo):
            if s in out:
                continue
            try:
                out[s] = str(u.Quantity(s))
                new.add(out[s].replace(' ', ''))
            except Exception:
                pass
        todo = new
    return [[k, v] for k, v in sorted(out.items())]


# ------------------------------------------------------------------ write-side generator

RADUNITS = {'deg': (0.01, 5.0, 3), 'arcmin': (0.5, 300.0, 1), 'arcsec': (1.0, 5000.0, 0), 'rad': (0.001, 0.1, 4)}
WRITE_CLASSES = ['circle', 'circleannulus', 'ellipse', 'rectangle', 'polygon', 'line', 'text', 'point']


def gen_number(rng, lo, hi):
    x = rng.uniform(lo, hi)
    t = rng.random()
    if t < 0.15:
        y = round(x * 8) / 8          # dyadic: exact rounding ties for small precisions
    elif t < 0.3:
        y = round(x, rng.randint(0, 4))
    else:
        y = x
    return y if lo <= y <= hi else x


def gen_meta(rng, cls, sky):
    meta, vis = [], []
    t = rng.random()
    if t < 0.3:
        meta.append(['include', rng.choice([False, False, False, 0, True, 1])])
    if rng.random() < 0.45:
        meta.append(['label', phrase(rng) if rng.random() < 0.93 else ''])
    if rng.random() < 0.25:
        meta.append(['type', rng.choice(['ann', 'ann', 'reg'])])
    if rng.random() < 0.25:
        meta.append(['frame', rng.choice(['BARY', 'LSRK', 'TOPO', 'bary'])])
    if rng.random() < 0.15:
        meta.append(['veltype', rng.choice(['RADIO', 'OPTICAL', 'Z'])])
    if rng.random() < 0.12:
        meta.append(['restfreq', rng.choice(['1.42GHz', '115.271GHz', '1420405751.786Hz'])])
    rq = False
    if rng.random() < 0.2:
        un = rng.choice(['GHz', 'km/s', 'MHz', 'chan' if False else 'Hz'])
        a = rng.choice([1.42, 1.420, -1240, 100, 0.5, 1421.5])
        b = a + rng.choice([1, 0.001, 2480, 10])
        sp = rng.choice(['', ' '])
        meta.append(['range', [f'{a}{sp}{un}', f'{b}{sp}{un}']])
        rq = rng.random() < 0.5
    if rng.random() < 0.25:
        meta.append(['corr', rng.sample(['I', 'Q', 'U', 'V', 'RR', 'LL', 'XX'], rng.randint(1, 4))])
    # keys outside the CRTF vocabulary: must be filtered out
    if rng.random() < 0.2:
        meta.append(rng.choice([['tag', ['g1', 'g2']], ['comment', 'a remark'], ['name', 'n1'], ['source', 1],
                                ['text', 'meta text'], ['delete', 0]]))
    if rng.random() < 0.4:
        vis.append(['color', rng.choice(['red', 'green', 'blue', '2ee6d6', 'light blue', '#00ff00'])])
    if rng.random() < 0.3:
        vis.append(['linewidth', rng.choice([1, 2, 3, '2'])])
    if rng.random() < 0.15:
        vis.append(['linestyle', rng.choice(['-', '--', ':', '-.'])])
    if rng.random() < 0.15:
        vis.append(['symsize', rng.choice([1, 2, 5])])
    if rng.random() < 0.1:
        vis.append(['symthick', rng.choice([1, 2])])
    if rng.random() < 0.12:
        vis.append(['font', rng.choice(['Helvetica', 'Times New Roman', 'courier'])])
    if rng.random() < 0.12:
        vis.append(['fontsize', rng.choice([8, 10, 12, '11'])])
    if rng.random() < 0.1:
        vis.append(['fontstyle', rng.choice(['bold', 'normal', 'italic'])])
    if rng.random() < 0.1:
        vis.append(['usetex', rng.choice([True, False, 'false'])])
    if rng.random() < 0.1:
        vis.append(['labelpos', rng.choice(['top', 'bottom', 'left', 'right'])])
    if rng.random() < 0.05:
        vis.append(['labelcolor', rng.choice(['green', 'red'])])
    if rng.random() < 0.05:
        vis.append(['labeloff', rng.choice([[1, 2], [0, -3], ['1', '2']])])
    if rng.random() < 0.15:
        vis.append(rng.choice([['fill', True], ['dash', '1'], ['textangle', 30], ['fontweight', 'bold'],
                               ['facecolor', 'red'], ['marker', 'o']]))
    if cls == 'point':
        if rng.random() < 0.85:
            vis.append(['symbol', rng.choice(SYMBOLS)])
    elif rng.random() < 0.04:
        vis.append(['symbol', rng.choice(SYMBOLS)])
    rng.shuffle(meta)
    rng.shuffle(vis)
    return meta, vis, rq


def gen_region(rng, cls, sky, frame, radunit, prec, tiny=False):
    import astropy.units as u
    s = {'cls': cls, 'sky': sky, 'frame': frame if sky else 'image', 'sizes': [], 'angle': None, 'text': ''}

    def pt():
        if sky:
            return [gen_number(rng, 0.0, 359.99), gen_number(rng, -85.0, 85.0)]
        return [gen_number(rng, -50.0, 500.0), gen_number(rng, -50.0, 500.0)]

    def size(lo=None):
        if sky:
            a, b, _ = RADUNITS.get(radunit, RADUNITS['deg'])
            v = gen_number(rng, a, b) if lo is None else lo * rng.uniform(1.2, 3.0)
            if tiny and lo is None:
                v = rng.uniform(0.05, 0.45) * 10.0 ** (-prec)
            un = radunit if radunit in RADUNITS else 'deg'
            if rng.random() < 0.3:
                other = rng.choice(['deg', 'arcmin', 'arcsec', 'rad'])
                return v, [float(u.Quantity(v, un).to(other).value), other]
            return v, [v, un]
        v = gen_number(rng, 1.0, 60.0) if lo is None else lo * rng.uniform(1.2, 3.0)
        if tiny and lo is None:
            v = rng.uniform(0.05, 0.45) * 10.0 ** (-prec)
        return v, [v, '']
    n = {'polygon': rng.randint(3, 7), 'line': 2}.get(cls, 1)
    s['pts'] = [pt() for _ in range(n)]
    if cls == 'circle':
        s['sizes'] = [size()[1]]
    elif cls == 'circleannulus':
        v, a = size()
        s['sizes'] = [a, size(v)[1]]
    elif cls in ('ellipse', 'rectangle'):
        s['sizes'] = [size()[1], size()[1]]
    elif cls == 'ellipseannulus':
        v1, a = size(); v2, b = size()
        s['sizes'] = [a, b, size(v1 * 2)[1], size(v2 * 2)[1]]
    if cls in ('ellipse', 'rectangle', 'ellipseannulus'):
        if rng.random() < 0.75:
            s['angle'] = [gen_number(rng, 0.0, 360.0), 'deg']
        else:
            s['angle'] = [rng.uniform(0.0, 6.28), 'rad']
        s['angle_cls'] = rng.choice(['Angle', 'Quantity'])
    if cls == 'text':
        s['text'] = phrase(rng) if rng.random() < 0.95 else ''
    meta, vis, rq = gen_meta(rng, cls, sky)
    s['meta'], s['visual'], s['range_q'] = meta, vis, rq
    return s


def gen_write_case(rng):
    t = rng.random()
    sky = rng.random() < 0.65
    prec = rng.choice([0, 1, 2, 3, 3, 4, 4, 5, 6, 6, 6, 7, 8, 9, 10, 12])
    case = {'kind': 'write'}
    if sky:
        radunit = rng.choice(['deg', 'deg', 'deg', 'arcsec', 'arcmin', 'rad'])
        prec = max(prec, RADUNITS[radunit][2]) if rng.random() < 0.97 else prec
        same = rng.random() < 0.5
        f0 = rng.choice(SKY_FRAMES)
        coordsys = f0 if same or rng.random() < 0.3 else rng.choice(SKY_FRAMES)
    else:
        radunit = rng.choice(['deg', 'deg', 'pix'])
        coordsys = 'image'
        prec = max(prec, 1) if rng.random() < 0.97 else prec
        same, f0 = True, 'image'
    n = rng.choice([1, 1, 1, 2, 3, 4, 6, 8])
    regs = []
    for _ in range(n):
        cls = rng.choice(WRITE_CLASSES)
        frame = f0 if (same or not sky) else rng.choice(SKY_FRAMES)
        regs.append(gen_region(rng, cls, sky, frame, radunit, prec, tiny=rng.random() < 0.01))
    # the malformed / unsupported stream
    if t < 0.015:
        coordsys = rng.choice(SKY_FRAMES) if not sky else 'image'
    elif t < 0.025:
        coordsys = rng.choice(['j2000', 'FK5', 'ecliptic'])
    elif t < 0.04:
        regs.insert(rng.randrange(len(regs) + 1),
                    gen_region(rng, rng.choice(['ellipseannulus', 'compound'] if not sky else ['ellipseannulus']),
                               sky, f0, radunit, prec))
    elif t < 0.045 and not sky:
        radunit = 'arcsec'
    case.update({'coordsys': coordsys, 'fmt': f'.{prec}f', 'radunit': radunit, 'regions': regs})
    return case


# ------------------------------------------------------------------ real side

def _opts(case):
    return dict(coordsys=case['coordsys'], fmt=case['fmt'], radunit=case['radunit'])


def expected_inputs(case):
    """what the property says must come back, from the spec and astropy alone."""
    import astropy.units as u
    from astropy.coordinates import SkyCoord
    out = []
    cs, ru = case['coordsys'], case['radunit']
    for s in case['regions']:
        e = {'cls': s['cls'], 'sky': s['sky']}
        try:
            if s['sky']:
                c = SkyCoord([p[0] for p in s['pts']], [p[1] for p in s['pts']], unit='deg', frame=s['frame'])
                c = c.transform_to(cs)
                e['pts'] = [[frac(float(a)), frac(float(b))] for a, b in
                            zip(c.spherical.lon.to_value(u.deg), c.spherical.lat.to_value(u.deg))]
                e['sizes'] = [frac(float(u.Quantity(v[0], v[1]).to(ru).value)) for v in s['sizes']]
            else:
                e['pts'] = [[frac(p[0]), frac(p[1])] for p in s['pts']]
                e['sizes'] = [frac(v[0]) for v in s['sizes']]
            e['angle'] = None if s['angle'] is None else frac(float(u.Quantity(s['angle'][0], s['angle'][1]).to(u.deg).value))
        except Exception as ex:
            e['unavailable'] = exc_name(ex)
        out.append(e)
    return out


def real_write(case):
    from regions import Regions
    opts = _opts(case)
    out = {}
    regs = [build_region(s) for s in case['regions']]
    snap = [(enc_meta(r.meta), enc_meta(r.visual)) if hasattr(r, 'visual') and r.meta is not None else None for r in regs]
    with warnings.catch_warnings():
        warnings.simplefilter('ignore')
        try:
            text = Regions(regs).serialize(format='crtf', **opts)
        except Exception as e:
            out['exc'] = exc_name(e)
            return out
        out['text'] = text
        after = [(enc_meta(r.meta), enc_meta(r.visual)) if hasattr(r, 'visual') and r.meta is not None else None for r in regs]
        out['mutated'] = [i for i in range(len(regs)) if snap[i] != after[i]]
        try:
            out['text_twice'] = Regions(regs).serialize(format='crtf', **opts)
        except Exception as e:
            out['text_twice'] = 'EXC ' + exc_name(e)
        try:
            out['text_fresh'] = Regions([build_region(s) for s in case['regions']]).serialize(format='crtf', **opts)
        except Exception as e:
            out['text_fresh'] = 'EXC ' + exc_name(e)
        try:
            parsed = Regions.parse(text, format='crtf')
        except Exception as e:
            out['parse_exc'] = exc_name(e)
            out['parse_msg'] = str(e)[:200]
            return out
        out['parsed'] = [canon_region(r) for r in parsed]
        # fixed point: serialise what was parsed (fresh objects: parse again), parse, serialise
        try:
            p1 = Regions.parse(text, format='crtf')
            text2 = Regions(p1).serialize(format='crtf', **opts)
            out['text2'] = text2
            p2 = Regions.parse(text2, format='crtf')
            out['parsed2'] = [canon_region(r) for r in p2]
            out['text3'] = Regions(Regions.parse(text2, format='crtf')).serialize(format='crtf', **opts)
        except Exception as e:
            out['fp_exc'] = exc_name(e) + ': ' + str(e)[:200]
    return out


class Check(PropertyCheck):
    id = 'C11'
    lean_targets = ['RegionsVerif.Props.C11']
    namespaces = ['RegionsVerif.Props.C11']
    parallel = True
    rule = ''
    assumptions = []
    validated_only = []

    # ---------------------------------------------------------------- generation
    def generate(self, rng, tier):
        n_w = 900 if tier == 'quick' else 30000
        cases = [gen_write_case(rng) for _ in range(n_w)]
        return cases

    # ---------------------------------------------------------------- real
    def real(self, case):
        if case['kind'] == 'write':
            return real_write(case)
        if case['kind'] == 'read':
            return real_read(case)
        raise ValueError(case['kind'])

    # ---------------------------------------------------------------- model
    def requests(self, case):
        if case['kind'] == 'write':
            with warnings.catch_warnings():
                warnings.simplefilter('ignore')
                regs = [build_region(s) for s in case['regions']]
                ws = [wreg_of(r, case['coordsys'], case['radunit']) for r in regs]
            rstr = []
            for w in ws:
                for k, v in w['meta']:
                    if k == 'range' and 'ss' in v:
                        rstr += [x.replace(' ', '') for x in v['ss']]
            return [{'op': 'crtf.roundtrip', 'coordsys': case['coordsys'], 'fmt': case['fmt'],
                     'radunit': case['radunit'], 'regions': ws, 'qtable': qtable_for(rstr)}]
        if case['kind'] == 'read':
            rstr = []
            for l in case['lines']:
                for it in l.get('items', []):
                    if it and it['k'].lower() == 'range':
                        rstr += it.get('l', [it.get('s')])
            return [{'op': 'crtf.parse', 'lines': case['lines'], 'qtable': qtable_for([x for x in rstr if x])}]
        return []

    def model(self, case, replies):
        return replies[0] if replies else None

    def equal(self, case, real, model):
        if model is None or 'fail' in model:
            return False
        if case['kind'] == 'write':
            ser = model['ser']
            if 'exc' in real:
                return ser.get('err') == real['exc']
            if ser.get('ok') != real['text']:
                return False
            tw = model['ser2']
            if (tw.get('ok') if 'ok' in tw else 'EXC ' + tw['err']) != real['text_twice']:
                return False
            mp = model['parse']
            if 'parse_exc' in real:
                return mp.get('err') == real['parse_exc']
            if 'ok' not in mp or len(mp['ok']) != len(real['parsed']):
                return False
            if not all(same_parsed(m, r) for m, r in zip(mp['ok'], real['parsed'])):
                return False
            # fixed point: serialise the parsed regions, parse again
            if 'fp_exc' in real:
                return False
            fs = model.get('fp_ser')
            if not isinstance(fs, dict) or fs.get('ok') != real['text2']:
                return False
            fpp = model.get('fp_parse') or {}
            if 'ok' not in fpp or len(fpp['ok']) != len(real['parsed2']):
                return False
            return all(same_parsed(m, r) for m, r in zip(fpp['ok'], real['parsed2']))
        if case['kind'] == 'read':
            if model['text'] != real['text']:
                return False
            mp = model['parse']
            if 'exc' in real:
                return mp.get('err') == real['exc']
            if 'ok' not in mp or len(mp['ok']) != len(real['parsed']):
                return False
            return all(same_parsed(m, r) for m, r in zip(mp['ok'], real['parsed']))
        return False

    def bucket(self, case, real):
        if case['kind'] == 'write':
            st = 'exc' if 'exc' in real else ('unreadable' if 'parse_exc' in real else 'ok')
            return f"write/{'image' if case['coordsys'] == 'image' else 'sky'}/{case['radunit']}/{st}"
        if case['kind'] == 'read':
            return f"read/{case['note']}/{real.get('exc', 'ok')}"
        return case['kind']


# ------------------------------------------------------------------ read side: structured lines

def pad(n, w):
    return str(n).rjust(w, '0')


def r_dec(d):
    neg, mant, scale = d[0], int(d[1]), int(d[2])
    ip, fp = divmod(mant, 10 ** scale)
    return ('-' if neg else '') + str(ip) + ('' if scale == 0 else '.' + pad(fp, scale))


def dec_val(d):
    v = Fraction(int(d[1]), 10 ** int(d[2]))
    return -v if d[0] else v


def r_coord(c):
    t = c['t']
    if t == 'dec':
        return r_dec(c['d']) + {'deg': 'deg', 'rad': 'rad', 'pix': 'pix', 'bare': ''}[c['u']]
    sg = '-' if c['neg'] else ''
    a, b, s = c['a'], c['b'], r_dec(c['s'])
    if t == 'hms':
        return f'{sg}{pad(a, 2)}h{pad(b, 2)}m{s}s'
    if t == 'dms':
        return f'{sg}{pad(a, 2)}d{pad(b, 2)}m{s}s'
    if t == 'colon':
        return f'{sg}{pad(a, 2)}:{pad(b, 2)}:{s}'
    return f'{sg}{pad(a, 3)}.{pad(b, 2)}.{s}'


LUNIT_TXT = {'deg': 'deg', 'rad': 'rad', 'arcmin': 'arcmin', 'arcsec': 'arcsec', 'pix': 'pix', 'dq': '"', 'sq': "'",
             'none': ''}


def r_len(l):
    u = l['u']
    return r_dec(l['d']) + (u[6:] if u.startswith('other:') else LUNIT_TXT[u])


def r_pt(p):
    return '[' + r_coord(p[0]) + ', ' + r_coord(p[1]) + ']'


def r_pair(a, b):
    return '[' + r_len(a) + ', ' + r_len(b) + ']'


def r_body(b):
    n = b['n']
    if n == 'circle':
        return r_pt(b['c']) + ', ' + r_len(b['r'])
    if n == 'annulus':
        return r_pt(b['c']) + ', ' + r_pair(b['r1'], b['r2'])
    if n == 'ellipse':
        return r_pt(b['c']) + ', ' + r_pair(b['a'], b['b']) + ', ' + r_len(b['ang'])
    if n == 'box':
        return r_pt(b['c1']) + ', ' + r_pt(b['c2'])
    if n == 'centerbox':
        return r_pt(b['c']) + ', ' + r_pair(b['w'], b['h'])
    if n == 'rotbox':
        return r_pt(b['c']) + ', ' + r_pair(b['w'], b['h']) + ', ' + r_len(b['ang'])
    if n == 'poly':
        return ', '.join(r_pt(p) for p in b['vs'])
    if n == 'line':
        return r_pt(b['p']) + ', ' + r_pt(b['q'])
    if n == 'symbol':
        return r_pt(b['c']) + ', ' + b['sym']
    if n == 'point':
        return r_pt(b['c'])
    if n == 'text':
        return r_pt(b['c']) + ", '" + b['s'] + "'"
    raise ValueError(n)


def r_item(it):
    if it is None:
        return ''
    if 'l' in it:
        return it['k'] + '=[' + ', '.join(it['l']) + ']'
    q = {'none': '', 'single': "'", 'double': '"'}[it.get('q', 'none')]
    return it['k'] + '=' + q + it['s'] + q


def r_line(l):
    t = l['t']
    if t == 'blank':
        return ''
    if t == 'comment':
        return '#' + l['s']
    if t == 'global':
        return 'global ' + ', '.join(r_item(i) for i in l['items'])
    pre = ('-' if l.get('excl') else ('+' if l.get('plus') else '')) + ('ann ' if l.get('ann') else '')
    s = pre + l['body']['n'] + (' ' if l.get('space') else '') + '[' + r_body(l['body']) + ']'
    if l['items']:
        s += (', ' if l.get('comma', True) else ' ') + ', '.join(r_item(i) for i in l['items'])
    return s


def render_lines(lines):
    return ''.join(r_line(l) + '\n' for l in lines)


# ------------------------------------------------------------------ read side: generator

COORD_NAMES = {'fk5': ['J2000', 'j2000', 'fk5', 'J2000'], 'fk4': ['B1950', 'b1950', 'fk4'], 'icrs': ['ICRS', 'icrs'],
               'galactic': ['GALACTIC', 'galactic', 'Galactic'], 'supergalactic': ['SUPERGAL', 'supergal', 'supergalactic'],
               'geocentrictrueecliptic': ['ECLIPTIC', 'ecliptic'], 'image': ['IMAGE', 'image', 'Image']}


def g_dec(rng, lo, hi, maxscale=7):
    scale = rng.randint(0, maxscale)
    x = rng.uniform(lo, hi)
    mant = int(round(abs(x) * 10 ** scale))
    if mant == 0 and lo > 0:
        mant = 1
    return [bool(x < 0 and mant > 0), str(mant), scale]


def g_lon(rng, pixel):
    if pixel:
        return {'t': 'dec', 'd': g_dec(rng, -50, 500, 4), 'u': 'pix'}
    t = rng.random()
    if t < 0.45:
        return {'t': 'dec', 'd': g_dec(rng, 0, 359.9), 'u': 'deg'}
    if t < 0.55:
        return {'t': 'dec', 'd': g_dec(rng, 0, 359.9), 'u': 'bare'}
    if t < 0.65:
        return {'t': 'dec', 'd': g_dec(rng, 0, 6.28, 9), 'u': 'rad'}
    return {'t': 'hms' if t < 0.85 else 'colon', 'neg': False, 'a': rng.randint(0, 23), 'b': rng.randint(0, 59),
            's': g_dec(rng, 0, 59.9, 4)}


def g_lat(rng, pixel):
    if pixel:
        return {'t': 'dec', 'd': g_dec(rng, -50, 500, 4), 'u': 'pix'}
    t = rng.random()
    if t < 0.45:
        return {'t': 'dec', 'd': g_dec(rng, -85, 85), 'u': 'deg'}
    if t < 0.55:
        return {'t': 'dec', 'd': g_dec(rng, -85, 85), 'u': 'bare'}
    if t < 0.65:
        return {'t': 'dec', 'd': g_dec(rng, -1.4, 1.4, 9), 'u': 'rad'}
    return {'t': 'dms' if t < 0.85 else 'dots', 'neg': rng.random() < 0.5, 'a': rng.randint(0, 84), 'b': rng.randint(0, 59),
            's': g_dec(rng, 0, 59.9, 4)}


def g_pt(rng, pixel):
    return [g_lon(rng, pixel), g_lat(rng, pixel)]


def g_len(rng, pixel, lo=None, unit=None):
    if pixel:
        u = unit or rng.choice(['pix'] * 6 + ['deg', 'arcsec', 'other:mas'])
        a, b = 1, 60
    else:
        u = unit or rng.choice(['deg'] * 8 + ['arcmin', 'arcmin', 'arcsec', 'arcsec', 'dq', 'sq', 'rad', 'rad'])
        a, b = {'deg': (0.01, 5), 'arcmin': (0.5, 300), 'sq': (0.5, 300), 'arcsec': (1, 5000), 'dq': (1, 5000),
                'rad': (0.001, 0.1)}[u]
    if lo is not None:
        a, b = lo * 1.2, lo * 3
    d = g_dec(rng, a, b, 6)
    if int(d[1]) == 0:
        d[1] = '1'
    return {'d': d, 'u': u}


def g_ang(rng):
    if rng.random() < 0.8:
        return {'d': g_dec(rng, 0, 360, 5), 'u': 'deg'}
    return {'d': g_dec(rng, 0, 6.28, 7), 'u': 'rad'}


def g_body(rng, pixel):
    n = rng.choice(['circle', 'annulus', 'ellipse', 'box', 'centerbox', 'rotbox', 'poly', 'line', 'symbol', 'text'])
    if n == 'circle':
        return {'n': n, 'c': g_pt(rng, pixel), 'r': g_len(rng, pixel)}
    if n == 'annulus':
        r1 = g_len(rng, pixel)
        r2 = g_len(rng, pixel, lo=float(dec_val(r1['d'])), unit=r1['u'])
        return {'n': n, 'c': g_pt(rng, pixel), 'r1': r1, 'r2': r2}
    if n == 'ellipse':
        return {'n': n, 'c': g_pt(rng, pixel), 'a': g_len(rng, pixel), 'b': g_len(rng, pixel), 'ang': g_ang(rng)}
    if n == 'box':
        c1 = g_pt(rng, pixel)
        c2 = g_pt(rng, pixel)
        # both corners in the same notation (per axis)
        for i in (0, 1):
            for _ in range(50):
                if (c1[i]['t'], c1[i].get('u')) == (c2[i]['t'], c2[i].get('u')):
                    break
                c2[i] = (g_lon if i == 0 else g_lat)(rng, pixel)
            else:
                c2[i] = dict(c1[i])
            if c1[i] == c2[i]:
                c2[i] = {'t': 'dec', 'd': [False, '5', 1], 'u': c1[i].get('u', 'deg')} if c1[i]['t'] == 'dec' else c2[i]
        return {'n': n, 'c1': c1, 'c2': c2}
    if n == 'centerbox':
        return {'n': n, 'c': g_pt(rng, pixel), 'w': g_len(rng, pixel), 'h': g_len(rng, pixel)}
    if n == 'rotbox':
        return {'n': n, 'c': g_pt(rng, pixel), 'w': g_len(rng, pixel), 'h': g_len(rng, pixel), 'ang': g_ang(rng)}
    if n == 'poly':
        return {'n': n, 'vs': [g_pt(rng, pixel) for _ in range(rng.randint(3, 6))]}
    if n == 'line':
        return {'n': n, 'p': g_pt(rng, pixel), 'q': g_pt(rng, pixel)}
    if n == 'symbol':
        return {'n': n, 'c': g_pt(rng, pixel), 'sym': rng.choice(SYMBOLS)}
    return {'n': 'text', 'c': g_pt(rng, pixel), 's': phrase(rng)}


def g_items(rng, is_global, frames):
    items = []
    if rng.random() < (0.7 if is_global else 0.3):
        f = rng.choice(frames)
        items.append({'k': 'coord' if rng.random() < 0.9 or not is_global else 'Coord', 's': rng.choice(COORD_NAMES[f])})
    if not is_global and rng.random() < 0.4:
        items.append({'k': 'label', 's': phrase(rng), 'q': rng.choice(['single', 'single', 'double'])})
    for k, vals in [('color', ['red', 'green', 'blue', '2ee6d6']), ('linewidth', ['1', '2', '3']),
                    ('linestyle', ['-', '--', ':']), ('symsize', ['1', '2']), ('symthick', ['1', '2']),
                    ('font', ['Helvetica', 'courier']), ('fontsize', ['10', '12']), ('fontstyle', ['bold', 'normal']),
                    ('usetex', ['false', 'true']), ('labelpos', ['top', 'left']), ('labelcolor', ['green', 'red']),
                    ('frame', ['BARY', 'LSRK', 'TOPO']), ('veltype', ['RADIO', 'OPTICAL']),
                    ('restfreq', ['1.42GHz', '115.271GHz'])]:
        if rng.random() < 0.12:
            items.append({'k': k, 's': rng.choice(vals), 'q': 'double' if rng.random() < 0.05 else 'none'})
    if rng.random() < 0.2:
        items.append({'k': 'corr', 'l': rng.sample(['I', 'Q', 'U', 'V'], rng.randint(1, 3))} if rng.random() < 0.9
                     else {'k': 'corr', 's': 'I'})
    if rng.random() < 0.15:
        un = rng.choice(['GHz', 'km/s', 'MHz'])
        a = rng.choice(['1.42', '1.420', '-1240', '100', '0.5'])
        items.append({'k': 'range', 'l': [a + un, str(float(a) + 5) + un]})
    if rng.random() < 0.06:
        items.append({'k': 'labeloff', 'l': [str(rng.randint(-3, 3)), str(rng.randint(-3, 3))]})
    rng.shuffle(items)
    return items


def gen_read_case(rng):
    lines = []
    if rng.random() < 0.7:
        lines.append({'t': 'comment', 's': rng.choice(['CRTFv0', 'CRTF', 'CRTFv0 CASA Region Text Format version 0'])})
    mode = rng.random()
    frames = ['image'] if mode < 0.25 else (SKY_FRAMES if mode < 0.9 else SKY_FRAMES + ['image'])
    cur_global = None          # frame named by the accumulated global meta
    n = rng.choice([1, 1, 2, 3, 4, 6])
    bad = rng.random() < 0.12
    for i in range(n):
        if rng.random() < (0.8 if i == 0 else 0.15):
            it = g_items(rng, True, frames)
            lines.append({'t': 'global', 'items': it})
            for x in it:
                if x['k'].lower() == 'coord':
                    cur_global = x['s']
        if rng.random() < 0.1:
            lines.append(rng.choice([{'t': 'blank'}, {'t': 'comment', 's': ' a remark'}]))
        items = g_items(rng, False, frames)
        name = cur_global
        for x in items:
            if x['k'] == 'coord':
                name = x['s']
        pixel = name is None or name.lower() == 'image'
        body = g_body(rng, pixel)
        line = {'t': 'region', 'excl': rng.random() < 0.25, 'ann': rng.random() < 0.2, 'body': body, 'items': items,
                'comma': rng.random() < 0.85, 'space': rng.random() < 0.15}
        if not line['excl'] and rng.random() < 0.1:
            line['plus'] = True
        lines.append(line)
    if bad:
        regs = [l for l in lines if l['t'] == 'region']
        l = rng.choice(regs)
        b = l['body']
        k = rng.choice(['nounit', 'badkey', 'pixsky', 'point', 'badsym', 'poly2', 'unknownframe', 'zerosize',
                        'otherunit', 'quotepair', 'globalbadkey', 'upperkey'])
        case_note = k
        if k == 'nounit':
            for f in ('r', 'r1', 'a', 'w', 'ang'):
                if f in b:
                    b[f] = {'d': b[f]['d'], 'u': 'none'}
                    break
        elif k == 'badkey':
            l['items'].append({'k': rng.choice(['tag', 'include', 'foo', 'text']), 's': 'v'})
        elif k == 'upperkey':
            l['items'].append({'k': 'Color', 's': 'red'})
        elif k == 'globalbadkey':
            lines.insert(1 if lines[0]['t'] == 'comment' else 0, {'t': 'global', 'items': [{'k': 'label', 's': 'v'}]})
        elif k == 'pixsky':
            if 'c' in b:
                b['c'] = g_pt(rng, True)
        elif k == 'point':
            if 'c' in b:
                l['body'] = {'n': 'point', 'c': b['c']}
        elif k == 'badsym':
            if b['n'] == 'symbol':
                b['sym'] = rng.choice(['q', 'Z', '12deg'])
        elif k == 'poly2':
            if b['n'] == 'poly':
                b['vs'] = b['vs'][:2]
        elif k == 'unknownframe':
            l['items'].append({'k': 'coord', 's': rng.choice(['B1950_VLA', 'AZEL', 'TOPO'])})
        elif k == 'zerosize':
            for f in ('r', 'a', 'w'):
                if f in b:
                    b[f] = {'d': [False, '0', 3], 'u': b[f]['u']}
                    break
        elif k == 'otherunit':
            for f in ('r', 'r2', 'b', 'h'):
                if f in b:
                    b[f] = {'d': b[f]['d'], 'u': 'other:mas'}
                    break
        elif k == 'quotepair':
            for f in ('r1', 'a', 'w'):
                if f in b:
                    b[f] = {'d': b[f]['d'], 'u': 'dq'}
                    break
    else:
        case_note = 'plain'
    return {'kind': 'read', 'lines': lines, 'note': case_note,
            'ser_coordsys': rng.choice(SKY_FRAMES), 'ser_fmt': f'.{rng.choice([3, 4, 6, 8, 10])}f'}


def real_read(case):
    from regions import Regions
    text = render_lines(case['lines'])
    out = {'text': text}
    with warnings.catch_warnings():
        warnings.simplefilter('ignore')
        try:
            parsed = Regions.parse(text, format='crtf')
        except Exception as e:
            out['exc'] = exc_name(e)
            out['msg'] = str(e)[:200]
            return out
        out['parsed'] = [canon_region(r) for r in parsed]
    return out
