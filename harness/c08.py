"""C08 — compound regions and annuli obey set algebra."""
import math
import operator
from fractions import Fraction

import numpy as np

from . import regiongen as G
from . import c02 as C02
from .c01 import query_points
from .common import frac
from .runner import PropertyCheck

EPS = Fraction(1, 10 ** 9)


def F(x):
    return Fraction(float(x))


def depth(d):
    return 0 if d['kind'] != 'compound' else 1 + max(depth(d['a']), depth(d['b']))


def pair_kind(rng):
    """operands that overlap / nest / are disjoint / touch."""
    a = C02.small_region(rng, rng.choice(C02.MASKABLE), base=0.0)
    mode = rng.choice(['overlap', 'nested', 'disjoint', 'touch', 'any'])
    b = C02.small_region(rng, rng.choice(C02.MASKABLE), base=0.0)
    ca = G.approx_center(a)
    sa = G.approx_size(a)
    def move(d, dx, dy):
        for key in ('c',):
            if key in d:
                d[key] = [ca[0] + dx, ca[1] + dy]
        if 'v' in d:
            cb = G.approx_center(d)
            d['v'] = [[p[0] - cb[0] + ca[0] + dx, p[1] - cb[1] + ca[1] + dy] for p in d['v']]
        return d
    if mode == 'overlap':
        b = move(b, sa * 0.4, sa * 0.2)
    elif mode == 'nested':
        b = move(b, 0.0, 0.0)
    elif mode == 'disjoint':
        b = move(b, sa * 3 + 6, 0.0)
    elif mode == 'touch':
        if a['kind'] == 'circle' and b['kind'] == 'circle':
            b = move(b, a['r'] + b['r'], 0.0)
        else:
            b = move(b, sa, 0.0)
    return a, b, mode


_WCS = []


def _fixed_wcs(lat_first=False):
    """undistorted celestial WCSs (TAN, rotated, non-square pixels) for the conversion-commutation clause:
    the ordinary one, and one whose FIRST pixel axis is the latitude."""
    if not _WCS:
        from astropy.wcs import WCS
        for ct in (['RA---TAN', 'DEC--TAN'], ['DEC--TAN', 'RA---TAN']):
            w = WCS(naxis=2)
            w.wcs.ctype = ct
            w.wcs.crval = [83.6, 22.0] if ct[0].startswith('RA') else [22.0, 83.6]
            w.wcs.crpix = [3.0, -2.0]
            th = math.radians(27.0)
            w.wcs.cd = [[-2e-4 * math.cos(th), 2.5e-4 * math.sin(th)], [2e-4 * math.sin(th), 2.5e-4 * math.cos(th)]]
            _WCS.append(w)
    return _WCS[1 if lat_first else 0]


class Check(PropertyCheck):
    id = 'C08'
    lean_targets = ['RegionsVerif.Props.C08', 'RegionsVerif.Bridge.CompoundGlue', 'RegionsVerif.Bridge.InlineGlueC08']
    namespaces = ['RegionsVerif.Props.C08', 'RegionsVerif.Bridge.CompoundGlue', 'RegionsVerif.Bridge.InlineGlueC08']

    def _inline_glue(self):
        # tie T: normal forms of the glue methods (tools/inlineglue.py, group C08)
        import importlib.util, os
        from .common import VERIF
        spec = importlib.util.spec_from_file_location('inlineglue', os.path.join(VERIF, 'tools', 'inlineglue.py'))
        mod = importlib.util.module_from_spec(spec)
        spec.loader.exec_module(mod)
        return mod.main(['C08'])

    def translate(self):
        return list(self._translate0()) + list(self._inline_glue())

    def _translate0(self):
        # tie T: regenerate Gen/CompoundGlue.lean (CompoundPixelRegion.contains, the annulus structure) from the current source
        import importlib.util, os
        from .common import VERIF
        spec = importlib.util.spec_from_file_location('compoundglue', os.path.join(VERIF, 'tools', 'compoundglue.py'))
        mod = importlib.util.module_from_spec(spec)
        spec.loader.exec_module(mod)
        return mod.main()
    rule = ('pairs of maskable pixel regions (overlapping, nested, disjoint, touching) and nested expressions to depth 3 built with '
            '&, |, ^ x include flags on operands and compound x query positions scaled to the operands; all three annulus classes. '
            'Non-trivial = the operands\' answers differ on at least one query point / the union mask has both 0 and 1.')
    assumptions = ['query positions / pixel centres whose exact relative distance to any operand boundary is < 1e-9 are excepted',
                   'np.pad and numpy integer bitwise operators behave as padCell / intOp of Impl/MaskGen.lean']
    validated_only = ['commutation with pixel<->sky conversion is C06 (WCS is a parameter there)',
                      'an arbitrary callable operator (not and/or/xor) is outside the model; the API only builds these three']

    def generate(self, rng, tier):
        cases = []
        n = 260 if tier == 'quick' else 10000
        for _ in range(n):
            m = rng.random()
            if m < 0.55:
                a, b, pm = pair_kind(rng)
                if rng.random() < 0.12:
                    # EQUAL operands (a separately built equal region): a ^ a is empty, and an excluded a | a, a & a
                    # still negates operand and whole - no idempotence shortcut is valid
                    import copy as _copy
                    b = _copy.deepcopy(a)
                    pm = 'equal-operands'
                d = {'kind': 'compound', 'op': rng.choice(['and', 'or', 'xor']), 'a': a, 'b': b, 'include': rng.choice(G.INCLUDES)}
            elif m < 0.8:
                d = C02.small_region(rng, compound_depth=rng.randint(2, 3))
                pm = 'nested-expr'
            else:
                d = C02.small_region(rng, rng.choice(['circle_annulus', 'ellipse_annulus', 'rectangle_annulus']), base=0.0)
                pm = 'annulus'
            leaf = d
            while leaf['kind'] == 'compound':
                leaf = leaf['a'] if rng.random() < 0.5 else leaf['b']
            pts = query_points(rng, leaf, 16)
            if pm == 'annulus' and rng.random() < 0.4:
                # exact arithmetic: lattice centre, Pythagorean radii / integer sizes, no rotation; query positions
                # EXACTLY on the inner and outer boundaries (the annulus must answer what outer-and-not-inner answers)
                cx, cy = rng.randint(-3, 3) + rng.choice([0.0, 0.5]), rng.randint(-3, 3) + rng.choice([0.0, 0.5])
                d['c'] = [cx, cy]
                TRI = {1.5: [], 2.5: [(1.5, 2.0)], 5.0: [(3.0, 4.0)], 10.0: [(6.0, 8.0)], 13.0: [(5.0, 12.0)]}
                pts = list(pts)
                if d['kind'] == 'circle_annulus':
                    r1, r2 = sorted(rng.sample(sorted(TRI), 2))
                    d['r1'], d['r2'] = r1, r2
                    for r in (r1, r2):
                        for (a, b) in [(r, 0.0), (0.0, r)] + TRI[r] + [(y, x) for (x, y) in TRI[r]]:
                            for sx in (1, -1):
                                for sy in (1, -1):
                                    pts.append((cx + sx * a, cy + sy * b))
                else:
                    d['angle'] = [0.0, 'deg']
                    w1, h1 = float(rng.randint(1, 4)), float(rng.randint(1, 4))
                    d['w1'], d['h1'], d['w2'], d['h2'] = w1, h1, w1 + rng.randint(1, 4), h1 + rng.randint(1, 4)
                    for (w, h) in ((d['w1'], d['h1']), (d['w2'], d['h2'])):
                        for sx in (1, -1):
                            pts += [(cx + sx * w / 2, cy), (cx, cy + sx * h / 2), (cx + sx * w / 2, cy + h / 4),
                                    (cx + w / 4, cy + sx * h / 2), (cx + sx * w / 2, cy + sx * h / 2)]
            ang = G.rangle(rng)
            case = {'kind': pm, 'region': d, 'pts': [list(p) for p in pts], 'angle': ang,
                    'o': [rng.uniform(-3, 3), rng.uniform(-3, 3)]}
            if 'c' in d and rng.random() < 0.3:
                # the pivot is the region's own centre (exactly, or equal to it within PixCoord's `==` tolerance): only a
                # circular annulus maps onto itself then
                k_ = rng.choice([0.0, 0.0, 1e-7])
                case['o'] = [d['c'][0] * (1 + k_), d['c'][1] * (1 + k_)]
            # history: the same OBJECT was used with other parameters before (annulus), or an operand of the
            # compound is re-parametrised in place after the compound was built and used
            if pm == 'annulus':
                G.add_history(rng, case, prob=0.5)
            elif d['kind'] == 'compound' and d['a']['kind'] in G.HISTORY_KINDS and 'origin' not in d['a'] and rng.random() < 0.3:
                p0 = G.gen_simple(rng, kind=d['a']['kind'], scale=1.0, center_scale=3)
                p0.pop('origin', None)
                case['prev_a'] = p0
            cases.append(case)
        return cases

    def _build(self, case):
        """(region, operand1, operand2) with the case's history applied."""
        d = case['region']
        if d['kind'] != 'compound':
            return G.build_case(case), None, None
        if 'prev_a' not in case:
            reg = G.build(d)
            if int(abs(case['o'][0]) * 1e6) % 4 == 0:
                # the compound's include flag is EDITED after construction (and after the compound was used): it is BUILT
                # with the opposite flag, asked, then given the flag of the case
                want = reg.meta.get('include', None)
                reg = G.build(dict(d, include='false' if G.truthy(d.get('include', 'absent')) else 'true'))
                G.warm(reg)
                if want is None:
                    del reg.meta['include']
                else:
                    reg.meta['include'] = want
            return reg, G.build(d['a']), G.build(d['b'])
        from regions import CompoundPixelRegion
        opf = {'and': operator.and_, 'or': operator.or_, 'xor': operator.xor}[d['op']]
        r1, r2 = G.build(case['prev_a']), G.build(d['b'])
        reg = CompoundPixelRegion(r1, r2, opf, meta=G._meta(d))
        G.warm(reg)
        G.reassign(r1, d['a'])
        return reg, r1, r2

    def real(self, case):
        import astropy.units as u
        from regions import CompoundPixelRegion, PixCoord
        d = case['region']
        reg, r1, r2 = self._build(case)
        xs = np.array([p[0] for p in case['pts']]); ys = np.array([p[1] for p in case['pts']])
        pc = PixCoord(xs, ys)
        out = {'contains': [bool(v) for v in np.ravel(reg.contains(pc))]}
        if d['kind'] == 'compound':
            # built through the operators of the public API as well
            opf = {'and': operator.and_, 'or': operator.or_, 'xor': operator.xor}[d['op']]
            viaop = opf(r1, r2)
            out['op_cls'] = type(viaop).__name__
            out['op_operator'] = getattr(getattr(viaop, 'operator', None), '__name__', None)
            a1 = np.ravel(r1.contains(pc)); a2 = np.ravel(r2.contains(pc))
            out['operands'] = [[bool(v) for v in a1], [bool(v) for v in a2]]
            out['via_op'] = [bool(v) for v in np.ravel(viaop.contains(pc))]
            # masks
            try:
                m = reg.to_mask('center')
                m1, m2 = r1.to_mask('center'), r2.to_mask('center')
                B = m.bbox
                out['bbox'] = [B.ixmin, B.ixmax, B.iymin, B.iymax]
                ub = r1.bounding_box | r2.bounding_box
                out['bbox_union'] = [ub.ixmin, ub.ixmax, ub.iymin, ub.iymax]
                full = lambda mk: mk.to_image((B.iymax + 1 if B.iymax > 0 else 1, B.ixmax + 1 if B.ixmax > 0 else 1))
                # place on the union box by absolute pixel
                def placed(mk):
                    arr = np.zeros((B.iymax - B.iymin, B.ixmax - B.ixmin), dtype=int)
                    bb = mk.bbox
                    arr[bb.iymin - B.iymin:bb.iymax - B.iymin, bb.ixmin - B.ixmin:bb.ixmax - B.ixmin] = np.asarray(mk.data, dtype=int)
                    return arr
                npop = {'and': np.logical_and, 'or': np.logical_or, 'xor': np.logical_xor}[d['op']]
                exp = npop(placed(m1), placed(m2)).astype(int)
                out['mask'] = np.asarray(m.data, dtype=int).tolist()
                out['mask_expected'] = exp.tolist()
            except NotImplementedError:
                out['mask'] = None
            # rotation commutes
            o = PixCoord(case['o'][0], case['o'][1])
            ang = case['angle'][0] * u.Unit(case['angle'][1])
            rr = reg.rotate(o, ang)
            out['rot_cls'] = type(rr).__name__
            out['rot_operator'] = rr.operator.__name__
            rr2 = CompoundPixelRegion(r1.rotate(o, ang), r2.rotate(o, ang), reg.operator, reg.meta, reg.visual)
            pr = pc.rotate(o, ang)
            out['rot_a'] = [bool(v) for v in np.ravel(rr.contains(pr))]
            out['rot_b'] = [bool(v) for v in np.ravel(rr2.contains(pr))]
            out['rot_meta_same'] = (rr.meta == reg.meta)
            # conversion commutes: (a op b).to_sky(wcs) answers like the compound of the converted operands
            # (same arithmetic on both sides, so the answers are compared exactly), and converts back likewise
            try:
                from regions import CompoundSkyRegion
                import zlib
                w = _fixed_wcs(zlib.crc32(repr(case['pts']).encode()) % 3 == 0)
                sk = reg.to_sky(w)
                sk2 = CompoundSkyRegion(r1.to_sky(w), r2.to_sky(w), reg.operator, reg.meta, reg.visual)
                sc = pc.to_sky(w)
                out['sky_cls'] = type(sk).__name__
                out['sky_operator'] = sk.operator.__name__
                out['sky_meta_same'] = bool(sk.meta == reg.meta and sk.visual == reg.visual)
                out['sky_a'] = [bool(v) for v in np.ravel(sk.contains(sc, w))]
                out['sky_b'] = [bool(v) for v in np.ravel(sk2.contains(sc, w))]
                # the sky compound's own answers are the operator applied to its operands' answers (include flag on top)
                vo = np.ravel(reg.operator(sk.region1.contains(sc, w), sk.region2.contains(sc, w)))
                if not reg.meta.get('include', True):
                    vo = np.logical_not(vo)
                out['sky_via_op'] = [bool(v) for v in vo]
                bk = sk.to_pixel(w)
                bk2 = CompoundPixelRegion(sk2.region1.to_pixel(w), sk2.region2.to_pixel(w), reg.operator, reg.meta, reg.visual)
                out['back_cls'] = type(bk).__name__
                out['back_meta_same'] = bool(bk.meta == reg.meta and bk.visual == reg.visual)
                out['back_a'] = [bool(v) for v in np.ravel(bk.contains(pc))]
                out['back_b'] = [bool(v) for v in np.ravel(bk2.contains(pc))]
            except NotImplementedError:
                pass
        else:
            inner, outer = reg._inner_region, reg._outer_region
            out['inner'] = [bool(v) for v in np.ravel(inner.contains(pc))]
            out['outer'] = [bool(v) for v in np.ravel(outer.contains(pc))]
            out['area'] = [float(reg.area), float(outer.area), float(inner.area)]
            # rotation commutes: the rotated annulus is (rotated outer) and not (rotated inner)
            o = PixCoord(case['o'][0], case['o'][1])
            ang = case['angle'][0] * u.Unit(case['angle'][1])
            rr = reg.rotate(o, ang)
            pr = pc.rotate(o, ang)
            out['rot_cls_same'] = type(rr) is type(reg)
            out['rot_a'] = [bool(v) for v in np.ravel(rr.contains(pr))]
            ro, ri = outer.rotate(o, ang), inner.rotate(o, ang)
            out['rot_outer'] = [bool(v) for v in np.ravel(ro.contains(pr))]
            out['rot_inner'] = [bool(v) for v in np.ravel(ri.contains(pr))]
            # the centre-mode mask of an annulus is xor(inner mask, outer mask) on the outer box
            try:
                m = reg.to_mask('center')
                m1, m2 = inner.to_mask('center'), outer.to_mask('center')
                B = m.bbox
                ob = outer.bounding_box
                out['bbox'] = [B.ixmin, B.ixmax, B.iymin, B.iymax]
                out['bbox_union'] = [ob.ixmin, ob.ixmax, ob.iymin, ob.iymax]
                exp = np.zeros((ob.iymax - ob.iymin, ob.ixmax - ob.ixmin), dtype=int)
                for mk in (m1, m2):
                    bb = mk.bbox
                    sub = np.zeros_like(exp)
                    sub[bb.iymin - ob.iymin:bb.iymax - ob.iymin, bb.ixmin - ob.ixmin:bb.ixmax - ob.ixmin] = np.asarray(mk.data, dtype=int)
                    exp = np.logical_xor(exp, sub).astype(int)
                out['mask'] = np.asarray(m.data, dtype=int).tolist()
                out['mask_expected'] = exp.tolist()
            except NotImplementedError:
                out['mask'] = None
        return out

    def requests(self, case):
        d = case['region']
        reg = G.build(d)
        mj = G.model(d, reg)
        pts = [[frac(F(p[0])), frac(F(p[1]))] for p in case['pts']]
        reqs = [{'op': 'contains', 'region': mj, 'pts': pts}]
        if d['kind'] == 'compound':
            reqs.append({'op': 'contains', 'region': mj['a'], 'pts': pts})
            reqs.append({'op': 'contains', 'region': mj['b'], 'pts': pts})
            reqs.append({'op': 'region.mask', 'region': mj, 'mode': 'center'})
        return reqs

    def model(self, case, replies):
        out = {'contains': replies[0].get('ok')}
        if case['region']['kind'] == 'compound':
            out['operands'] = [replies[1].get('ok'), replies[2].get('ok')]
            m = replies[3]
            if 'ok' in m:
                out['bbox'] = [int(v) for v in m['ok']['bbox']]
                out['mask'] = [[int(Fraction(v)) for v in row] for row in m['ok']['data']]
            else:
                out['mask'] = None
        return out

    def _margin(self, d, p):
        return G.spec_contains(d, F(p[0]), F(p[1]))[1]

    def equal(self, case, real, model):
        d = case['region']
        for i, p in enumerate(case['pts']):
            if self._margin(d, p) < EPS:
                continue
            if real['contains'][i] != model['contains'][i]:
                return False
            if d['kind'] == 'compound':
                if real['operands'][0][i] != model['operands'][0][i] or real['operands'][1][i] != model['operands'][1][i]:
                    return False
        if d['kind'] == 'compound' and real.get('mask') is not None:
            if model.get('mask') is None:
                return False
            from .c04 import Check as C4
            sk = C4()._skip_sides(d)
            if any(sk):
                return True
            if real['bbox'] != model['bbox']:
                return False
            B = real['bbox']
            for j, (rr, mr) in enumerate(zip(real['mask'], model['mask'])):
                for i, (rv, mv) in enumerate(zip(rr, mr)):
                    if rv != mv:
                        _, mg = C02.spec_raw_any(d, Fraction(B[0] + i), Fraction(B[2] + j))
                        if mg >= EPS:
                            return False
        return True

    def oracle(self, case, real):
        V = []
        d = case['region']
        def bad(kind, detail):
            V.append({'kind': kind, 'detail': f'{detail} :: region={d}'})
        if d['kind'] == 'compound':
            if real['op_cls'] != 'CompoundPixelRegion' or real['op_operator'] != {'and': 'and_', 'or': 'or_', 'xor': 'xor'}[d['op']]:
                bad('operator_builds_wrong_compound', f'{real["op_cls"]} {real["op_operator"]}')
            f = {'and': lambda a, b: a and b, 'or': lambda a, b: a or b, 'xor': lambda a, b: a != b}[d['op']]
            neg = not G.truthy(d.get('include', 'absent'))
            for i, p in enumerate(case['pts']):
                # (no boundary exception: these relate answers of the real code to each other)
                e = f(real['operands'][0][i], real['operands'][1][i])
                if real['contains'][i] != (e != neg):
                    bad('compound_contains_wrong', f'point {p}: operands {real["operands"][0][i]},{real["operands"][1][i]} -> {real["contains"][i]} (include={d.get("include")})')
                    break
                # the operator-built compound takes its meta from the first operand
                neg1 = not G.truthy(d['a'].get('include', 'absent'))
                if real['via_op'][i] != (e != neg1):
                    bad('operator_compound_contains_wrong', f'point {p}')
                    break
                if real['rot_a'][i] != real['rot_b'][i]:
                    bad('rotate_does_not_commute', f'point {p}')
                    break
            if real['rot_cls'] != 'CompoundPixelRegion' or real['rot_operator'] != real['op_operator'] or not real['rot_meta_same']:
                bad('rotate_changes_compound', '')
            if 'sky_via_op' in real and real['sky_a'] != real['sky_via_op']:
                i = [k for k in range(len(real['sky_a'])) if real['sky_a'][k] != real['sky_via_op'][k]][0]
                bad('sky_compound_not_operator_of_operands', f'point {case["pts"][i]}: sky compound {real["sky_a"][i]}, operator of its operands\' answers {real["sky_via_op"][i]}')
            if 'sky_a' in real:
                if real['sky_a'] != real['sky_b']:
                    i = [k for k in range(len(real['sky_a'])) if real['sky_a'][k] != real['sky_b'][k]][0]
                    bad('to_sky_does_not_commute', f'point {case["pts"][i]}: converted compound {real["sky_a"][i]}, compound of converted operands {real["sky_b"][i]}')
                if real['sky_cls'] != 'CompoundSkyRegion' or real['sky_operator'] != real['op_operator'] or not real['sky_meta_same']:
                    bad('to_sky_changes_compound', f'{real["sky_cls"]} {real["sky_operator"]} meta/visual same: {real["sky_meta_same"]}')
            if 'back_a' in real:
                if real['back_a'] != real['back_b']:
                    bad('to_pixel_does_not_commute', '')
                if real['back_cls'] != 'CompoundPixelRegion' or not real['back_meta_same']:
                    bad('to_pixel_changes_compound', f'{real["back_cls"]} meta/visual same: {real["back_meta_same"]}')
            if real.get('mask') is not None:
                if real['bbox'] != real['bbox_union']:
                    bad('compound_bbox_not_union', f'{real["bbox"]} vs {real["bbox_union"]}')
                if real['mask'] != real['mask_expected']:
                    bad('compound_mask_not_op_of_masks', f'{real["mask"]} vs {real["mask_expected"]}')
        else:
            neg = not G.truthy(d.get('include', 'absent'))
            for i, p in enumerate(case['pts']):
                # (no boundary exception: this relates answers of the real code to each other)
                # inner/outer helper regions share the annulus' meta: undo their own flag
                o = real['outer'][i] != neg
                inn = real['inner'][i] != neg
                if real['contains'][i] != ((o and not inn) != neg):
                    bad('annulus_contains_wrong', f'point {p}: outer={o} inner={inn} -> {real["contains"][i]}')
                    break
            if not real.get('rot_cls_same', True):
                bad('rotate_changes_annulus_class', '')
            for i, p in enumerate(case['pts']):
                if self._margin(d, p) < EPS * 1000:      # rotated positions carry rounding of the rotation
                    continue
                o2 = real['rot_outer'][i] != neg
                i2 = real['rot_inner'][i] != neg
                if real['rot_a'][i] != ((o2 and not i2) != neg):
                    bad('annulus_rotate_does_not_commute', f'point {p}: rotated outer={o2} inner={i2} -> {real["rot_a"][i]}')
                    break
            a, ao, ai = real['area']
            # (float32-typed sizes give float32 areas: the subtraction is then rounded to 2^-24 relative)
            if abs(a - (ao - ai)) > (1e-6 if d.get('size_np') == 'float32' else 1e-12) * max(abs(ao), 1e-300):
                bad('annulus_area_wrong', f'{a} vs {ao} - {ai}')
            if real.get('mask') is not None:
                if real['bbox'] != real['bbox_union']:
                    bad('annulus_bbox_not_outer', f'{real["bbox"]} vs {real["bbox_union"]}')
                elif real['mask'] != real['mask_expected']:
                    bad('annulus_mask_not_xor_of_masks', f'{real["mask"]} vs {real["mask_expected"]}')
        return V

    def nontrivial(self, case, real):
        if 'operands' in real:
            return real['operands'][0] != real['operands'][1]
        return len(set(real['contains'])) == 2

    def bucket(self, case, real):
        d = case['region']
        return f"{case['kind']}/{d.get('op', d['kind'])}/depth{depth(d)}"
